"""C09 - definite assignment.

proof        : props/C09.v (soundness for variables on every path, lexical completeness lemmas,
               refuted: call before def [D12], "defined on all paths" [D13]; outside_known)
tie          : verdict of the model (coq_eval of Scope.verdict_program) == verdict of mamba_to_python on
               the rendered skeleton (error kind from the diagnostic text), every skeleton of a small
               alphabet up to a size bound + random larger ones
direct oracle: (1) the flow specification computed in python on the skeleton: accepted although a read is
               not definitely defined / rejected as undefined although every read is; (2) the emitted
               Python is executed under three branch variants: NameError / UnboundLocalError
"""
from .common import Check, build_harness
from . import scope as S

THEOREMS = ["C09_sound_vars", "C09_sound_refuted", "C09_sound_outside_known", "C09_read_defined_ok",
            "C09_definition_visible", "C09_visible_preserved", "C09_complete_paths_refuted",
            "C09_lookup_is_get_var", "C09_complete_lexical"]


def small_alphabet():
    V, W = 1, 2
    k = ("const",)
    atoms = [("simple", ("def", True, [V], k)), ("simple", ("def", False, [V], k)),
             ("simple", ("expr", ("print", [("read", V)]))), ("simple", ("assign", [V], k)),
             ("simple", ("aug", V, k)), ("simple", ("expr", ("print", [("read", W)]))),
             ("simple", ("expr", ("call", 1, [])))]
    comp = [(1, lambda b: ("if", k, b)), (2, lambda a, b: ("ifelse", k, a, b)),
            (1, lambda b: ("while", k, b)), (1, lambda b: ("for", [W], k, b)),
            (1, lambda b: ("match", k, [((True, W), b)])),
            (1, lambda b: ("fun", 1, [], [], False, b))]
    return atoms, comp


def cases_for(ck, quick):
    tb = S.Tables(S.HIERARCHIES[0])
    atoms, comp = small_alphabet()
    memo, ex = {}, []
    for n in (1, 2, 3):
        ex += S.enum_blocks(atoms, comp, n, memo)
    four = S.enum_blocks(atoms, comp, 4, memo)
    ex += four if not quick else ck.rng.sample(four, min(len(four), 500))
    # at most one definition of f1 per program (a second one is a different matter: D31)
    ex = [p for p in ex if sum(1 for s in p if s[0] == "fun") <= 1 and S.shape(p).count("fun{") <= 1]
    cases = [(p, tb) for p in ex]
    n_ex = len(cases)
    feats = {"fun", "call", "loops", "match", "tuple", "obj", "handle", "raise"}
    cases += S.random_cases(ck.rng, 500 if quick else 12000, size=(3, 14), features=feats, p_bad=0.04)
    # initialisers that read the name they define (typed / untyped, every kind of scope, with controls)
    cases += S.selfref_corpus()
    return cases, n_ex


def run(tier, replay=None):
    ck = Check("C09", tier)
    quick = tier == "quick"
    ck.proof(["props/C09.vo"], "props.C09", THEOREMS)
    build_harness(ck.log)
    ctor_only = None
    if replay:
        import json
        d = json.load(open(replay))
        if "ctor_body" in d:
            ctor_only, cases, n_ex = [(S.tuplify(d["ctor_body"]), tuple(d["fields"]))], [], 0
        else:
            cases, n_ex = S.load_replay(replay), 0
    else:
        cases, n_ex = cases_for(ck, quick)
    recs = S.evaluate(cases, ck.log)
    st = S.correspondence(ck, recs, "Scope.verdict_program vs mamba_to_python (C09 stream)")

    bad = S.oracle_selftest()
    if bad:
        ck.broken.append({"kind": "oracle-selftest", "where": "lib/vlib/scope.py judge_*", "examples": bad[:5]})

    # ---- direct oracle 1: the flow specification ---------------------------------------------------
    n_sound = n_over = 0
    rep = S.Reporter(ck)
    for r in recs:
        for what, cause in S.judge_c09(r):
            if r.impl == "VAccept":
                n_sound += 1
            else:
                n_over += 1
            rep.report(what, cause, r)

    # ---- direct oracle 2: run the emitted Python ---------------------------------------------------
    runs = S.emitted_python(recs)
    n_run = n_name = 0
    rt = {}
    for i, rs in runs.items():
        r = recs[i]
        for v, status, msg in rs:
            n_run += 1
            rt[status] = rt.get(status, 0) + 1
            if status in ("NameError", "UnboundLocalError"):
                n_name += 1
                cause = S.judge_c09_run(r, status)
                rep.report(f"accepted program raises {status}", cause, r,
                           {"variant": v, "python_error": status, "message": msg,
                            "emitted_from": S.render(r.p, r.tb, v)})
                break
    # ---- constructors: definite assignment of fields (specification + emitted Python only, no model) -------
    seen_ctor = {}

    def rep_ctor(what, cause, text, data):
        seen_ctor[cause] = seen_ctor.get(cause, 0) + 1
        known = ck.match_finding(text) is not None
        if seen_ctor[cause] <= 3:
            seen_ctor[cause + "/replay"] = ck.write_replay("ctor", dict(data, what=what, cause=cause, case_text=text))
        if known or seen_ctor[cause] <= 3:
            ck.violation(what, seen_ctor[cause + "/replay"], text)

    if ctor_only is not None or not replay:
        ck.cov["constructor_fields"] = S.run_ctor_family(ck, rep_ctor, quick, only=ctor_only)
        ck.cov["constructor_fields"]["causes"] = {k: v for k, v in seen_ctor.items() if not k.endswith("/replay")}
        ck.cov["constructor_fields"]["note"] = ("class bodies are not part of model/Scope.v: judged by the flow "
                                                "specification ctor_spec and by running the emitted Python")
    ck.cov["direct_oracle"] = {"accepted_but_spec_forbids": n_sound, "rejected_but_spec_allows": n_over,
                               "python_runs": n_run, "python_outcomes": rt, "name_errors": n_name,
                               "causes": rep.summary()}
    samples = [{"mamba": r.src.split("\n", 12)[-1], "implementation": r.impl, "model": r.model}
               for r in recs if S.size(r.p) >= 5][:3]
    S.finish_cov(ck, recs, st,
                 f"skeleton programs (model/Scope.v syntax) rendered to Mamba: all {n_ex} programs of <= 3 nodes "
                 "and a sample of those of 4 nodes over an alphabet of 7 simple statements and 6 compound forms "
                 "(thorough: all of size 4), plus random programs of 3..14 nodes with every construct, a corpus of "
                 "self-referencing initialisers (typed/untyped x 13 scopes x earlier/no definition), and - outside the "
                 "model - constructor bodies over field assignment/compound assignment (+= -= *=)/read/return/raise in if/else, match, loops (all "
                 "pairs of 26 branch shapes x prefixes x suffixes; quick: a sample); distinct by skeleton, "
                 "non-trivial = at least 3 nodes", samples,
                 extra_eval=n_run + ck.cov.get("constructor_fields", {}).get("programs", 0)
                 + ck.cov.get("constructor_fields", {}).get("python_runs", 0))
    return ck.finish()
