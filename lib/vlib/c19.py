"""C19 - diagnostics are well-formed and point into the offending file and line.

proof        : props/C19.v over model/Diag.v (executable model of format_err / format_location / get_width and
               the Display impls of TypeErr, ParseErr, UnimplementedErr, LexErr, with usize / i32 arithmetic of a
               debug build made explicit): rendering is total and equals a closed-form specification for every
               in-range position, message, cause list and source; the header names path and line:col; the
               quoted row is verbatim the line with that number; the caret run starts under the column; plus
               the refutation witnesses (column 0, union with the invisible position, line >= 2^31, line
               >= 10000, empty line).
tie          : translate/diag_consts.py regenerates the constants and the shape digests of the hand-modelled
               functions; `render` correspondence: the implementation (public constructors, harness/src/diag.rs)
               and the model render the same generated (kind, position, message, causes, source, path) byte
               for byte, panics included; the refutation witnesses are re-checked against the real code.
direct oracle: (a) a Python re-statement of the specification judged against the implementation's text for
               positions inside the source; (b) end to end: valid generated programs with one injected fault on
               a known line L through `mamba_to_python` with a path: >= 1 diagnostic, path named, line:col
               inside the text, quoted rows verbatim, some reported position on line L; a second stream of
               random character/line mutations checks the well-formedness clauses on every rejection.
"""
import json, os, re, sys
from concurrent.futures import ThreadPoolExecutor

import shutil

from .common import (Check, build_harness, run_sharded, run_lines, coq_make, hexs, unhex, MH, sh, VERIF,
                     NCPU, BuildError, CACHE, COQ)

RS = "\x1e"
ARROW = " ──→ "          # " ──→ "
HOOK = "└─→"             # "└─→"
PATH = "src/prog.mamba"
U64 = 2 ** 64
ALLOC_CAP = 65536          # model/Diag.v alloc_cap


# ------------------------------------------------------------------------------------------------
# text helpers shared by both oracles
# ------------------------------------------------------------------------------------------------

def rust_lines(s):
    """str::lines(): split at \\n, drop one \\r before it; a last line without \\n is kept as is (if non-empty)."""
    parts = s.split("\n")
    out = []
    for i, p in enumerate(parts):
        if i == len(parts) - 1:
            if p != "":
                out.append(p)
        else:
            out.append(p[:-1] if p.endswith("\r") else p)
    return out


def blen(s):
    return len(s.encode("utf-8"))


ROW_RE = re.compile(r"^( *)(\d+) \| (.*)$")
CARET_RE = re.compile(r"^( +)(\^+)$")


def parse_diag(text):
    """Structure of one rendered TypeErr/ParseErr/UnimplementedErr.
    Returns dict(path, pos=(l,c)|None, locs=[dict(line,col,width,row_text,rows=[(num,text)],offset)], ok)."""
    ls = text.split("\n")
    hi = next((i for i, l in enumerate(ls) if l.startswith(ARROW)), None)
    if hi is None:
        return {"ok": False, "why": "no header line"}
    head = ls[hi][len(ARROW):]
    m = re.match(r"^(.*):(\d+):(\d+)$", head)
    d = {"ok": True, "msg": "\n".join(ls[:hi]), "locs": []}
    if m:
        d["path"], d["pos"] = m.group(1), (int(m.group(2)), int(m.group(3)))
    else:
        d["path"], d["pos"] = head, None
    i = hi + 1
    first = True
    while i < len(ls):
        cm = CARET_RE.match(ls[i])
        if cm:
            rows, j = [], i - 1
            unknown = j > hi and ls[j] == "<unknown>"
            if unknown:
                j -= 1
            while j > hi and len(rows) < (1 if unknown else 2):
                rm = ROW_RE.match(ls[j])
                if not rm:
                    break
                rows.insert(0, (int(rm.group(2)), rm.group(3), len(rm.group(1)) + len(rm.group(2))))
                j -= 1
            offset = 0 if first else 4
            col = len(cm.group(1)) - 7 - offset + 1
            line = None
            if not unknown and rows:
                line = rows[-1][0]
            d["locs"].append({"line": line, "col": col, "width": len(cm.group(2)), "rows": rows,
                              "unknown": unknown, "main": first})
            first = False
        elif ls[i].lstrip().startswith(HOOK):
            first = False
        i += 1
    return d


# ------------------------------------------------------------------------------------------------
# (a) render correspondence
# ------------------------------------------------------------------------------------------------

SOURCES = [
    None, "", "x", "x\n", "def a := 1\nprint(b)\n", "a\r\nbb\r\nccc\r\n", "a\r", "a\r\n\r\nb", "a\n\nb\n", "\n\n", "\r\n",
    "a\rb\nc", "héllo wörld → 漢字\nline2 ñ\n", "tab\there\n\tindented\n",
    "def f(x: Int) -> Int =>\n    x + 1\n\nprint(f(2))", "    \n  x  \n", "l1\nl2\nl3\nl4\nl5\nl6\nl7\nl8\nl9\nl10\nl11\nl12\n",
    "x" * 300 + "\nshort\n", "ends with cr lf\r\n", "\n", "a\n\r\nb\n", " | \n^^^\n   1 | fake\n",
]
BIG_SOURCE = "".join(f"line {i}\n" for i in range(1, 10012))
MSGS = ["", "m", "Undefined variable: zz", "Expected a then token while parsing an if expression, but found \n",
        "two\nlines", "unïcode → msg", "trailing space ", "class", "elephants", "Apple", "s", "S", "élan",
        "expression", "a | b", "  ", "X"]
PATHS = [None, "src/a.mamba", "dir/", "/", "", "päth/ü.mamba", "a//", "/abs/file.mamba", "x:1:2", "a b/c"]
EDGE = [0, 1, 2, 3, 9, 10, 11, 12, 13, 99, 100, 999, 1000, 9999, 10000, 10001, 2 ** 31 - 2, 2 ** 31 - 1, 2 ** 31,
        2 ** 31 + 1, 2 ** 31 + 2, 2 ** 32 - 1, 2 ** 32, 2 ** 32 + 1, 2 ** 32 + 2, 2 ** 63 - 1, 2 ** 63, 2 ** 63 + 5,
        2 ** 64 - 2, 2 ** 64 - 1]


def rand_num(rng, near):
    r = rng.random()
    if r < 0.70:
        return max(0, near + rng.choice([-2, -1, 0, 0, 0, 1, 1, 2, 3]))
    if r < 0.85:
        return rng.randint(0, 14)
    return rng.choice(EDGE)


# Columns are drawn so that the implementation never has to build a multi-gigabyte row: a start column is small,
# near the model's allocation cap, or beyond isize::MAX (capacity-overflow panic); an end column is small or one
# whose `as i32` value is small / makes the i32 subtraction overflow.
START_EDGE = [0, 0, 1, 4999, 5000, ALLOC_CAP - 8, ALLOC_CAP + 1, 2 ** 63 + 5, 2 ** 64 - 2, 2 ** 64 - 1]
END_EDGE = [0, 1, 5000, 2 ** 31, 2 ** 32, 2 ** 32 + 1, 2 ** 32 + 2, 2 ** 63, 2 ** 64 - 1, 2 ** 32 * 7 + 3]


def rand_col(rng, near, edge):
    r = rng.random()
    if r < 0.78:
        return max(0, near + rng.choice([-1, 0, 0, 1, 2, 5]))
    if r < 0.92:
        return rng.randint(0, 40)
    return rng.choice(edge)


def rand_pos(rng, src):
    r = rng.random()
    if r < 0.06:
        return (0, 0, 0, 0)
    ls = rust_lines(src) if src is not None else []
    n = len(ls)
    sl = rand_num(rng, rng.randint(1, max(1, n)))
    ln = blen(ls[sl - 1]) if 1 <= sl <= n else 3
    sc = rand_col(rng, rng.randint(1, ln + 1), START_EDGE)
    r = rng.random()
    if r < 0.25:
        el, ec = sl, sc                                       # width 0
    elif r < 0.75:
        el, ec = sl, rand_col(rng, min(sc, 10 ** 4) + rng.randint(1, 6), END_EDGE)
    elif r < 0.9:
        el, ec = rand_num(rng, min(sl, 10 ** 6) + 1), rand_col(rng, rng.randint(0, 8), END_EDGE)   # multi-line span
    else:
        el, ec = rand_num(rng, 1), rand_col(rng, 1, END_EDGE)
    if r < 0.03:
        sl, sc = 0, 0                                         # union with the invisible position
    return (sl, sc, el, ec)


def gen_render_case(rng, lex_ok):
    kinds = ["type"] * 6 + ["typenp", "parse", "parse", "parsec", "parsec", "gen"] + (["lex", "lex"] if lex_ok else [])
    kind = rng.choice(kinds)
    src = BIG_SOURCE if rng.random() < 0.01 else rng.choice(SOURCES)
    pos = rand_pos(rng, src)
    causes = []
    for _ in range(rng.choice([0, 0, 0, 1, 1, 2, 3])):
        cp = pos if rng.random() < 0.3 else rand_pos(rng, src)
        causes.append((rng.choice(MSGS), cp))
    case = {"kind": kind, "pos": pos, "msg": rng.choice(MSGS), "causes": causes, "src": src,
            "path": rng.choice(PATHS)}
    if kind == "typenp":
        case["pos"] = None
    if kind == "gen":
        case["causes"] = []
    if kind == "lex":
        case["causes"] = []
        case["width"] = rng.choice([None, None, "a", "abc", "", "abcdefgh"])
    return case


WITNESSES = [
    # (name, case, expected implementation status) -- the concrete witnesses of the *_refuted theorems
    ("union_with_invisible_panics",
     {"kind": "type", "pos": (0, 0, 1, 5), "msg": "m", "causes": [], "src": "def a := 1\n", "path": PATH}, "PANIC"),
    ("column_zero_panics",
     {"kind": "parse", "pos": (1, 0, 1, 0), "msg": "m", "causes": [], "src": "def a := 1\n", "path": PATH}, "PANIC"),
    ("column_zero_without_source_panics",
     {"kind": "gen", "pos": (3, 0, 3, 4), "msg": "m", "causes": [], "src": None, "path": None}, "PANIC"),
    ("line_2pow32_plus_1_quotes_line_1",
     {"kind": "type", "pos": (2 ** 32 + 1, 1, 2 ** 32 + 1, 2), "msg": "m", "causes": [], "src": "first\nsecond\n",
      "path": PATH}, "OK"),
    ("line_2pow31_panics",
     {"kind": "type", "pos": (2 ** 31, 1, 2 ** 31, 2), "msg": "m", "causes": [], "src": "first\n", "path": PATH}, "PANIC"),
    ("line_10000_caret_shifted",
     {"kind": "type", "pos": (10000, 3, 10000, 4), "msg": "m", "causes": [], "src": BIG_SOURCE, "path": PATH}, "OK"),
    ("empty_line_quoted_unknown",
     {"kind": "type", "pos": (2, 1, 2, 1), "msg": "m", "causes": [], "src": "a\n\nb\n", "path": PATH}, "OK"),
    ("width_i32_overflow_panics",
     {"kind": "type", "pos": (1, 1, 1, 2 ** 31), "msg": "m", "causes": [], "src": "a\n", "path": PATH}, "PANIC"),
    ("capacity_overflow_panics",
     {"kind": "type", "pos": (1, 2 ** 63 + 5, 1, 2 ** 63 + 6), "msg": "m", "causes": [], "src": "a\n", "path": PATH}, "PANIC"),
    ("cause_column_zero_is_fine_at_offset_1",
     {"kind": "type", "pos": (1, 1, 1, 2), "msg": "m", "causes": [("c", (1, 0, 1, 3))], "src": "abc\n", "path": PATH}, "OK"),
]


def fmt_pos(p):
    return "~" if p is None else ",".join(str(x) for x in p)


def opt_field(s):
    return "~" if s is None else "s:" + hexs(s)


def impl_line(i, c):
    cs = ";".join(f"{hexs(m)}:{fmt_pos(p)}" for m, p in c["causes"]) or "-"
    if c["kind"] == "lex":
        p = f"{c['pos'][0]},{c['pos'][1]}"
        w = "~" if c.get("width") is None else hexs(c["width"])
        return f"{i}\trender\tlex\t{p}\t{hexs(c['msg'])}\t-\t{opt_field(c['src'])}\t{opt_field(c['path'])}\t{w}"
    return (f"{i}\trender\t{c['kind']}\t{fmt_pos(c['pos'])}\t{hexs(c['msg'])}\t{cs}\t{opt_field(c['src'])}"
            f"\t{opt_field(c['path'])}")


DIAG_BUILD = os.path.join(CACHE, "diag-driver")
DIAG_DRIVER = os.path.join(DIAG_BUILD, "run.sh")


def build_diag_driver(log):
    """Extract model/Diag.v (coq/extract/DiagExtract.v) and compile coq/extract/diag_driver.ml into cache/."""
    ok, bad, out = coq_make(["model/Diag.vo", "gen/DiagConsts.vo"], log)
    if not ok:
        raise BuildError("model/Diag.v does not compile: " + str(bad) + "\n" + out)
    ex = os.path.join(COQ, "extract")
    os.makedirs(DIAG_BUILD, exist_ok=True)
    srcs = [os.path.join(COQ, "model", "Diag.vo"), os.path.join(COQ, "gen", "DiagConsts.vo"),
            os.path.join(ex, "DiagExtract.v"), os.path.join(ex, "diag_driver.ml")]
    exe = os.path.join(DIAG_BUILD, "diag_driver")
    if not (os.path.exists(exe) and os.path.exists(DIAG_DRIVER)
            and all(os.path.getmtime(s) <= os.path.getmtime(exe) for s in srcs)):
        rc, out = sh(["coqc", "-Q", COQ, "MambaModel", os.path.join(ex, "DiagExtract.v")], cwd=DIAG_BUILD, timeout=600)
        if rc != 0:
            raise BuildError("extraction of model/Diag.v failed:\n" + out[-2000:])
        shutil.copy(os.path.join(ex, "diag_driver.ml"), os.path.join(DIAG_BUILD, "diag_driver.ml"))
        rc, out = sh("ocamlfind ocamlopt -w -a diag_model.mli diag_model.ml diag_driver.ml -o diag_driver",
                     cwd=DIAG_BUILD, timeout=600)
        if rc != 0:
            raise BuildError("diag driver build failed:\n" + out[-2000:])
        # the extracted list functions are not tail recursive: give them stack for 100 kB sources
        open(DIAG_DRIVER, "w").write('#!/bin/sh\nulimit -s 4000000 2>/dev/null || ulimit -s unlimited 2>/dev/null\n'
                                     'exec "$(dirname "$0")/diag_driver"\n')
        os.chmod(DIAG_DRIVER, 0o755)
        log("diag driver built")
    return DIAG_DRIVER


def path_text(p):
    p = "<unknown>" if p is None else p
    return p[:-1] if p.endswith("/") else p


def spec_render_inside(c):
    """Python re-statement of the specification for the head of a diagnostic whose position lies inside the
    source on a non-empty line below 10000: returns the exact expected prefix of the text, or None when the
    case is outside this class."""
    if c["kind"] not in ("type", "parse", "parsec", "gen") or c["pos"] is None or c["src"] is None:
        return None
    sl, sc, el, ec = c["pos"]
    if any(max(p) > 10000 for _, p in c["causes"]):
        return None                                # a cause with an out-of-range position may panic on its own
    ls = rust_lines(c["src"])
    if not (1 <= sl <= len(ls)) or sl >= 10000 or ls[sl - 1] == "":
        return None
    if not (1 <= sc <= blen(ls[sl - 1]) + 1) or not (0 <= ec <= 5000):
        return None
    msg = c["msg"]
    if c["kind"] == "parsec" and msg and "a" <= msg[0] <= "z":
        msg = msg[0].upper() + msg[1:]
    t = f"{msg}\n{ARROW}{path_text(c['path'])}:{sl}:{sc}\n"
    if sl >= 2 and ls[sl - 2] != "":
        t += f"{sl - 1:4} | {ls[sl - 2]}\n"
    t += f"{sl:4} | {ls[sl - 1]}\n"
    t += " " * (7 + sc - 1) + "^" * max(1, abs(ec - sc)) + "\n"
    return t


def render_part(ck, quick, replay_case=None):
    lex_ok = run_lines(MH, ["p\trender\tlex\t1,1\t" + hexs("m") + "\t-\t~\t~\t~"]).get("p", ["BAD"])[0] == "OK"
    cases = []
    if replay_case is not None:
        cases = [("replay", replay_case, None)]
    else:
        cases += [(n, c, st) for n, c, st in WITNESSES]
        n = 2500 if quick else 40000
        seen = set()
        while len(cases) < n + len(WITNESSES):
            c = gen_render_case(ck.rng, lex_ok)
            key = json.dumps(c, sort_keys=True)
            if key in seen and c["src"] is not BIG_SOURCE:
                continue
            seen.add(key)
            cases.append((None, c, None))
    ids = {f"r{i}": x for i, x in enumerate(cases)}
    reqs = [impl_line(i, x[1]) for i, x in ids.items()]
    impl = run_sharded(MH, reqs)
    mres = run_sharded(DIAG_DRIVER, reqs) if os.path.exists(DIAG_DRIVER) else {}
    model = []
    for i in ids:
        m = mres.get(i, ["MISSING"])
        model.append("R" + (m[1] if len(m) > 1 else "") if m[0] == "OK" else m[0] if m[0] in ("PANIC", "BIG") else None)
    stats = {"cases": len(ids), "agree_text": 0, "agree_panic": 0, "outside_model_big": 0, "disagree": 0,
             "by_kind": {}, "oracle_inside_checked": 0, "witnesses_confirmed": 0, "lex_hook_present": lex_ok}
    corr_bad, oracle_bad, wit_bad = [], [], []
    nontrivial = set()
    samples = []
    for (i, (name, c, want)), m in zip(ids.items(), model):
        r = impl.get(i, ["MISSING"])
        stats["by_kind"][c["kind"]] = stats["by_kind"].get(c["kind"], 0) + 1
        if r[0] == "BAD":
            corr_bad.append((c, f"harness rejected the case: {r}"))
            continue
        text = unhex(r[1]) if r[0] == "OK" and len(r) > 1 else None
        if m is None:
            corr_bad.append((c, "model did not evaluate"))
        elif m == "BIG":
            stats["outside_model_big"] += 1
        elif m == "PANIC":
            if r[0] == "PANIC":
                stats["agree_panic"] += 1
            else:
                stats["disagree"] += 1
                corr_bad.append((c, f"model panics, implementation {r[0]} {text!r}"))
        else:
            mt = bytes.fromhex(m[1:]).decode("utf-8", errors="replace")
            if r[0] == "OK" and r[1] == m[1:]:
                stats["agree_text"] += 1
                if c["src"] and c["pos"] and c["pos"] != (0, 0, 0, 0):
                    nontrivial.add(json.dumps(c, sort_keys=True))
            else:
                stats["disagree"] += 1
                corr_bad.append((c, f"model {mt!r} implementation {r[0]} {text if text is not None else unhex(r[1]) if len(r) > 1 else ''!r}"))
        # direct oracle on the implementation alone
        exp = spec_render_inside(c)
        if exp is not None:
            stats["oracle_inside_checked"] += 1
            if r[0] != "OK":
                oracle_bad.append((c, f"rendering failed ({r[0]}: {unhex(r[1]) if len(r) > 1 else ''}) for a position inside the source"))
            elif not text.startswith(exp):
                oracle_bad.append((c, f"expected the text to start with {exp!r}, got {text!r}"))
            elif len(samples) < 3 and c["causes"]:
                samples.append({"case": {k: v for k, v in c.items() if k != "src"}, "source": c["src"], "rendered": text})
        if want is not None:
            if r[0] == want:
                stats["witnesses_confirmed"] += 1
            else:
                wit_bad.append((name, f"theorem witness expects implementation status {want}, got {r[0]}"))
    # the two textual witnesses: what exactly is (mis)quoted
    for (i, (name, c, want)) in ids.items():
        r = impl.get(i, ["MISSING"])
        if name == "line_2pow32_plus_1_quotes_line_1" and r[0] == "OK":
            if "4294967297 | first\n" not in unhex(r[1]):
                wit_bad.append((name, "implementation no longer quotes line 1 under the label 4294967297"))
        if name == "line_10000_caret_shifted" and r[0] == "OK":
            if "10000 | line 10000\n" + " " * 9 + "^" not in unhex(r[1]):
                wit_bad.append((name, "caret row of line 10000 is not where the witness says"))
        if name == "empty_line_quoted_unknown" and r[0] == "OK":
            if "   1 | a\n<unknown>\n       ^\n" not in unhex(r[1]):
                wit_bad.append((name, "an empty line is no longer rendered as <unknown>"))
    stats["distinct_nontrivial"] = len(nontrivial)
    return stats, corr_bad, oracle_bad, wit_bad, samples


# ------------------------------------------------------------------------------------------------
# (b) end to end: one injected fault on a known line
# ------------------------------------------------------------------------------------------------

class L:
    """One generated source line with the pieces a fault injector needs."""
    __slots__ = ("text", "kind", "pre", "expr", "post", "scope")

    def __init__(self, text, kind, pre=None, expr=None, post=None, scope="top"):
        self.text, self.kind, self.pre, self.expr, self.post, self.scope = text, kind, pre, expr, post, scope


def iexpr(rng, vars_, funs, depth):
    r = rng.random()
    if depth <= 0 or r < 0.3:
        return rng.choice(vars_) if vars_ and rng.random() < 0.6 else str(rng.randint(0, 99))
    if r < 0.8:
        op = rng.choice(["+", "-", "*"])
        a, b = iexpr(rng, vars_, funs, depth - 1), iexpr(rng, vars_, funs, depth - 1)
        return f"({a} {op} {b})" if rng.random() < 0.5 else f"{a} {op} {b}"
    if funs:
        f, ar = rng.choice(funs)
        return f"{f}(" + ", ".join(iexpr(rng, vars_, funs, depth - 2) for _ in range(ar)) + ")"
    return str(rng.randint(0, 9))


def cond(rng, vars_):
    return f"{rng.choice(vars_)} {rng.choice(['>', '<', '>=', '<='])} {rng.randint(0, 9)}"


def gen_program(rng):
    out = []
    ind = lambda d: "    " * d

    def stmt(depth, vars_, funs, scope, allow_block=True):
        r = rng.random()
        i = ind(depth)
        if r < 0.25:
            e = iexpr(rng, vars_, funs, 2)
            out.append(L(f"{i}print({e})", "print", f"{i}print(", e, ")", scope))
        elif r < 0.45 and vars_ and scope != "fun":
            v = rng.choice([x for x in vars_ if x.startswith("v")] or ["v0"])
            e = iexpr(rng, vars_, funs, 2)
            out.append(L(f"{i}{v} := {e}", "reassign", f"{i}{v} := ", e, "", scope))
        elif r < 0.6 and funs:
            f, ar = rng.choice(funs)
            first = iexpr(rng, vars_, [], 1)
            rest = "".join(", " + iexpr(rng, vars_, [], 1) for _ in range(ar - 1))
            out.append(L(f"{i}print({f}({first}{rest}))", "call", f"{i}print({f}(", first, f"{rest}))", scope))
        elif r < 0.8 and allow_block and depth < 2:
            k = rng.random()
            if k < 0.5:
                out.append(L(f"{i}if {cond(rng, vars_)} then", "if_head", scope=scope))
                for _ in range(rng.randint(1, 2)):
                    stmt(depth + 1, vars_, funs, scope if scope != "top" else "block", depth < 1)
                if rng.random() < 0.6:
                    out.append(L(f"{i}else", "else", scope=scope))
                    stmt(depth + 1, vars_, funs, scope if scope != "top" else "block", False)
            elif k < 0.75:
                v = rng.choice([x for x in vars_ if x.startswith("v")] or ["v0"])
                out.append(L(f"{i}while {v} < {rng.randint(1, 9)} do", "while_head", scope=scope))
                e = iexpr(rng, vars_, [], 1)
                out.append(L(f"{ind(depth + 1)}{v} := {v} + 1", "reassign", f"{ind(depth + 1)}{v} := ", f"{v} + 1", "",
                             scope if scope != "top" else "block"))
                if rng.random() < 0.5:
                    out.append(L(f"{ind(depth + 1)}print({e})", "print", f"{ind(depth + 1)}print(", e, ")",
                                 scope if scope != "top" else "block"))
            else:
                it = rng.choice(["i", "j", "k"])
                out.append(L(f"{i}for {it} in {rng.randint(0, 3)} .. {rng.randint(4, 9)} do", "for_head", scope=scope))
                e = iexpr(rng, vars_ + [it], [], 1)
                out.append(L(f"{ind(depth + 1)}print({e})", "print", f"{ind(depth + 1)}print(", e, ")",
                             scope if scope != "top" else "block"))
        elif r < 0.9:
            out.append(L(f"{i}# note {rng.randint(0, 99)}", "comment", scope=scope))
        else:
            e = iexpr(rng, vars_, funs, 1)
            out.append(L(f"{i}print({e} + 1)", "print", f"{i}print(", f"{e} + 1", ")", scope))

    if rng.random() < 0.3:
        out.append(L("# generated program", "comment"))
    out.append(L("def fin c0 := 10", "def_fin"))
    vars_, funs = ["c0"], []
    nv = 0
    for _ in range(rng.randint(1, 3)):
        e = iexpr(rng, vars_, funs, 1)
        out.append(L(f"def v{nv} := {e}", "def_int", f"def v{nv} := ", e, ""))
        vars_.append(f"v{nv}")
        nv += 1
    if rng.random() < 0.5:
        s = rng.choice(['""', '"text"', '"v is {v0} ok"', '"héllo"', '"a b c"'])
        out.append(L(f"def s0 := {s}", "def_str"))
        out.append(L("print(s0)", "print_str"))
    if rng.random() < 0.3:
        out.append(L("", "blank"))
    nf = 0
    for _ in range(rng.randint(1, 3)):
        ar = rng.randint(1, 2)
        params = ["x", "y"][:ar]
        sig = ", ".join(f"{p}: Int" for p in params)
        if rng.random() < 0.5:
            e = iexpr(rng, params, funs, 1)
            out.append(L(f"def f{nf}({sig}) -> Int => {e}", "fundef1", f"def f{nf}({sig}) -> Int => ", e, ""))
        else:
            out.append(L(f"def f{nf}({sig}) -> Int =>", "fundef_head"))
            e = iexpr(rng, params, funs, 1)
            out.append(L(f"    def t := {e}", "def_int", "    def t := ", e, "", "fun"))
            if rng.random() < 0.4:
                out.append(L(f"    if t > {rng.randint(0, 9)} then", "if_head", scope="fun"))
                out.append(L(f"        print(t)", "print", "        print(", "t", ")", "fun"))
            e2 = iexpr(rng, params + ["t"], [], 1)
            out.append(L(f"    {e2}", "expr", "    ", e2, "", "fun"))
        funs.append((f"f{nf}", ar))
        nf += 1
    has_class = rng.random() < 0.5
    if has_class:
        out.append(L("class C0", "class_head"))
        out.append(L("    def x: Int := 1", "field", scope="class"))
        out.append(L("    def y: Int := 2", "field_unused", scope="class"))
        out.append(L("    def m(self, z: Int) -> Int => self.x + z", "method", "    def m(self, z: Int) -> Int => ",
                     "self.x + z", "", "class"))
        if rng.random() < 0.3:
            out.append(L("", "blank"))
    for _ in range(rng.randint(3, 10)):
        r = rng.random()
        if r < 0.15:
            e = iexpr(rng, vars_, funs, 2)
            out.append(L(f"def v{nv} := {e}", "def_int", f"def v{nv} := ", e, ""))
            vars_.append(f"v{nv}")
            nv += 1
        elif r < 0.2 and has_class:
            out.append(L("def o0 := C0()", "def_obj"))
            e = iexpr(rng, vars_, [], 1)
            out.append(L(f"print(o0.m({e}))", "call", "print(o0.m(", e, "))"))
            has_class = False
        elif r < 0.25:
            out.append(L("", "blank"))
        else:
            stmt(0, vars_, funs, "top")
    return out


def in_string_or_comment(text, idx):
    q = False
    for k, ch in enumerate(text[:idx]):
        if ch == '"':
            q = not q
        elif ch == "#" and not q:
            return True
    return q


def mutants(lines):
    """All single-line fault injections: (fault kind, 1-based line, new line text)."""
    out = []
    for n, l in enumerate(lines, 1):
        t = l.text
        if l.kind in ("comment", "blank"):
            continue
        out.append(("lex_bang_end", n, t + " !"))
        sp = t.find(" ", len(t) - len(t.lstrip()))
        if sp > 0 and not in_string_or_comment(t, sp):
            out.append(("lex_bang_mid", n, t[:sp] + " !" + t[sp:]))
        if l.kind == "if_head":
            out.append(("syn_missing_then", n, t.replace(" then", "")))
        if l.kind in ("while_head", "for_head"):
            out.append(("syn_missing_do", n, t[:-3]))
        k = t.rfind(")")
        if k >= 0 and not in_string_or_comment(t, k):
            out.append(("syn_missing_close", n, t[:k] + t[k + 1:]))
            out.append(("syn_extra_close", n, t + ")"))
        k = t.find("(")
        if k >= 0 and not in_string_or_comment(t, k) and l.kind in ("print", "call", "reassign", "def_int", "expr"):
            out.append(("syn_extra_open", n, t[:k] + "((" + t[k + 1:]))
        if l.expr is not None and l.kind in ("print", "def_int", "reassign", "expr", "fundef1", "call", "method"):
            out.append(("ty_undefined_var", n, l.pre + "zz_undefined" + l.post))
        if l.kind == "call":
            out.append(("ty_wrong_arg", n, l.pre + '"str"' + l.post))
        if l.kind == "reassign" and l.scope in ("top", "block"):
            out.append(("ty_reassign_fin", n, l.pre.replace(l.pre.strip().split(" ")[0], "c0", 1) + l.expr + l.post))
        if l.kind == "field_unused":
            out.append(("ctx_stmt_in_class", n, "    print(3)"))
    return out


def random_mutation(rng, src):
    """Unstructured damage for the well-formedness clauses (no expected line)."""
    ls = src.split("\n")
    r = rng.random()
    if r < 0.3 and len(src) > 1:
        k = rng.randrange(len(src))
        return src[:k] + src[k + 1:]
    if r < 0.6:
        k = rng.randrange(len(src) + 1)
        return src[:k] + rng.choice(list("()[]{}:=,.\"'!@$?\\|<>+-*/ \t\n\r;#") + ["def ", "then ", "=> ", "class ", " := ", "\r\n"]) + src[k:]
    if r < 0.7 and len(ls) > 2:
        k = rng.randrange(len(ls) - 1)
        return "\n".join(ls[:k] + ls[k + 1:])
    if r < 0.8 and len(ls) > 2:
        k = rng.randrange(len(ls) - 1)
        return "\n".join(ls[:k] + [ls[k], ls[k]] + ls[k + 1:])
    if r < 0.9 and len(ls) > 2:
        k = rng.randrange(len(ls) - 1)
        return "\n".join(ls[:k] + [("  " + ls[k]) if rng.random() < 0.5 else ls[k].lstrip()] + ls[k + 1:])
    k = rng.randrange(len(src) + 1)
    return src[:k]


def multiline_string(src):
    """(index of the opening quote, its 1-based line) of the first string literal that contains a newline (this
    includes an unterminated one running to the end of the text), scanning the way the lexer does; or None."""
    i, line, n = 0, 1, len(src)
    while i < n:
        ch = src[i]
        if ch == "#":
            while i < n and src[i] != "\n":
                i += 1
            continue
        if ch == "\n":
            line += 1
        if ch == '"':
            start, sline, back, depth, spans = i, line, False, 0, False
            i += 1
            while i < n:
                c = src[i]
                if not back and depth == 0 and c == '"':
                    break
                if c == "\n":
                    spans = True
                    line += 1
                if not back:
                    if c == "{":
                        depth += 1
                    elif c == "}":
                        depth -= 1
                back = c == "\\"
                i += 1
            if spans:
                return start, sline
        i += 1
    return None


def judge(src, path, resp, fault_line=None):
    """The direct oracle. `resp` = harness fields of `transpile`. Returns list of (clause, detail)."""
    if resp[0] in ("OK",):
        return []                                  # not rejected: the property says nothing
    if resp[0] == "PANIC":
        return [("render-or-pipeline-panicked", unhex(resp[1]) if len(resp) > 1 else "")]
    if resp[0] in ("CRASH", "MISSING"):
        return [("process-crashed", " ".join(resp[1:2]))]
    if resp[0] != "ERR":
        return [("harness", str(resp[:2]))]
    raw = unhex(resp[2]) if len(resp) > 2 else ""
    msgs = raw.split(RS) if raw != "" else []
    fails = []
    if not msgs or all(m.strip() == "" for m in msgs):
        return [("no-diagnostic", "rejected with an empty diagnostic list")]
    ls = rust_lines(src)
    on_line = False
    reported = []
    for m in msgs:
        d = parse_diag(m)
        if not d["ok"]:
            fails.append(("malformed", d["why"]))
            continue
        if d["path"] != path:
            fails.append(("path-not-named", f"header names {d['path']!r}"))
        if d["pos"] is not None and d["pos"] != (0, 0):
            l, c = d["pos"]
            reported.append(l)
            if l == len(ls) + 1 and c == 1 and (src == "" or src.endswith("\n")):
                pass                               # the position just after the final newline (end of text)
            elif l == len(ls) + 1 and c == 2 and (src == "" or src.endswith("\n")):
                # the Eof token after a final newline: same stamping as D34 (one column after the end), on the empty
                # line that follows the last newline; confirmed against the lexer's Eof token further down
                fails.append(("position-outside", f"column {c} on line {l} of length 0 = length + 2 of the last non-blank line "
                                                  f"(end-of-file token)"))
            elif not (1 <= l <= len(ls)):
                ms = multiline_string(src)
                q = f" (after a string literal that spans lines, opened on line {ms[1]})" if ms and ms[1] <= l else ""
                fails.append(("position-outside", f"line {l} of {len(ls)}{q}"))
            else:
                width = max(len(ls[l - 1]), blen(ls[l - 1]))
                if not (1 <= c <= width + 1):
                    q = ""
                    ms = multiline_string(src)
                    if c == width + 2 and all(x.strip() == "" for x in ls[l:]):
                        q = " = length + 2 of the last non-blank line (end-of-file token)"
                    elif ms and ms[1] <= l:
                        q = f" (after a string literal that spans lines, opened on line {ms[1]})"
                    fails.append(("position-outside", f"column {c} on line {l} of length {width}{q}"))
            if l == fault_line:
                on_line = True
        for loc in d["locs"]:
            for num, text, _ in loc["rows"]:
                if not (1 <= num <= len(ls)) or ls[num - 1] != text:
                    fails.append(("misquoted", f"row {num} | {text!r} but that line is "
                                               f"{ls[num - 1]!r}" if 1 <= num <= len(ls) else f"row {num} does not exist"))
            if loc["main"] and d["pos"] is not None and loc["line"] is not None and loc["line"] != d["pos"][0]:
                fails.append(("misquoted", f"header says line {d['pos'][0]}, quoted row is {loc['line']}"))
            if loc["main"] and d["pos"] is not None and loc["col"] != d["pos"][1] and d["pos"][0] < 10000:
                fails.append(("caret-column", f"header says column {d['pos'][1]}, caret under {loc['col']}"))
            if loc["line"] is not None:
                reported.append(loc["line"])
                if loc["line"] == fault_line:
                    on_line = True
    if fault_line is not None and not on_line:
        q = ""
        below = [m for m in reported if m > fault_line]
        if below and all(x.strip() == "" for x in ls[fault_line:min(below) - 1]) \
                and (min(below) > len(ls) or ls[min(below) - 1].strip() == ""):
            q = f"; nearest is line {min(below)} with only blank lines between (or the end of the text)"
        fails.append(("not-localised", f"no reported position on line {fault_line}, reported lines "
                                       f"{sorted(set(reported))}{q}"))
    return fails


def case_text(kind, line, stage, fail, src, resp):
    """Canonical text of ONE failed clause of one case (what known_findings.json patterns are matched against)."""
    raw = unhex(resp[2]) if resp[0] == "ERR" and len(resp) > 2 else (unhex(resp[1]) if len(resp) > 1 and resp[0] == "PANIC" else "")
    return (f"FAULT:{kind} L={line}\nSTAGE:{stage}\nFAIL:{fail[0]}: {fail[1]}\nSRC:\n{src}\nDIAG:\n"
            + raw.replace(RS, "\n<RS>\n"))


def neutralise_string(src):
    """Remove the opening quote of the first string literal that spans lines."""
    ms = multiline_string(src)
    return src if ms is None else src[:ms[0]] + src[ms[0] + 1:]


def neutralise(src, fault_line):
    """Remove what the two lexer-position findings depend on: blank lines after the faulty line and the end of
    the file right after it.  A failure is attributed to those findings only if it disappears on this input."""
    nl = "\r\n" if "\r\n" in src else "\n"
    ls = src.split(nl)
    if ls and ls[-1] == "":
        ls.pop()
    k = fault_line if fault_line is not None else max((i + 1 for i, x in enumerate(ls) if x.strip() != ""), default=0)
    tail = [x for x in ls[k:] if x.strip() != ""]
    if not tail:
        tail = ["print(0)"]
    return nl.join(ls[:k] + tail) + nl


def e2e_part(ck, quick, replay=None):
    stats = {"base_programs": 0, "base_rejected": 0, "mutants": 0, "rejected": 0, "accepted_mutants": 0,
             "by_fault": {}, "by_stage": {}, "localised": 0, "random_mutations": 0, "random_rejected": 0,
             "diagnostics_checked": 0}
    bad = []
    if replay is not None:
        src, L_, kind = replay["source"], replay.get("fault_line"), replay.get("fault", "replay")
        r = run_lines(MH, [f"x\ttranspile\t0\t{hexs(src)}\t{hexs(PATH)}"]).get("x", ["MISSING"])
        fails = judge(src, PATH, r, L_)
        if fails:
            bad.append((kind, L_, r[1] if r[0] == "ERR" else r[0], fails, src, r))
        return stats, bad, []
    nprog = 70 if quick else 1200
    progs = []
    for _ in range(nprog):
        progs.append(gen_program(ck.rng))
    base = {f"b{i}": "\n".join(l.text for l in p) + "\n" for i, p in enumerate(progs)}
    br = run_sharded(MH, [f"{i}\ttranspile\t0\t{hexs(s)}\t{hexs(PATH)}" for i, s in base.items()])
    jobs, samples = {}, []
    for i, p in enumerate(progs):
        r = br.get(f"b{i}", ["MISSING"])
        stats["base_programs"] += 1
        if r[0] != "OK":
            stats["base_rejected"] += 1
            # a generated base program that is rejected still has to satisfy the well-formedness clauses
            fails = judge(base[f"b{i}"], PATH, r, None)
            if fails:
                bad.append(("base", None, r[1] if r[0] == "ERR" else r[0], fails, base[f"b{i}"], r))
            continue
        ms = mutants(p)
        if quick and len(ms) > 45:
            ms = ck.rng.sample(ms, 45)
        for k, (kind, n, newt) in enumerate(ms):
            ls = [l.text for l in p]
            ls[n - 1] = newt
            variant = ck.rng.random()
            src = "\n".join(ls) + "\n"
            # a module doc string in front (one line, two lines, closing quotes on a line of their own): the fault moves down
            dv = ck.rng.random()
            if dv < 0.18:
                doc = ck.rng.choice(['"""module doc"""\n', '"""first\nsecond"""\n', '"""\nbody of the doc\n"""\n',
                                     '"""\nbody\n\nmore\n"""\n'])
                src = doc + src
                n = n + doc.count("\n")
            if variant < 0.1:
                src = src[:-1]                                   # no trailing newline
            elif variant < 0.2:
                src = src.replace("\n", "\r\n")                  # CRLF
            jobs[f"m{i}_{k}"] = (kind, n, src)
        for k in range(6 if quick else 25):
            jobs[f"x{i}_{k}"] = ("random", None, random_mutation(ck.rng, base[f"b{i}"]))
    res = run_sharded(MH, [f"{j}\ttranspile\t0\t{hexs(s)}\t{hexs(PATH)}" for j, (_, _, s) in jobs.items()])
    distinct = set()
    for j, (kind, n, src) in jobs.items():
        r = res.get(j, ["MISSING"])
        if kind == "random":
            stats["random_mutations"] += 1
            if r[0] != "OK":
                stats["random_rejected"] += 1
        else:
            stats["mutants"] += 1
            f = stats["by_fault"].setdefault(kind, {"n": 0, "rejected": 0, "localised": 0})
            f["n"] += 1
            if r[0] == "OK":
                stats["accepted_mutants"] += 1
                continue
            f["rejected"] += 1
            stats["rejected"] += 1
        if r[0] == "OK":
            continue
        stage = r[1] if r[0] == "ERR" else r[0]
        stats["by_stage"][stage] = stats["by_stage"].get(stage, 0) + 1
        stats["diagnostics_checked"] += len(unhex(r[2]).split(RS)) if r[0] == "ERR" and len(r) > 2 else 0
        fails = judge(src, PATH, r, n)
        distinct.add(src)
        if kind != "random" and not any(c == "not-localised" for c, _ in fails):
            stats["localised"] += 1
            stats["by_fault"][kind]["localised"] += 1
        if fails:
            bad.append((kind, n, stage, fails, src, r))
        elif len(samples) < 3 and kind.startswith("ty_"):
            samples.append({"fault": kind, "line": n, "source": src, "diagnostics": unhex(r[2]).split(RS)})
    stats["distinct_rejected_inputs"] = len(distinct)
    return stats, bad, samples


def self_test():
    """The oracle must reject hand-made bad outputs (guards against a vacuous judge)."""
    src = "def a := 1\nprint(zz)\nprint(a)\n"
    good = f"Undefined variable: zz\n{ARROW}{PATH}:2:7\n   1 | def a := 1\n   2 | print(zz)\n             ^^\n"
    enc = lambda *m: ["ERR", "type", hexs(RS.join(m))]
    probs = []
    if judge(src, PATH, enc(good), 2):
        probs.append("a correct diagnostic is rejected: " + str(judge(src, PATH, enc(good), 2)))
    expect = {
        "no-diagnostic": ["ERR", "type", ""],
        "path-not-named": enc(good.replace(PATH, "<unknown>")),
        "position-outside": enc(good.replace(":2:7", ":9:7")),
        "misquoted": enc(good.replace("   2 | print(zz)", "   2 | print(a)")),
        "not-localised": enc(good.replace(":2:7", ":3:7").replace("   1 | def a := 1\n   2 | print(zz)", "   2 | print(zz)\n   3 | print(a)")),
        "render-or-pipeline-panicked": ["PANIC", hexs("attempt to subtract with overflow")],
        "caret-column": enc(good.replace("             ^^", "          ^^")),
    }
    for clause, resp in expect.items():
        got = {c for c, _ in judge(src, PATH, resp, 2)}
        if clause not in got:
            probs.append(f"oracle misses {clause}: got {sorted(got)}")
    col = enc(good.replace(":2:7", ":2:11").replace("             ^^", "                 ^^"))
    if "position-outside" not in {c for c, _ in judge(src, PATH, col, 2)}:
        probs.append("oracle misses a column beyond the end of the line")
    return probs


# ------------------------------------------------------------------------------------------------

def run(tier, replay=None):
    ck = Check("C19", tier)
    quick = tier == "quick"
    theorems = ["C19_render_spec", "C19_render_total", "C19_render_total_refuted", "C19_quoted_line_verbatim",
                "C19_quoted_line_wraps_refuted", "C19_empty_line_quoted_unknown",
                "C19_header_names_path_and_position", "C19_caret_under_column", "C19_caret_misaligned_refuted",
                "C19_union_invisible_panics", "C19_parse_shows_at_most_one_cause", "C19_lex_render_spec",
                "C19_lines_characterisation", "C19_decimal_roundtrip"]
    ck.proof(["props/C19.vo"], "props.C19", theorems, translators=["diag_consts"])
    # hand model vs current source text of the modelled functions
    rc, out = sh([sys.executable, os.path.join(VERIF, "translate", "diag_consts.py"), "--digests"], timeout=60)
    stale = []
    try:
        sys.path.insert(0, os.path.join(VERIF, "translate"))
        import diag_consts
        now = json.loads(out) if rc == 0 else {}
        stale = sorted(k for k, v in diag_consts.MODELLED.items() if now.get(k) != v)
    except Exception as e:                       # noqa: BLE001 - recorded, the correspondence decides
        stale = [f"digest comparison failed: {e}"]
    ck.cov["hand_model_stale_regions"] = stale
    if stale:
        ck.log(f"modelled functions edited since the model was written: {stale} (correspondence decides)")
    build_harness(ck.log)
    try:
        build_diag_driver(ck.log)
    except BuildError as e:
        ck.broken.append({"kind": "model-build", "where": "coq/extract/DiagExtract.v / diag_driver.ml", "log": str(e)[-1500:]})

    st = self_test()
    ck.cov["oracle_self_test"] = "ok" if not st else st
    if st:
        ck.broken.append({"kind": "oracle-self-test", "where": "lib/vlib/c19.py judge", "examples": st[:5]})

    rdata = json.load(open(replay)) if replay else None
    rcase = rdata.get("render_case") if rdata else None
    if rcase:
        rcase["pos"] = tuple(rcase["pos"]) if rcase.get("pos") else None
        rcase["causes"] = [(m, tuple(p)) for m, p in rcase.get("causes", [])]
    do_render = rdata is None or rcase is not None
    do_e2e = rdata is None or "source" in (rdata or {})

    rstats, corr_bad, oracle_bad, wit_bad, rsamples = ({}, [], [], [], [])
    if do_render:
        try:
            rstats, corr_bad, oracle_bad, wit_bad, rsamples = render_part(ck, quick, rcase)
        except BuildError as e:
            ck.broken.append({"kind": "model-evaluation", "where": "extracted model/Diag.v", "log": str(e)[-1500:]})
    estats, e2e_bad, esamples = ({}, [], [])
    if do_e2e:
        estats, e2e_bad, esamples = e2e_part(ck, quick, rdata if rdata and "source" in rdata else None)

    # ---- verdict ------------------------------------------------------------------------------
    for c, why in oracle_bad[:20]:
        p = ck.write_replay("render", {"render_case": c, "what": why})
        ck.violation("rendered diagnostic differs from the specification for a position inside the source", p,
                     "RENDER:" + json.dumps({k: v for k, v in c.items() if k != "src"}, sort_keys=True) + "\n" + why)
    # Attribution to the lexer-position findings is checked, not assumed:
    #  - "end-of-file token": the reported position must equal the start of the lexer's own Eof token (`lex` hook);
    #  - "only blank lines between" / "string literal that spans lines": the failure must disappear on the
    #    neutralised input (blank lines after the faulty line removed / the literal's opening quote removed).
    neut, lexq = {}, {}
    for k, (kind, n, stage, fails, src, r) in enumerate(e2e_bad):
        if any("only blank lines between" in d for _, d in fails):
            neut[f"n{k}"] = neutralise(src, n)
        elif any("string literal that spans lines" in d for _, d in fails):
            neut[f"n{k}"] = neutralise_string(src)
        if any("end-of-file token" in d for _, d in fails):
            lexq[f"l{k}"] = src
    nres = run_sharded(MH, [f"{j}\ttranspile\t0\t{hexs(s)}\t{hexs(PATH)}" for j, s in neut.items()]) if neut else {}
    lres = run_sharded(MH, [f"{j}\tlex\t{hexs(s)}" for j, s in lexq.items()]) if lexq else {}
    seen_classes, replay_of = {}, {}
    for k, (kind, n, stage, fails, src, r) in enumerate(e2e_bad):
        still, eof = None, None
        if f"n{k}" in neut:
            still = {c for c, _ in judge(neut[f"n{k}"], PATH, nres.get(f"n{k}", ["MISSING"]), n)}
        lr = lres.get(f"l{k}")
        if lr and lr[0] == "OK" and len(lr) > 1 and lr[1]:
            last = lr[1].split(";")[-1].split(",")
            if last[0] == "Eof" and len(last) >= 4:
                eof = (int(last[2]), int(last[3]))
        for clause, detail in fails:
            if "end-of-file token" in detail:
                m = re.search(r"column (\d+) on line (\d+)", detail)
                same = eof is not None and m is not None and eof == (int(m.group(2)), int(m.group(1)))
                detail += "; equals the start of the lexer's Eof token" if same else "; is not the lexer's Eof token position"
            elif still is not None and ("only blank lines between" in detail or "string literal that spans lines" in detail):
                detail += ("; neutralised input still fails" if clause in still else "; neutralised input passes")
            text = case_text(kind, n, stage, (clause, detail), src, r)
            key = (kind, stage, clause)
            seen_classes[key] = seen_classes.get(key, 0) + 1
            known = ck.match_finding(text) is not None
            if not known and seen_classes[key] > 3:
                continue                              # at most three replays per new failure class
            if known and key in replay_of:
                ck.violation(clause, replay_of[key], text)
                continue
            p = ck.write_replay("e2e", {"source": src, "fault": kind, "fault_line": n, "stage": stage,
                                        "failed_clause": [clause, detail], "path": PATH,
                                        "diagnostics": unhex(r[2]).split(RS) if r[0] == "ERR" and len(r) > 2 else r[:2]})
            replay_of[key] = p
            ck.violation(f"rejected program, clause {clause}: {detail}", p, text)
    estats["failure_classes"] = {" ".join(k): v for k, v in sorted(seen_classes.items())}
    if corr_bad:
        ck.broken.append({"kind": "correspondence", "where": "render endpoint: model/Diag.v vs Display impls",
                          "count": len(corr_bad),
                          "examples": [[{k: v for k, v in c.items() if k != "src"}, (c.get("src") or "")[:200], w[:600]]
                                       for c, w in corr_bad[:3]]})
    if wit_bad:
        ck.broken.append({"kind": "witness", "where": "refutation witnesses vs implementation", "examples": wit_bad[:5]})

    ck.cov.update({
        "evaluations": rstats.get("cases", 0) + estats.get("mutants", 0) + estats.get("random_mutations", 0)
                       + estats.get("base_programs", 0),
        "distinct_nontrivial": rstats.get("distinct_nontrivial", 0) + estats.get("distinct_rejected_inputs", 0),
        "traces_validated_against_impl": rstats.get("agree_text", 0) + rstats.get("agree_panic", 0),
        "render_correspondence": rstats,
        "end_to_end": estats,
        "rule": "render: (kind in type/typenp/parse/parsec/gen[/lex], position with line/column drawn around the "
                "source's extent plus 0, 2^31-2..2^31+2, 2^32-1..2^32+2, 2^63.., 2^64-1, invisible, union with "
                "invisible, width 0, multi-line spans; message; 0-3 causes; source from a pool with CRLF, missing final "
                "newline, empty lines, non-ASCII, 10011 lines, or absent; path from a pool or absent), distinct by "
                "JSON text; non-trivial = rendered text with a source and a visible position, equal byte for byte. "
                "end to end: generated valid programs (definitions, functions, class, if/while/for, calls), every "
                "single-line fault of 11 kinds at every eligible line (quick: <= 45 per program), LF/CRLF/no final "
                "newline variants, plus random character/line mutations; distinct by source text",
        "samples": (rsamples + esamples)[:5] or [{"note": "no sample collected"}],
        "exhaustive": False,
        "trusted_base": [
            "Coq 8.16.1 kernel; vm_compute for the witnesses, for length (dec n) <= 4 below 10000 and for consts_ok; "
            "no axioms (Print Assumptions: Closed under the global context)",
            "model/Diag.v is a hand model of format_err/format_location/get_width/Display impls (tied by the render "
            "correspondence and by shape digests of the modelled functions; constants regenerated by translate/diag_consts.py)",
            "strings are modelled as byte lists: exact for valid UTF-8 because every test the renderer makes is on ASCII bytes",
            "debug-build arithmetic (overflow panics) as in the harness and `cargo test`; a release build wraps instead",
            "vec![b; n] above 2^16 bytes is outside the model (outcome OutOfModel); above isize::MAX it panics",
            "harness/src/diag.rs (public constructors only); extraction (ExtrOcamlBasic, ExtrOcamlString) of model/Diag.v "
            "and coq/extract/diag_driver.ml (protocol only); python oracle "
            "`judge`/`parse_diag` (self-tested on hand-made bad outputs on every run)",
            "LexErr's Display is not reachable from outside the crate (private module parse::lex) and is never called by "
            "the pipeline (LexErr is converted to ParseErr); its model is tied only when repo_patches/c19-lexerr-hook.diff is applied",
            "nonemptiness of the diagnostic list and fault localisation are NOT proved (no model of parser/checker): "
            "they rest on the end-to-end oracle alone",
        ],
    })
    ck.assumptions += [
        "positions are usize values (0 <= n < 2^64) and a source is shorter than isize::MAX bytes (Rust invariants)",
        "`inside the file's text` is read as 1 <= line <= number of lines and 1 <= column <= length of that line + 1",
        "a header position of 0:0 is the renderer's own `invisible` (= absent) position",
    ]
    return ck.finish()
