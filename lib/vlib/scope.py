"""Shared machinery of C07 (immutability), C08 (explicit error handling) and C09 (definite assignment).

One skeleton language (the one of coq/model/Scope.v), with
  - a renderer to real Mamba text, well typed by construction (Int variables v<i>, objects o<i> of a
    prelude class C0, exception binders x<i>, functions f<i>, exception classes E<i>);
  - a renderer to a Gallina term, so that the model's verdict is obtained by `coq_eval`;
  - the verdict of the implementation through the harness `transpile` endpoint, with the ONE table
    (`KIND_TABLE`) that maps diagnostics of the constraint generator to the model's error kinds;
  - declarative specifications of the three properties computed here on the skeleton, independently of
    the Coq model (flow analysis for C09, lexical visibility for C07, lexical guards for C08);
  - a runner for the emitted Python.

Skeleton terms are nested tuples:
  expr   ("const",) ("read",x) ("bin",a,b) ("call",f,[args]) ("print",[args]) ("mcall",r,m,[args]) ("field",r,f)
  simple ("expr",e) ("def",mut,[vars],init|None[,typed]) ("assign",[vars],e) ("aug",x,e) ("fset",r,f,e)
         (typed = render `def x: Int := e`; the model does not distinguish the two forms)
         ("return",e|None) ("raise",c) ("pass",)
  stmt   ("simple",s) ("handle",s,[(cls,binder|None,body)]) ("if",c,body) ("ifelse",c,t,e)
         ("match",c,[(binder|None,body)]) ("while",c,body) ("for",[vars],col,body)
         ("fun",f,[(mut,var)],[raises],ret,body)
  binder = (mut, var); body = list of stmt
"""
import json, os, re, subprocess, sys, tempfile

import shutil

from .common import (CACHE, COQ, MH, NCPU, BuildError, coq_eval, coq_make, hexs, run_sharded, sh, unhex)

# ------------------------------------------------------------------------------------------------
# names and sorts
# ------------------------------------------------------------------------------------------------
OBJ0, EXB0 = 50, 90          # variables >= 50 are objects of class C0, >= 90 exception binders


def vname(x):
    if x == 0:
        return "self"
    if x >= EXB0:
        return f"x{x}"
    if x >= OBJ0:
        return f"o{x}"
    return f"v{x}"


def cname(c):
    return "Exception" if c == 0 else f"E{c}"


class Tables:
    """Class hierarchy, methods and fields of the prelude (parameters of the model)."""

    def __init__(self, ct, mt=None, fl=None):
        self.ct = dict(ct)                       # cls -> [parents]; 0 = Exception
        self.mt = dict(mt if mt is not None else {1: [], 2: [1], 3: [2]})   # method -> raises
        self.fl = dict(fl if fl is not None else {1: True, 2: False})       # field -> mutable

    def ancestors(self, c):
        """c and everything above it."""
        seen, todo = [], [c]
        while todo:
            k = todo.pop()
            if k in seen or k not in self.ct:
                continue
            seen.append(k)
            todo += self.ct[k]
        return seen

    def is_exc(self, c):
        return 0 in self.ancestors(c)

    def coq(self):
        ct = "[" + "; ".join(f"({c}, [{'; '.join(map(str, ps))}])" for c, ps in self.ct.items()) + "]"
        mt = "[" + "; ".join(f"({m}, [{'; '.join(map(str, rs))}])" for m, rs in self.mt.items()) + "]"
        fl = "[" + "; ".join(f"({f}, {'true' if m else 'false'})" for f, m in self.fl.items()) + "]"
        return ct, mt, fl

    def key(self):
        return json.dumps([sorted(self.ct.items()), sorted(self.mt.items()), sorted(self.fl.items())])


HIERARCHIES = [
    # E1 < Exception, E2 < E1, E5 < E2 (depth 3), E3 < Exception, E4 is not an exception
    {0: [], 1: [0], 2: [1], 3: [0], 4: [], 5: [2]},
    {0: [], 1: [0], 2: [0], 3: [2], 4: [], 5: [3]},
    {0: [], 1: [0], 2: [1], 3: [1], 4: [], 5: [0]},
    # a chain of depth 4: E6 < E5 < E2 < E1 < Exception
    {0: [], 1: [0], 2: [1], 3: [0], 4: [], 5: [2], 6: [5]},
]


def prelude(tb):
    """Classes of the tables as Mamba text.  Parents come first."""
    out, done = [], {0}
    todo = [c for c in tb.ct if c != 0]
    while todo:
        for c in list(todo):
            ps = tb.ct[c]
            if all(p in done for p in ps):
                if not ps:
                    out.append(f"class {cname(c)}")
                elif ps == [0]:
                    out.append(f'class {cname(c)}: Exception("{cname(c)}")')
                else:
                    out.append(f"class {cname(c)}: " + ", ".join(cname(p) for p in ps))
                done.add(c)
                todo.remove(c)
    lines = ["class C0"]
    for f, m in tb.fl.items():
        lines.append(f"    def {'' if m else 'fin '}a{f}: Int := {f}")
    for m, rs in tb.mt.items():
        rs = [c for c in rs if c in tb.ct]
        if rs:
            lines.append(f"    def m{m}(self) raise [{', '.join(cname(c) for c in rs)}] => raise {cname(rs[0])}()")
        else:
            lines.append(f'    def m{m}(self) => print("m{m}")')
    return "\n".join(out) + "\n" + "\n".join(lines) + "\n"


# ------------------------------------------------------------------------------------------------
# skeleton -> Gallina
# ------------------------------------------------------------------------------------------------
def _b(b):
    return "true" if b else "false"


def _vl(p):
    return "[" + "; ".join(map(str, p)) + "]"


def coq_expr(e):
    k = e[0]
    if k in ("const", "new"):                 # `C0()` is a literal as far as the environment goes
        return "EConst"
    if k == "read":
        return f"(ERead {e[1]})"
    if k == "bin":
        return f"(EBin {coq_expr(e[1])} {coq_expr(e[2])})"
    if k == "call":
        return f"(ECall {e[1]} {coq_exprs(e[2])})"
    if k == "print":
        return f"(EPrint {coq_exprs(e[1])})"
    if k == "mcall":
        return f"(EMCall {e[1]} {e[2]} {coq_exprs(e[3])})"
    if k == "field":
        return f"(EField {e[1]} {e[2]})"
    raise ValueError(e)


def coq_exprs(es):
    out = "ENil"
    for e in reversed(es):
        out = f"(ECons {coq_expr(e)} {out})"
    return out


def coq_oexpr(e):
    return "None" if e is None else f"(Some {coq_expr(e)})"


def coq_simple(s):
    k = s[0]
    if k == "expr":
        return f"(XExpr {coq_expr(s[1])})"
    if k == "def":
        return f"(XDef {_b(s[1])} {_vl(s[2])} {coq_oexpr(s[3])})"
    if k == "assign":
        return f"(XAssign {_vl(s[1])} {coq_expr(s[2])})"
    if k == "aug":
        return f"(XAug {s[1]} {coq_expr(s[2])})"
    if k == "fset":
        return f"(XFieldSet {s[1]} {s[2]} {coq_expr(s[3])})"
    if k == "return":
        return f"(XReturn {coq_oexpr(s[1])})"
    if k == "raise":
        return f"(XRaise {s[1]})"
    if k == "pass":
        return "XPass"
    raise ValueError(s)


def coq_binder(b):
    return "None" if b is None else f"(Some ({_b(b[0])}, {b[1]}))"


def coq_stmt(s):
    k = s[0]
    if k == "simple":
        return f"(SSimple {coq_simple(s[1])})"
    if k == "handle":
        hs = "HNil"
        for c, b, body in reversed(s[2]):
            hs = f"(HCons {c} {coq_binder(b)} {coq_stmts(body)} {hs})"
        return f"(SHandle {coq_simple(s[1])} {hs})"
    if k == "if":
        return f"(SIf {coq_expr(s[1])} {coq_stmts(s[2])})"
    if k == "ifelse":
        return f"(SIfElse {coq_expr(s[1])} {coq_stmts(s[2])} {coq_stmts(s[3])})"
    if k == "match":
        a = "ANil"
        for b, body in reversed(s[2]):
            a = f"(ACons {coq_binder(b)} {coq_stmts(body)} {a})"
        return f"(SMatch {coq_expr(s[1])} {a})"
    if k == "while":
        return f"(SWhile {coq_expr(s[1])} {coq_stmts(s[2])})"
    if k == "for":
        return f"(SFor {_vl(s[1])} {coq_expr(s[2])} {coq_stmts(s[3])})"
    if k == "fun":
        ps = "[" + "; ".join(f"({_b(m)}, {x})" for m, x in s[2]) + "]"
        return f"(SFun {s[1]} {ps} {_vl(s[3])} {_b(s[4])} {coq_stmts(s[5])})"
    raise ValueError(s)


def coq_stmts(ss):
    out = "SNil"
    for s in reversed(ss):
        out = f"(SCons {coq_stmt(s)} {out})"
    return out


# ------------------------------------------------------------------------------------------------
# skeleton -> Mamba text
# ------------------------------------------------------------------------------------------------
BIG = 1000000000


class Render:
    """`variant` steers run-time behaviour only (which branch a condition takes); it never changes the
    skeleton: every condition is rendered `(e) > K` and K is -BIG (true) or BIG (false)."""

    def __init__(self, variant=0):
        self.variant, self.n_if = variant, 0

    def expr(self, e):
        k = e[0]
        if k == "const":
            return "1"
        if k == "new":
            return "C0()"
        if k == "read":
            return vname(e[1])
        if k == "bin":
            return f"({self.expr(e[1])} + {self.expr(e[2])})"
        if k == "call":
            return f"f{e[1]}({', '.join(self.expr(a) for a in e[2])})"
        if k == "print":
            return f"print({', '.join(self.expr(a) for a in e[1])})"
        if k == "mcall":
            return f"{vname(e[1])}.m{e[2]}({', '.join(self.expr(a) for a in e[3])})"
        if k == "field":
            return f"{vname(e[1])}.a{e[2]}"
        raise ValueError(e)

    def cond(self, e, loop=False):
        if loop:
            return f"{self.expr(e)} > {BIG}"                 # a while body is checked, never run
        bit = (self.variant >> (self.n_if % 16)) & 1
        self.n_if += 1
        return f"{self.expr(e)} > {BIG if bit else -BIG}"

    def pat(self, p):
        return vname(p[0]) if len(p) == 1 else "(" + ", ".join(vname(x) for x in p) + ")"

    def tup(self, p, e):
        return self.expr(e) if len(p) == 1 else "(" + ", ".join(self.expr(e) for _ in p) + ")"

    def simple(self, s):
        k = s[0]
        if k == "expr":
            return self.expr(s[1])
        if k == "def":
            fin = "" if s[1] else "fin "
            if s[3] is None:
                return f"def {fin}{self.pat(s[2])}: Int"
            if len(s) > 4 and s[4] and len(s[2]) == 1:
                return f"def {fin}{self.pat(s[2])}: Int := {self.tup(s[2], s[3])}"
            return f"def {fin}{self.pat(s[2])} := {self.tup(s[2], s[3])}"
        if k == "assign":
            return f"{self.pat(s[1])} := {self.tup(s[1], s[2])}"
        if k == "aug":
            return f"{vname(s[1])} += {self.expr(s[2])}"
        if k == "fset":
            return f"{vname(s[1])}.a{s[2]} := {self.expr(s[3])}"
        if k == "return":
            return "return" if s[1] is None else f"return {self.expr(s[1])}"
        if k == "raise":
            return f"raise {cname(s[1])}()"
        if k == "pass":
            return "pass"
        raise ValueError(s)

    def binder(self, b):
        if b is None:
            return "_"
        return ("" if b[0] else "fin ") + vname(b[1])

    def body(self, ss, ind):
        if not ss:
            return [" " * ind + "pass"]
        out = []
        for s in ss:
            out += self.stmt(s, ind)
        return out

    def stmt(self, s, ind):
        k, sp = s[0], " " * ind
        if k == "simple":
            return [sp + self.simple(s[1])]
        if k == "handle":
            out = [sp + self.simple(s[1]) + " handle"]
            for c, b, body in s[2]:
                out.append(f"{sp}    {self.binder(b)}: {cname(c)} =>")
                out += self.body(body, ind + 8)
            return out
        if k == "if":
            return [f"{sp}if {self.cond(s[1])} then"] + self.body(s[2], ind + 4)
        if k == "ifelse":
            c = self.cond(s[1])
            return [f"{sp}if {c} then"] + self.body(s[2], ind + 4) + [f"{sp}else"] + self.body(s[3], ind + 4)
        if k == "match":
            out, lit = [f"{sp}match {self.expr(s[1])}"], 0
            for b, body in s[2]:
                if b is None:
                    out.append(f"{sp}    {lit} =>")
                    lit += 1
                else:
                    out.append(f"{sp}    {self.binder(b)} =>")
                out += self.body(body, ind + 8)
            return out
        if k == "while":
            return [f"{sp}while {self.cond(s[1], loop=True)} do"] + self.body(s[2], ind + 4)
        if k == "for":
            return [f"{sp}for {self.pat(s[1])} in 0 .. {self.expr(s[2])} do"] + self.body(s[3], ind + 4)
        if k == "fun":
            ps = ", ".join(("" if m else "fin ") + vname(x) + ": Int" for m, x in s[2])
            head = f"{sp}def f{s[1]}({ps})"
            if s[4]:
                head += " -> Int"
            if s[3]:
                head += " raise [" + ", ".join(cname(c) for c in s[3]) + "]"
            return [head + " =>"] + self.body(s[5], ind + 4)
        raise ValueError(s)


NEW = ("new",)


def render(p, tb, variant=0):
    return prelude(tb) + "\n".join(Render(variant).body(p, 0) if p else []) + "\n"


# ------------------------------------------------------------------------------------------------
# shapes (canonical text for findings)
# ------------------------------------------------------------------------------------------------
def shape_expr(e):
    k = e[0]
    if k in ("const", "new"):
        return "k"
    if k == "read":
        return "r"
    if k == "bin":
        return f"({shape_expr(e[1])}+{shape_expr(e[2])})"
    if k == "call":
        return "call(" + ",".join(shape_expr(a) for a in e[2]) + ")"
    if k == "print":
        return "print(" + ",".join(shape_expr(a) for a in e[1]) + ")"
    if k == "mcall":
        return "mcall"
    if k == "field":
        return "fld"
    return "?"


def shape_simple(s):
    k = s[0]
    if k == "expr":
        return shape_expr(s[1])
    if k == "def":
        return ("def" if s[1] else "deffin") + ("*" if len(s[2]) > 1 else "") + (":t" if len(s) > 4 and s[4] else "")
    if k == "assign":
        return "assign" + ("*" if len(s[1]) > 1 else "")
    return k


def shape(ss):
    out = []
    for s in ss:
        k = s[0]
        if k == "simple":
            out.append(shape_simple(s[1]))
        elif k == "handle":
            out.append("handle<" + shape_simple(s[1]) + ">{" + "|".join(shape(b) for _, _, b in s[2]) + "}")
        elif k == "if":
            out.append("if{" + shape(s[2]) + "}")
        elif k == "ifelse":
            out.append("ifelse{" + shape(s[2]) + "|" + shape(s[3]) + "}")
        elif k == "match":
            out.append("match{" + "|".join(("n:" if b else "") + shape(body) for b, body in s[2]) + "}")
        elif k == "while":
            out.append("while{" + shape(s[2]) + "}")
        elif k == "for":
            out.append("for{" + shape(s[3]) + "}")
        elif k == "fun":
            out.append("fun{" + shape(s[5]) + "}")
    return ";".join(out)


def size(ss):
    n = 0
    for s in ss:
        n += 1
        k = s[0]
        if k == "handle":
            n += sum(size(b) for _, _, b in s[2])
        elif k in ("if", "while"):
            n += size(s[2])
        elif k == "ifelse":
            n += size(s[2]) + size(s[3])
        elif k == "match":
            n += sum(size(b) for _, b in s[2])
        elif k == "for":
            n += size(s[3])
        elif k == "fun":
            n += size(s[5])
    return n


# ------------------------------------------------------------------------------------------------
# verdict of the implementation
# ------------------------------------------------------------------------------------------------
# THE mapping from diagnostics to the model's error kinds.  Every message that the constraint
# generator can produce for one of the three properties is listed; anything else is `other`.
KIND_TABLE = [
    (r"^Undefined variable: ", "KUndef"),                         # expression.rs match_id
    (r"^Cannot reassign to undefined '", "KUndef"),               # call.rs check_iden_mut
    (r"^Function \S+ is undefined\.", "KUndefFun"),               # Context::function
    (r"^Cannot change mutability of ", "KImmut"),                 # call.rs check_iden_mut
    (r"^Exception not caught: ", "KUnhandled"),                   # statement.rs check_raises_caught
]
GENERATE_OTHER = [   # messages of the constraint generator that the model maps to KOther
    r"^`\S+` is not an `Exception`", r"^Type '\S+' is undefined", r"^Return outside function",
    r"^Empty return in function", r"^Unexpected argument", r"^Expected argument", r"cannot be outside class",
]


def impl_verdict(resp):
    """harness answer -> ('VAccept' | 'VReject K..', first message)."""
    st = resp[0]
    if st == "OK":
        return "VAccept", ""
    if st == "PANIC":
        return "VReject KPanic", unhex(resp[1]) if len(resp) > 1 else ""
    if st == "CRASH":
        return "VReject KDiverge", "crash"
    if st != "ERR":
        return "BAD " + st, ""
    stage, msg = resp[1], unhex(resp[2]) if len(resp) > 2 else ""
    first = msg.split("\x1e")[0]
    if stage != "type":
        return f"STAGE {stage}", first
    for pat, kind in KIND_TABLE:
        if re.search(pat, first):
            return "VReject " + kind, first
    return "VReject KOther", first


def is_generate_other(msg):
    return any(re.search(p, msg) for p in GENERATE_OTHER)


def transpile_all(srcs):
    ids = {f"s{i}": s for i, s in enumerate(srcs)}
    res = run_sharded(MH, [f"{i}\ttranspile\t0\t{hexs(s)}" for i, s in ids.items()])
    return [res.get(f"s{i}", ["MISSING"]) for i in range(len(srcs))]


# ------------------------------------------------------------------------------------------------
# verdict of the model
# ------------------------------------------------------------------------------------------------
# Which threading of model/Scope.v is the model of the implementation: "restored" = /repo as it is (since the
# repair c08_handle_restores: the caught set is put back after a handle, a function body starts from its own
# declared raises), "as_is" = the rule set before that repair.  A constant on purpose: the check never adapts
# to the implementation by itself.  Every run also evaluates the OTHER threading, so that
#   - a return of the code to the other behaviour shows up as correspondence disagreements that the other
#     mode explains (reported as such), and
#   - a stream of cases that cannot tell the two apart is itself reported (C08 demands discriminating cases).
IMPL_MODE = "restored"
OTHER_MODE = {"restored": "as_is", "as_is": "restored"}[IMPL_MODE]


def model_verdicts(cases):
    """cases: [(program, Tables)] -> [(as_is, repaired, restored)] verdicts via vm_compute in one coqc run."""
    out, CH = [], 1500
    for i in range(0, len(cases), CH):
        terms = []
        for p, tb in cases[i:i + CH]:
            ct, mt, fl = tb.coq()
            prog = coq_stmts(p)
            terms.append(f"(let p := {prog} in (verdict_program {ct} {mt} {fl} p, verdict_strict {ct} {mt} {fl} p, "
                         f"verdict_restored {ct} {mt} {fl} p))")
        vals = coq_eval(["model.Scope"], terms, timeout=900)
        for v in vals:
            if v is None:
                out.append(("MISSING", "MISSING", "MISSING"))
                continue
            m = re.findall(r"VAccept|VReject \w+", v)
            out.append(tuple(m) if len(m) == 3 else ("BAD " + v, "BAD", "BAD"))
    return out


# ------------------------------------------------------------------------------------------------
# the extracted model (coq/extract/ScopeExtract.v + scope_driver.ml), built into cache/
# ------------------------------------------------------------------------------------------------
SCOPE_BUILD = os.path.join(CACHE, "scope-driver")
SCOPE_DRIVER = os.path.join(SCOPE_BUILD, "scope_driver")


def build_scope_driver(log):
    ok, bad, out = coq_make(["model/Scope.vo"], log)
    if not ok:
        raise BuildError("model/Scope.v does not compile: " + str(bad) + "\n" + out)
    ex = os.path.join(COQ, "extract")
    os.makedirs(SCOPE_BUILD, exist_ok=True)
    srcs = [os.path.join(COQ, "model", "Scope.vo"), os.path.join(ex, "ScopeExtract.v"),
            os.path.join(ex, "scope_driver.ml")]
    if not (os.path.exists(SCOPE_DRIVER) and all(os.path.getmtime(x) <= os.path.getmtime(SCOPE_DRIVER) for x in srcs)):
        rc, out = sh(["coqc", "-Q", COQ, "MambaModel", os.path.join(ex, "ScopeExtract.v")], cwd=SCOPE_BUILD, timeout=600)
        if rc != 0:
            raise BuildError("extraction of model/Scope.v failed:\n" + out[-2000:])
        shutil.copy(os.path.join(ex, "scope_driver.ml"), os.path.join(SCOPE_BUILD, "scope_driver.ml"))
        rc, out = sh("ocamlfind ocamlopt -w -a scope_model.mli scope_model.ml scope_driver.ml -o scope_driver",
                     cwd=SCOPE_BUILD, timeout=600)
        if rc != 0:
            raise BuildError("scope driver build failed:\n" + out[-2000:])
        log("scope driver built")
    return SCOPE_DRIVER


def _tb(b):
    return "T" if b else "F"


def tok_expr(e):
    k = e[0]
    if k in ("const", "new"):
        return "k"
    if k == "read":
        return f"r {e[1]}"
    if k == "bin":
        return f"b {tok_expr(e[1])} {tok_expr(e[2])}"
    if k == "call":
        return f"c {e[1]} {len(e[2])} " + " ".join(tok_expr(a) for a in e[2])
    if k == "print":
        return f"p {len(e[1])} " + " ".join(tok_expr(a) for a in e[1])
    if k == "mcall":
        return f"m {e[1]} {e[2]} {len(e[3])} " + " ".join(tok_expr(a) for a in e[3])
    if k == "field":
        return f"f {e[1]} {e[2]}"
    raise ValueError(e)


def tok_oexpr(e):
    return "~" if e is None else "! " + tok_expr(e)


def tok_vars(p):
    return f"{len(p)} " + " ".join(map(str, p))


def tok_simple(s):
    k = s[0]
    if k == "expr":
        return "xe " + tok_expr(s[1])
    if k == "def":
        return f"xd {_tb(s[1])} {tok_vars(s[2])} {tok_oexpr(s[3])}"
    if k == "assign":
        return f"xa {tok_vars(s[1])} {tok_expr(s[2])}"
    if k == "aug":
        return f"xg {s[1]} {tok_expr(s[2])}"
    if k == "fset":
        return f"xf {s[1]} {s[2]} {tok_expr(s[3])}"
    if k == "return":
        return "xr " + tok_oexpr(s[1])
    if k == "raise":
        return f"xx {s[1]}"
    if k == "pass":
        return "xp"
    raise ValueError(s)


def tok_binder(b):
    return "~" if b is None else f"! {_tb(b[0])} {b[1]}"


def tok_stmt(s):
    k = s[0]
    if k == "simple":
        return "s " + tok_simple(s[1])
    if k == "handle":
        return f"h {tok_simple(s[1])} {len(s[2])} " + " ".join(f"{c} {tok_binder(b)} {tok_stmts(body)}" for c, b, body in s[2])
    if k == "if":
        return f"i {tok_expr(s[1])} {tok_stmts(s[2])}"
    if k == "ifelse":
        return f"ie {tok_expr(s[1])} {tok_stmts(s[2])} {tok_stmts(s[3])}"
    if k == "match":
        return f"m {tok_expr(s[1])} {len(s[2])} " + " ".join(f"{tok_binder(b)} {tok_stmts(body)}" for b, body in s[2])
    if k == "while":
        return f"w {tok_expr(s[1])} {tok_stmts(s[2])}"
    if k == "for":
        return f"fo {tok_vars(s[1])} {tok_expr(s[2])} {tok_stmts(s[3])}"
    if k == "fun":
        ps = f"{len(s[2])} " + " ".join(f"{_tb(m)} {x}" for m, x in s[2])
        return f"fu {s[1]} {ps} {tok_vars(s[3])} {_tb(s[4])} {tok_stmts(s[5])}"
    raise ValueError(s)


def tok_stmts(ss):
    return f"{len(ss)} " + " ".join(tok_stmt(x) for x in ss)


def tok_tables(tb):
    ct = f"{len(tb.ct)} " + " ".join(f"{c} {tok_vars(ps)}" for c, ps in tb.ct.items())
    mt = f"{len(tb.mt)} " + " ".join(f"{m} {tok_vars(rs)}" for m, rs in tb.mt.items())
    fl = f"{len(tb.fl)} " + " ".join(f"{f} {_tb(m)}" for f, m in tb.fl.items())
    return ct, mt, fl


def model_verdicts_driver(cases):
    """[(as_is, repaired, restored)] from the extracted model."""
    lines = []
    for i, (p, tb) in enumerate(cases):
        ct, mt, fl = tok_tables(tb)
        lines.append(f"m{i}\t{ct}\t{mt}\t{fl}\t{tok_stmts(p)}")
    res = run_sharded(SCOPE_DRIVER, lines)
    out = []
    for i in range(len(cases)):
        r = res.get(f"m{i}", ["MISSING"])
        out.append(tuple(r[:3]) if len(r) >= 3 and r[0] != "BAD" else ("BAD " + " ".join(r), "BAD", "BAD"))
    return out


# ------------------------------------------------------------------------------------------------
# declarative specifications, computed on the skeleton (independent of the Coq model)
# ------------------------------------------------------------------------------------------------
class Issue:
    def __init__(self, prop, cause, where):
        self.prop, self.cause, self.where = prop, cause, where

    def __repr__(self):
        return f"{self.prop}:{self.cause}@{self.where}"


class Spec:
    """One walk over the skeleton computing, for each property, what it demands.

    C09 (flow): D = names definitely defined here on every path (with the mutability of the newest
    definition).  Definitions made in a branch flow out when every branch makes them (if/else; match
    with an irrefutable arm) - unless `join` is False, which gives the purely lexical reading; loop
    bodies may run zero times; match/handle binders and loop variables do not leave their construct; a
    function body starts from the definitions at its definition point plus the parameters; a guarded
    definition is pre-declared for the arms of its handle.  A top-level call needs an earlier def.
    C07 (lexical): a write must hit a visible mutable definition; a field write needs a visible mutable
    receiver and a field that is not fin.
    C08 (lexical): inside a function body a raise of E needs an ancestor of E among the classes of the
    enclosing handles (guarded statement only) or of the function's own `raise [..]`.  Guards carry
    their origin; the origins leak-* are the ones only the implementation's threading provides
    (classes of an earlier handle of the block, of the handle an arm belongs to, of the definition
    point of the function): they never satisfy the specification, they only name the cause."""

    STRICT = ("own", "handle")

    def __init__(self, tb, ftab, join=True):
        self.tb, self.ftab, self.join, self.issues = tb, ftab, join, []

    def expr(self, e, D, F, infun, G, where):
        k = e[0]
        if k in ("const", "new"):
            return
        if k == "read":
            if e[1] not in D:
                self.issues.append(Issue("C09", "read-undefined", where))
        elif k == "bin":
            self.expr(e[1], D, F, infun, G, where)
            self.expr(e[2], D, F, infun, G, where)
        elif k == "call":
            for a in e[2]:
                self.expr(a, D, F, infun, G, where)
            if e[1] not in self.ftab:
                self.issues.append(Issue("C09", "call-undefined-function", where))
            else:
                if not infun and e[1] not in F:
                    self.issues.append(Issue("C09", "call-before-def", where))
                for c in self.ftab[e[1]][1]:
                    self.raises(c, infun, G, where, "call")
        elif k == "print":
            for a in e[1]:
                self.expr(a, D, F, infun, G, where)
        elif k == "mcall":
            if e[1] not in D:
                self.issues.append(Issue("C09", "read-undefined", where))
            for a in e[3]:
                self.expr(a, D, F, infun, G, where)
            for c in self.tb.mt.get(e[2], []):
                self.raises(c, infun, G, where, "method-call")
        elif k == "field":
            if e[1] not in D:
                self.issues.append(Issue("C09", "read-undefined", where))

    def raises(self, c, infun, G, where, how):
        if not infun:
            return
        anc = self.tb.ancestors(c)
        if any(g in anc for g, o in G if o in self.STRICT):
            return
        leak = [o for g, o in G if g in anc]
        cause = f"unguarded-{how}" + (("-" + sorted(leak)[0]) if leak and how != "method-call" else "")
        self.issues.append(Issue("C08", cause, where))

    def write(self, x, D, where):
        if x not in D:
            self.issues.append(Issue("C07", "write-undefined", where))
        elif not D[x]:
            self.issues.append(Issue("C07", "write-fin", where))

    def simple(self, s, D, F, infun, G, where):
        k = s[0]
        if k == "expr":
            self.expr(s[1], D, F, infun, G, where)
        elif k == "def":
            if s[3] is not None:
                self.expr(s[3], D, F, infun, G, where)
            D = dict(D)
            for x in s[2]:
                D[x] = s[1]
        elif k == "assign":
            self.expr(s[2], D, F, infun, G, where)
            for x in s[1]:
                self.write(x, D, where)
        elif k == "aug":
            self.write(s[1], D, where)
            self.expr(s[2], D, F, infun, G, where)
        elif k == "fset":
            self.expr(s[3], D, F, infun, G, where)
            if s[1] not in D:
                self.issues.append(Issue("C07", "write-undefined", where))
            elif not D[s[1]]:
                self.issues.append(Issue("C07", "write-fin-receiver", where))
            elif self.tb.fl.get(s[2]) is False:
                self.issues.append(Issue("C07", "write-fin-field", where))
        elif k == "return":
            if s[1] is not None:
                self.expr(s[1], D, F, infun, G, where)
        elif k == "raise":
            self.raises(s[1], infun, G, where, "raise")
        return D

    def meet(self, D, Ds):
        """environment after a construct whose branches end in the environments Ds."""
        if not self.join or not Ds:
            return D
        out = dict(D)
        for x in Ds[0]:
            # only names that were NOT visible before can flow out of the branches; a name that was visible
            # keeps its own definition (a redefinition inside a branch shadows it there and nowhere else)
            if x not in D and all(x in d for d in Ds):
                out[x] = any(d[x] for d in Ds)
        return out

    def block(self, ss, D, F, infun, G, where):
        F, G = list(F), list(G)
        for i, s in enumerate(ss):
            D = self.stmt(s, D, F, infun, G, f"{where}.{i}")
            if s[0] == "fun":
                F.append(s[1])
            if s[0] == "handle":          # what only the implementation's threading adds
                G += [(c, "leak-after") for c, _, _ in s[2]]
        return D

    def stmt(self, s, D, F, infun, G, where):
        k = s[0]
        if k == "simple":
            return self.simple(s[1], D, F, infun, G, where)
        if k == "handle":
            cs = [c for c, _, _ in s[2]]
            D1 = self.simple(s[1], D, F, infun, [(c, "handle") for c in cs] + list(G), where + ".g")
            outs = [D1]
            for j, (c, b, body) in enumerate(s[2]):
                Da = dict(D1)                      # the guarded definition is pre-declared for the arm
                if b is not None:
                    Da[b[1]] = b[0]
                Db = self.block(body, Da, F, infun, [(c2, "leak-arm") for c2 in cs] + list(G), f"{where}.h{j}")
                if b is not None:
                    if b[1] in D1:
                        Db[b[1]] = D1[b[1]]
                    else:
                        Db.pop(b[1], None)
                outs.append(Db)
            return self.meet(D1, outs)
        if k == "if":
            self.expr(s[1], D, F, infun, G, where)
            self.block(s[2], D, F, infun, G, where + ".t")
            return D
        if k == "ifelse":
            self.expr(s[1], D, F, infun, G, where)
            Dt = self.block(s[2], D, F, infun, G, where + ".t")
            De = self.block(s[3], D, F, infun, G, where + ".e")
            return self.meet(D, [Dt, De])
        if k == "match":
            self.expr(s[1], D, F, infun, G, where)
            outs, total = [], False
            for j, (b, body) in enumerate(s[2]):
                Da = dict(D)
                if b is not None:
                    Da[b[1]] = b[0]
                    total = True
                Db = self.block(body, Da, F, infun, G, f"{where}.a{j}")
                if b is not None:                 # the binder does not leave its arm
                    if b[1] in D:
                        Db[b[1]] = D[b[1]]
                    else:
                        Db.pop(b[1], None)
                outs.append(Db)
            return self.meet(D, outs) if total else D
        if k == "while":
            self.expr(s[1], D, F, infun, G, where)
            self.block(s[2], D, F, infun, G, where + ".b")
            return D
        if k == "for":
            self.expr(s[2], D, F, infun, G, where)
            Db = dict(D)
            for x in s[1]:
                Db[x] = True
            self.block(s[3], Db, F, infun, G, where + ".b")
            return D
        if k == "fun":
            Db = dict(D)
            for m, x in s[2]:
                Db[x] = m
            for c in s[3]:
                if not self.tb.is_exc(c):
                    self.issues.append(Issue("C08", "declared-non-exception", where))
            inherited = [(g, "leak-fun") for g, _ in G]
            self.block(s[5], Db, F, True, [(c, "own") for c in s[3]] + inherited, where + ".f")
            return D
        raise ValueError(s)


def ftab_of(p):
    return {s[1]: (len(s[2]), list(s[3]), s[4]) for s in p if s[0] == "fun"}


def spec_issues(p, tb, join=True):
    sp = Spec(tb, ftab_of(p), join)
    sp.block(p, {}, [], False, [], "p")
    return sp.issues


# ------------------------------------------------------------------------------------------------
# running emitted Python
# ------------------------------------------------------------------------------------------------
RUNNER = r'''
import sys, json, io, signal, contextlib
class _T(Exception): pass
def _alarm(*a): raise _T()
signal.signal(signal.SIGALRM, _alarm)
srcs = json.load(sys.stdin)
out = []
for src in srcs:
    buf = io.StringIO()
    try:
        signal.setitimer(signal.ITIMER_REAL, 1.0)
        with contextlib.redirect_stdout(buf):
            exec(compile(src, "<emitted>", "exec"), {"__name__": "__emitted__"})
        res = ["ok", ""]
    except _T:
        res = ["timeout", ""]
    except SyntaxError as e:
        res = ["syntax", str(e)]
    except BaseException as e:
        res = [type(e).__name__, str(e)[:200]]
    finally:
        signal.setitimer(signal.ITIMER_REAL, 0)
    out.append(res + [buf.getvalue()[-400:]])
json.dump(out, sys.stdout)
'''


def run_python(srcs, shards=None):
    """Execute each emitted program in a fresh namespace; returns [(status, message, stdout tail)]."""
    if not srcs:
        return []
    from concurrent.futures import ThreadPoolExecutor
    shards = shards or max(1, min(NCPU, len(srcs) // 50 + 1))
    chunks = [srcs[i::shards] for i in range(shards)]

    def one(chunk):
        if not chunk:
            return []
        try:
            p = subprocess.run([sys.executable, "-I", "-c", RUNNER], input=json.dumps(chunk), text=True,
                               stdout=subprocess.PIPE, stderr=subprocess.PIPE, timeout=60 + 2 * len(chunk))
            return json.loads(p.stdout)
        except Exception as e:                      # a crash of the runner: nothing is concluded
            return [["runner-failed", str(e)[:100], ""] for _ in chunk]

    with ThreadPoolExecutor(shards) as ex:
        parts = list(ex.map(one, chunks))
    out = [None] * len(srcs)
    for k, part in enumerate(parts):
        for j, r in enumerate(part):
            out[k + j * shards] = tuple(r)
    return out


# ------------------------------------------------------------------------------------------------
# generators
# ------------------------------------------------------------------------------------------------
INT_VARS, OBJ_VARS, EXB_VARS = [1, 2, 3], [50, 51], [90, 91]


class Gen:
    """Random type-consistent skeletons.  A name always has one sort (Int, object, exception binder),
    value positions hold Int expressions only, procedures are called as statements only, functions
    with a return type end in `return e`, an empty `return` is the last statement of its block (the
    parser reads `return` + newline + statement as one statement), a definition never reads the name
    it defines (the unifier, out of scope here, trips over `def x := x + 1` after a shadowing).
    `p_bad` is the chance of using a name without looking at what is in scope, so most programs are
    accepted and a good part is rejected for exactly one reason."""

    def __init__(self, rng, tb, p_bad=0.05, features=None):
        self.rng, self.tb, self.p_bad = rng, tb, p_bad
        self.feat = features or {"raise", "handle", "fun", "obj", "loops", "match", "tuple", "call"}
        excs = [c for c in tb.ct if c != 0 and tb.is_exc(c)]
        self.excs = excs or [0]
        self.sigs = {}
        nf = rng.randint(1, 3) if "fun" in self.feat else 0
        for f in range(1, nf + 1):
            k = rng.random()
            rs = [] if k < 0.35 or "raise" not in self.feat else rng.sample(self.excs, rng.randint(1, min(2, len(self.excs))))
            if rs and rng.random() < 0.04 and 4 in tb.ct:
                rs = rs + [4]                                       # a class that is not an exception
            self.sigs[f] = (rng.randint(0, 2), rs, rng.random() < 0.4)

    # ---- expressions ---------------------------------------------------------------------------
    def var(self, scope, pool, avoid=()):
        pool = [x for x in pool if x not in avoid]
        if not pool:
            return None
        if self.rng.random() < self.p_bad:
            return self.rng.choice(pool)
        ok = [x for x in pool if x in scope]
        return self.rng.choice(ok) if ok else None

    def value(self, scope, depth=2, avoid=()):
        r = self.rng.random()
        if depth <= 0 or r < 0.3:
            return ("const",)
        if r < 0.65:
            x = self.var(scope, INT_VARS, avoid)
            return ("read", x) if x is not None else ("const",)
        if r < 0.8:
            return ("bin", self.value(scope, depth - 1, avoid), self.value(scope, depth - 1, avoid))
        if r < 0.9 and "obj" in self.feat:
            o = self.var(scope, OBJ_VARS)
            return ("field", o, self.rng.choice(list(self.tb.fl))) if o is not None else ("const",)
        fs = [f for f, s in self.sigs.items() if s[2]]
        if fs and "call" in self.feat:
            f = self.rng.choice(fs)
            return ("call", f, [self.value(scope, depth - 1, avoid) for _ in range(self.sigs[f][0])])
        return ("const",)

    def call_stmt(self, scope):
        if self.sigs and "call" in self.feat and (self.rng.random() < 0.7 or "obj" not in self.feat):
            f = self.rng.choice(list(self.sigs))
            if self.rng.random() < 0.02:
                return ("call", 9, [])                              # never defined
            return ("call", f, [self.value(scope, 1) for _ in range(self.sigs[f][0])])
        if "obj" in self.feat:
            o = self.var(scope, OBJ_VARS)
            if o is not None:
                return ("mcall", o, self.rng.choice(list(self.tb.mt)), [])
        return ("print", [("const",)])

    # ---- statements ----------------------------------------------------------------------------
    def a_def(self, scope):
        rng, mut = self.rng, self.rng.random() < 0.65
        if "obj" in self.feat and rng.random() < 0.25:
            return ("def", mut, [rng.choice(OBJ_VARS)], NEW)
        if "tuple" in self.feat and rng.random() < 0.15:
            p = rng.sample(INT_VARS, 2)
            return ("def", mut, p, self.value(scope, 2, p))
        x = rng.choice(INT_VARS)
        if rng.random() < 0.04:
            return ("def", mut, [x], None)
        if rng.random() < 0.12:
            # typed definition whose initialiser reads the name being defined: a shadowing redefinition when
            # the name is in scope, a read of an undefined name otherwise (the typed form is the one the
            # unifier copes with, see the class docstring)
            other = self.value(scope, 1, [x])
            init = ("bin", ("read", x), other) if rng.random() < 0.6 else ("bin", other, ("read", x))
            return ("def", mut, [x], init if rng.random() < 0.8 else ("read", x), True)
        return ("def", mut, [x], self.value(scope, 2, [x]), rng.random() < 0.3)

    def simple(self, scope, ctx):
        r, rng = self.rng.random(), self.rng
        if r < 0.2:
            x = self.var(scope, INT_VARS + EXB_VARS)        # objects have no __str__: read through a field
            return ("expr", ("print", [("read", x)])) if x is not None else self.a_def(scope)
        if r < 0.42:
            return self.a_def(scope)
        if r < 0.56:
            x = self.var(scope, INT_VARS)
            if x is None:
                return self.a_def(scope)
            y = self.var(scope, INT_VARS)
            if "tuple" in self.feat and rng.random() < 0.12 and y is not None:
                return ("assign", [x, y], self.value(scope))
            return ("assign", [x], self.value(scope))
        if r < 0.64:
            x = self.var(scope, INT_VARS)
            return ("aug", x, self.value(scope, 1)) if x is not None else self.a_def(scope)
        if r < 0.72 and "obj" in self.feat:
            o = self.var(scope, OBJ_VARS)
            if o is None:
                return ("def", True, [rng.choice(OBJ_VARS)], NEW)
            return ("fset", o, rng.choice(list(self.tb.fl)), self.value(scope, 1))
        if r < 0.86:
            return ("expr", self.call_stmt(scope))
        if r < 0.93 and "raise" in self.feat and (ctx["infun"] or rng.random() < 0.2):
            return ("raise", rng.choice(self.excs))
        return ("expr", ("print", [("const",)]))

    def guarded(self, scope, ctx):
        r, rng = self.rng.random(), self.rng
        fs = [f for f, s in self.sigs.items() if s[2]]
        if r < 0.5 or not fs:
            return ("expr", self.call_stmt(scope))
        f = rng.choice(fs)
        x = rng.choice(INT_VARS)
        call = ("call", f, [self.value(scope, 1, [x]) for _ in range(self.sigs[f][0])])
        if r < 0.9:
            return ("def", rng.random() < 0.7, [x], call)
        return ("raise", rng.choice(self.excs))

    @staticmethod
    def defines(s):
        if s[0] in ("simple", "handle") and s[1][0] == "def":
            return s[1][2]
        return []

    def block(self, scope, ctx, budget):
        scope, out = set(scope), []
        n = self.rng.randint(1, max(1, min(4, budget)))
        for _ in range(n):
            s = self.stmt(scope, ctx, max(1, budget // n))
            out.append(s)
            scope.update(self.defines(s))
        if ctx["infun"] and not ctx["ret"] and ctx["depth"] > 1 and self.rng.random() < 0.08:
            out.append(("simple", ("return", None)))
        return out

    def stmt(self, scope, ctx, budget):
        r, rng = self.rng.random(), self.rng
        if budget <= 1 or r < 0.5:
            return ("simple", self.simple(scope, ctx))
        inner = dict(ctx, depth=ctx["depth"] + 1)
        if r < 0.6 and "handle" in self.feat:
            arms = []
            g = self.guarded(scope, ctx)
            sc0 = set(scope) | set(g[2] if g[0] == "def" else [])
            for _ in range(rng.randint(1, 2)):
                b = None if rng.random() < 0.3 else (True, rng.choice(EXB_VARS))
                sc = sc0 | ({b[1]} if b else set())
                arms.append((rng.choice(self.excs + [0]), b, self.block(sc, inner, max(1, budget // 3))))
            return ("handle", g, arms)
        if r < 0.68:
            return ("if", self.value(scope, 1), self.block(scope, inner, budget - 1))
        if r < 0.78:
            return ("ifelse", self.value(scope, 1), self.block(scope, inner, budget // 2),
                    self.block(scope, inner, budget // 2))
        if r < 0.84 and "match" in self.feat:
            arms = [(None, self.block(scope, inner, max(1, budget // 3))) for _ in range(rng.randint(0, 2))]
            if rng.random() < 0.7 or not arms:
                x = rng.choice(INT_VARS)
                arms.append(((rng.random() < 0.8, x), self.block(set(scope) | {x}, inner, max(1, budget // 3))))
            return ("match", self.value(scope, 1), arms)
        if r < 0.89 and "loops" in self.feat:
            return ("while", self.value(scope, 1), self.block(scope, inner, budget - 1))
        if r < 0.95 and "loops" in self.feat:
            x = rng.choice(INT_VARS)
            return ("for", [x], self.value(scope, 1, [x]), self.block(set(scope) | {x}, inner, budget - 1))
        return ("simple", self.simple(scope, ctx))

    def fun(self, f, scope, budget):
        ar, rs, ret = self.sigs[f]
        ps = [(self.rng.random() < 0.7, x) for x in self.rng.sample(INT_VARS, ar)]
        sc = set(scope) | {x for _, x in ps}
        body = self.block(sc, {"infun": True, "ret": ret, "depth": 1}, budget)
        if ret:
            for s in body:
                sc.update(self.defines(s))
            body.append(("simple", ("return", self.value(sc, 1))))
        return ("fun", f, ps, list(rs), ret, body)

    def program(self, size):
        scope, out = set(), []
        todo = list(self.sigs)
        self.rng.shuffle(todo)
        n = self.rng.randint(2, max(2, min(6, size)))
        if "obj" in self.feat and self.rng.random() < 0.6:
            out.append(("simple", ("def", self.rng.random() < 0.8, [OBJ_VARS[0]], NEW)))
            scope.add(OBJ_VARS[0])
        for i in range(n):
            if todo and self.rng.random() < 0.5:
                out.append(self.fun(todo.pop(), scope, max(1, size // n)))
                continue
            s = self.stmt(scope, {"infun": False, "ret": False, "depth": 0}, max(1, size // n))
            out.append(s)
            scope.update(self.defines(s))
        for f in todo:
            if self.rng.random() < 0.85:
                out.insert(self.rng.randint(0, len(out)), self.fun(f, set(), max(1, size // n)))
        return out


def random_cases(rng, n, size=(3, 12), features=None, p_bad=0.05):
    out = []
    for _ in range(n):
        tb = Tables(rng.choice(HIERARCHIES))
        g = Gen(rng, tb, p_bad=p_bad, features=features)
        out.append((g.program(rng.randint(*size)), tb))
    return out


# ------------------------------------------------------------------------------------------------
# exhaustive enumeration up to a size bound
# ------------------------------------------------------------------------------------------------
def enum_blocks(atoms, compounds, n, _memo=None):
    """All blocks (lists of statements) of total size exactly n.
    atoms: statements of size 1; compounds: [(k, builder)] where builder takes k blocks."""
    memo = {} if _memo is None else _memo

    def stmts(m):
        if ("s", m) in memo:
            return memo[("s", m)]
        out = []
        if m == 1:
            out = list(atoms)
        else:
            for k, build in compounds:
                if k == 1:
                    for b in blocks(m - 1):
                        out.append(build(b))
                elif k == 2:
                    for i in range(1, m - 1):
                        for b1 in blocks(i):
                            for b2 in blocks(m - 1 - i):
                                out.append(build(b1, b2))
        memo[("s", m)] = out
        return out

    def blocks(m):
        if ("b", m) in memo:
            return memo[("b", m)]
        out = []
        if m == 0:
            out = [[]]
        else:
            for first in range(1, m + 1):
                for s in stmts(first):
                    for rest in blocks(m - first):
                        out.append([s] + rest)
        memo[("b", m)] = out
        return out

    return blocks(n)


# ------------------------------------------------------------------------------------------------
# one evaluation of a batch of cases: implementation, model, specification, correspondence
# ------------------------------------------------------------------------------------------------
JUSTIFY = {   # error kind of the implementation -> spec issues that justify it
    "VReject KUndef": {"read-undefined", "write-undefined"},
    "VReject KUndefFun": {"call-undefined-function"},
    "VReject KImmut": {"write-fin", "write-fin-receiver"},
    "VReject KUnhandled": {"unguarded-raise", "unguarded-call", "unguarded-method-call"},
}


class Rec:
    __slots__ = ("p", "tb", "src", "impl", "msg", "model", "strict", "restored", "other", "issues", "py", "status")

    def case_json(self):
        return {"program": self.p, "tables": {"ct": self.tb.ct, "mt": self.tb.mt, "fl": self.tb.fl},
                "mamba": self.src, "implementation": self.impl, "message": self.msg,
                "model": self.model, "model_mode": IMPL_MODE, "model_repaired": self.strict,
                "model_" + OTHER_MODE: getattr(self, "other", None),
                "spec_issues": [repr(i) for i in self.issues]}


def tables_from_json(d):
    return Tables({int(k): v for k, v in d["ct"].items()}, {int(k): v for k, v in d["mt"].items()},
                  {int(k): v for k, v in d["fl"].items()})


def tuplify(x):
    if isinstance(x, list):
        return [tuplify(y) for y in x] if (not x or not isinstance(x[0], str)) else tuple(tuplify(y) for y in x)
    return x


def evaluate(cases, log=lambda m: None):
    """cases: [(program, Tables)] -> [Rec] with implementation and model verdicts and spec issues."""
    import time
    t0 = time.time()
    srcs = [render(p, tb) for p, tb in cases]
    impl = [impl_verdict(r) for r in transpile_all(srcs)]
    t1 = time.time()
    build_scope_driver(log)
    model = model_verdicts_driver(cases)
    t2 = time.time()
    # the extracted driver against vm_compute inside Coq, on a sample (ties the extraction to the model)
    step = max(1, len(cases) // 40)
    sample = list(range(0, len(cases), step))
    direct = model_verdicts_parallel([cases[i] for i in sample])
    evaluate.extraction_check = {"sampled": len(sample),
                                 "differ": [(cases[i], model[i], d) for i, d in zip(sample, direct) if model[i] != d]}
    log(f"{len(cases)} cases: implementation {t1 - t0:.1f}s, extracted model {t2 - t1:.1f}s, "
        f"vm_compute cross-check of {len(sample)} cases {time.time() - t2:.1f}s")
    out = []
    for (p, tb), src, (iv, msg), (m_as_is, ms, m_restored) in zip(cases, srcs, impl, model):
        r = Rec()
        mv = m_as_is if IMPL_MODE == "as_is" else m_restored
        r.p, r.tb, r.src, r.impl, r.msg, r.model, r.strict, r.restored = p, tb, src, iv, msg, mv, ms, m_restored
        r.other = m_restored if IMPL_MODE == "as_is" else m_as_is
        r.issues = spec_issues(p, tb)
        r.py = None
        if iv == mv:
            r.status = "agree"
        elif iv == "VReject KOther" and mv == "VAccept" and not is_generate_other(msg):
            r.status = "outside-unifier"          # rejected later, by the unifier: not this model's business
        elif iv.startswith("STAGE"):
            r.status = "outside-" + iv.split()[1]
        else:
            r.status = "disagree"
        out.append(r)
    return out


def model_verdicts_parallel(cases, chunk=350):
    from concurrent.futures import ThreadPoolExecutor
    chunks = [cases[i:i + chunk] for i in range(0, len(cases), chunk)]
    if len(chunks) <= 1:
        return model_verdicts(cases)
    with ThreadPoolExecutor(min(NCPU, 8, len(chunks))) as ex:
        parts = list(ex.map(model_verdicts, chunks))
    return [v for part in parts for v in part]


def emitted_python(recs, variants=(0, 0xFFFF, 0x5A5A)):
    """Transpile the accepted programs under several run-time variants and execute the output.
    Returns {index in recs: [(variant, status, message)]}."""
    idx = [i for i, r in enumerate(recs) if r.impl == "VAccept"]
    jobs = [(i, v) for i in idx for v in variants]
    srcs = [render(recs[i].p, recs[i].tb, v) for i, v in jobs]
    resp = transpile_all(srcs)
    py, keep = [], []
    for (i, v), r in zip(jobs, resp):
        if r[0] == "OK":
            py.append(unhex(r[1]).split("\x1e")[0])
            keep.append((i, v))
    res = run_python(py)
    out = {}
    for (i, v), r in zip(keep, res):
        out.setdefault(i, []).append((v, r[0], r[1]))
    return out


def case_text(cause, p):
    return f"CAUSE:{cause} SHAPE:{shape(p)}"


# ------------------------------------------------------------------------------------------------
# pieces shared by the three checks
# ------------------------------------------------------------------------------------------------
THEOREM_BASE = [
    "Coq 8.16.1 kernel; vm_compute only for the closed witnesses and examples; no axioms (Print Assumptions: "
    "Closed under the global context)",
    "model/Scope.v is a hand model of src/check/constrain/generate/*.rs seen through Environment and the "
    "builder's var_mapping; tied to the code by the verdict correspondence below (transpile endpoint)",
    "the trace semantics of the skeleton (sruns/ssruns, scope stack, guards) is the specification side: "
    "branches nondeterministic, loops 0..n, calls = declared raises, function bodies run at their definition "
    "point; an over-approximation of real runs",
    "renderer lib/vlib/scope.py (skeleton -> Mamba text): variables, functions, classes, fields are disjoint "
    "alphabets; names contain no '@'; a function name is never also a variable (the variable-call branch of "
    "FunctionCall is not modelled)",
    "KIND_TABLE in lib/vlib/scope.py: diagnostic text -> error kind; unifier diagnostics are `other`",
    "extraction of model/Scope.v (ExtrOcamlBasic, ExtrOcamlNatInt) + coq/extract/scope_driver.ml (protocol only), "
    "cross-checked on a sample of every run against vm_compute inside Coq",
    "usize offsets modelled by nat (no overflow below 2^64 definitions)",
    "python3 as the reference for NameError/UnboundLocalError and for except-clause matching",
]


def load_replay(path):
    d = json.load(open(path))
    c = d.get("case") or d
    return [(tuplify(c["program"]), tables_from_json(c["tables"]))]


def correspondence(ck, recs, where, need_discriminating=0):
    """Model verdict vs implementation verdict; unexplained differences break the tie."""
    import collections
    xc = getattr(evaluate, "extraction_check", None)
    if xc is not None:
        ck.cov["extraction_cross_check"] = {"sampled": xc["sampled"], "differ": len(xc["differ"])}
        if xc["differ"]:
            ck.broken.append({"kind": "extraction", "where": "extracted scope driver vs vm_compute of Scope.verdict_*",
                              "examples": [[coq_stmts(c[0]), list(a), list(b)] for c, a, b in xc["differ"][:3]]})
    st = collections.Counter(r.status for r in recs)
    pairs = collections.Counter((r.impl, r.model) for r in recs)
    bad = [r for r in recs if r.status == "disagree"]
    parse = [r for r in recs if r.status.startswith("outside-") and r.status != "outside-unifier"]
    ck.cov["correspondence"] = {
        "cases": len(recs), "agree": st["agree"], "disagree": len(bad),
        "outside_unifier": st["outside-unifier"], "not_parsed_or_other_stage": len(parse),
        "verdict_pairs": {f"{a} / {b}": n for (a, b), n in sorted(pairs.items(), key=lambda x: -x[1])[:12]},
        "unifier_examples": [r.msg.split("\n")[0] for r in recs if r.status == "outside-unifier"][:3],
    }
    discriminating = [r for r in recs if getattr(r, "other", r.model) != r.model]
    explained = [r for r in bad if getattr(r, "other", None) == r.impl]
    ck.cov["correspondence"]["model_mode"] = IMPL_MODE
    ck.cov["correspondence"]["cases_that_tell_the_modes_apart"] = len(discriminating)
    ck.cov["correspondence"]["disagreements_explained_by_mode_" + OTHER_MODE] = len(explained)
    if bad:
        b = {"kind": "correspondence", "where": where, "count": len(bad),
             "examples": [r.case_json() for r in bad[:3]]}
        if explained and len(explained) * 2 >= len(bad):
            b["diagnosis"] = (f"{len(explained)} of the {len(bad)} disagreements are exactly the verdicts of the threading "
                              f"`{OTHER_MODE}`: the handle / function-body treatment of raises_caught in "
                              f"control_flow.rs / definition.rs behaves like `{OTHER_MODE}` again, not like IMPL_MODE="
                              f"`{IMPL_MODE}`")
        ck.broken.append(b)
    if need_discriminating and len(discriminating) < need_discriminating:
        ck.broken.append({"kind": "generator", "where": "no case of this run distinguishes the threadings "
                          f"`{IMPL_MODE}` and `{OTHER_MODE}`: the mode constant would not be tested"})
    if len(parse) > max(3, len(recs) // 100):
        ck.broken.append({"kind": "generator", "where": "rendered programs the parser refuses",
                          "count": len(parse), "examples": [r.case_json() for r in parse[:2]]})
    if st["outside-unifier"] > max(5, len(recs) // 20):
        ck.broken.append({"kind": "generator", "where": "too many programs rejected by the unifier "
                          "(the renderer is meant to be well typed by construction)",
                          "count": st["outside-unifier"],
                          "examples": [r.case_json() for r in recs if r.status == "outside-unifier"][:2]})
    return st


def justified(r):
    """Is the implementation's rejection kind explained by a demand of one of the properties?"""
    want = JUSTIFY.get(r.impl)
    if want is None:
        return True
    return any(i.cause.split("-leak")[0] in want or i.cause in want for i in r.issues)


def finish_cov(ck, recs, st, rule, samples, extra_eval=0):
    seen = set()
    for r in recs:
        if size(r.p) >= 3:
            seen.add(coq_stmts(r.p) + r.tb.key())
    ck.cov.update({
        "evaluations": len(recs) + extra_eval,
        "distinct_nontrivial": len(seen),
        "rule": rule,
        "traces_validated_against_impl": st["agree"],
        "samples": samples,
        "exhaustive": False,
        "trusted_base": THEOREM_BASE,
    })


class Reporter:
    """ck.violation with one canonical text per cause and a cap on the replay files per cause."""

    def __init__(self, ck, cap=3):
        import collections
        self.ck, self.cap, self.n, self.first = ck, cap, collections.Counter(), {}

    def report(self, what, cause, rec, extra=None):
        text = case_text(cause, rec.p)
        self.n[cause] += 1
        known = self.ck.match_finding(text) is not None
        path = self.first.get(cause)
        if self.n[cause] <= self.cap:
            data = {"case": rec.case_json(), "what": what, "cause": cause, "case_text": text}
            data.update(extra or {})
            path = self.ck.write_replay(cause.split("-")[0], data)
            self.first.setdefault(cause, path)
        if known or self.n[cause] <= self.cap:
            self.ck.violation(what, path, text)

    def summary(self):
        return dict(self.n)


def bound_names(ss):
    """names a block binds (Python: assignment targets), not entering nested functions."""
    out = set()
    for s in ss:
        k = s[0]
        if k in ("simple", "handle"):
            x = s[1]
            if x[0] == "def":
                out.update(x[2])
            elif x[0] == "assign":
                out.update(x[1])
            elif x[0] == "aug":
                out.add(x[1])
        if k == "handle":
            for c, b, body in s[2]:
                if b:
                    out.add(b[1])
                out |= bound_names(body)
        elif k in ("if", "while"):
            out |= bound_names(s[2])
        elif k == "ifelse":
            out |= bound_names(s[2]) | bound_names(s[3])
        elif k == "match":
            for b, body in s[2]:
                if b:
                    out.add(b[1])
                out |= bound_names(body)
        elif k == "for":
            out.update(s[1])
            out |= bound_names(s[3])
    return out


def rebinds_outer(p):
    """Does some function bind a name (not a parameter) that is visible at its definition point?
    Python then treats the name as local to the whole function body."""
    seen = set()
    for s in p:
        if s[0] == "fun":
            params = {x for _, x in s[2]}
            if (bound_names(s[5]) - params) & seen:
                return True
        elif s[0] in ("simple", "handle") and s[1][0] == "def":
            seen.update(s[1][2])
    return False


# ------------------------------------------------------------------------------------------------
# the direct oracles as pure functions of one record (so that they can be tested on hand-made verdicts)
# ------------------------------------------------------------------------------------------------
def judge_c09(r):
    """[(what, cause)]: the implementation's verdict against the flow specification of C09."""
    mine = [i for i in r.issues if i.prop == "C09"]
    if r.impl == "VAccept" and mine:
        return [("accepted although a name is read that is not definitely defined: " + repr(mine[0]), mine[0].cause)]
    if r.impl in ("VReject KUndef", "VReject KUndefFun") and r.msg.startswith(("Undefined variable", "Function")) \
            and not justified(r):
        lexical = [i for i in spec_issues(r.p, r.tb, join=False)
                   if i.cause in ("read-undefined", "write-undefined", "call-undefined-function")]
        cause = "read-defined-only-by-branch-join" if lexical else "over-reject-undefined"
        return [("rejected as undefined although every read is preceded by a definition on all paths", cause)]
    return []


def _calls_in(x):
    """function ids called anywhere inside a (nested) program term"""
    out = set()
    if isinstance(x, (list, tuple)):
        if len(x) >= 2 and x[0] == "call" and isinstance(x[1], int):
            out.add(x[1])
        for y in x:
            out |= _calls_in(y)
    return out


def calls_function_defined_later(p):
    """Is some function executed (through a chain of calls that starts at a top-level statement) before the `def`
    of a function it calls has been executed?  The interprocedural form of D12: every function involved is defined
    somewhere in the file, so the checker's global context knows it, but Python has not bound it yet."""
    where = {s[1]: i for i, s in enumerate(p) if s[0] == "fun"}
    body_calls = {s[1]: _calls_in(s[5:]) for s in p if s[0] == "fun"}
    for i, s in enumerate(p):
        if s[0] == "fun":
            continue
        todo, seen = list(_calls_in(s)), set()
        while todo:
            f = todo.pop()
            if f in seen:
                continue
            seen.add(f)
            if f in where and where[f] > i:
                return True
            todo += list(body_calls.get(f, ()))
    return False


def judge_c09_run(r, status):
    """cause for a NameError / UnboundLocalError of the emitted Python of an accepted program."""
    mine = [x for x in r.issues if x.prop == "C09"]
    if mine:
        return mine[0].cause
    if status == "NameError" and calls_function_defined_later(r.p):
        return "call-before-def-transitive"
    if status == "UnboundLocalError" and rebinds_outer(r.p):
        return "runtime-UnboundLocalError-function-rebinds-outer-name"
    return "runtime-" + status


def judge_c07(r):
    mine = [i for i in r.issues if i.prop == "C07"]
    if r.impl == "VAccept" and mine:
        return [("accepted although an assignment is forbidden: " + repr(mine[0]), mine[0].cause)]
    if (r.impl == "VReject KImmut" or r.msg.startswith("Cannot reassign to undefined")) and not justified(r):
        lexical = [i for i in spec_issues(r.p, r.tb, join=False)
                   if i.cause in ("write-undefined", "write-fin", "write-fin-receiver")]
        cause = "write-defined-only-by-branch-join" if lexical else "over-reject-write"
        return [("assignment to a visible mutable definition rejected", cause)]
    return []


def judge_c08(r):
    mine = [i for i in r.issues if i.prop == "C08"]
    if r.impl == "VAccept" and mine:
        return [("accepted although " + repr(mine[0]), mine[0].cause)]
    if r.impl == "VReject KUnhandled" and not justified(r):
        return [("rejected as unhandled although every raise is guarded", "over-reject-unhandled")]
    return []


def oracle_selftest():
    """Hand-made wrong verdicts must be flagged, right ones must not.  Returns the list of failures."""
    tb = Tables(HIERARCHIES[0])
    k = ("const",)

    def rec(p, impl, msg=""):
        r = Rec()
        r.p, r.tb, r.src, r.impl, r.msg, r.model, r.strict, r.restored = p, tb, "", impl, msg, impl, impl, impl
        r.other = impl
        r.issues = spec_issues(p, tb)
        return r

    fin_write = [("simple", ("def", False, [1], k)), ("simple", ("assign", [1], k))]
    mut_write = [("simple", ("def", True, [1], k)), ("simple", ("aug", 1, k))]
    undef_read = [("simple", ("expr", ("print", [("read", 1)])))]
    def_read = [("simple", ("def", True, [1], k)), ("simple", ("expr", ("print", [("read", 1)])))]
    one_branch = [("if", k, [("simple", ("def", True, [1], k))]), ("simple", ("expr", ("print", [("read", 1)])))]
    loop_var = [("for", [2], k, [("simple", ("pass",))]), ("simple", ("expr", ("print", [("read", 2)])))]
    unguarded = [("fun", 2, [], [], False, [("simple", ("raise", 2))])]
    declared = [("fun", 2, [], [1], False, [("simple", ("raise", 2))])]             # E2 < E1
    handled = [("fun", 1, [], [2], False, [("simple", ("raise", 2))]),
               ("fun", 2, [], [], False, [("handle", ("expr", ("call", 1, [])), [(0, None, [("simple", ("pass",))])])])]
    wrong_arm = [("fun", 1, [], [2], False, [("simple", ("raise", 2))]),
                 ("fun", 2, [], [], False, [("handle", ("expr", ("call", 1, [])), [(3, None, [("simple", ("pass",))])])])]
    non_exc = [("fun", 2, [], [4], False, [("simple", ("pass",))])]
    expect = [
        (judge_c07, rec(fin_write, "VAccept"), "write-fin"),
        (judge_c07, rec(fin_write, "VReject KImmut", "Cannot change mutability of"), None),
        (judge_c07, rec(mut_write, "VReject KImmut", "Cannot change mutability of"), "over-reject-write"),
        (judge_c07, rec(mut_write, "VAccept"), None),
        (judge_c07, rec([("simple", ("assign", [1], k))], "VAccept"), "write-undefined"),
        (judge_c09, rec(undef_read, "VAccept"), "read-undefined"),
        (judge_c09, rec(one_branch, "VAccept"), "read-undefined"),
        (judge_c09, rec(loop_var, "VAccept"), "read-undefined"),
        (judge_c09, rec(undef_read, "VReject KUndef", "Undefined variable: v1"), None),
        (judge_c09, rec(def_read, "VReject KUndef", "Undefined variable: v1"), "over-reject-undefined"),
        (judge_c09, rec(def_read, "VAccept"), None),
        (judge_c08, rec(unguarded, "VAccept"), "unguarded-raise"),
        (judge_c08, rec(unguarded, "VReject KUnhandled", "Exception not caught: E2"), None),
        (judge_c08, rec(declared, "VReject KUnhandled", "Exception not caught: E2"), "over-reject-unhandled"),
        (judge_c08, rec(declared, "VAccept"), None),
        (judge_c08, rec(handled, "VAccept"), None),
        (judge_c08, rec(wrong_arm, "VAccept"), "unguarded-call"),
        (judge_c08, rec(non_exc, "VAccept"), "declared-non-exception"),
    ]
    bad = []
    for judge, r, want in expect:
        got = judge(r)
        got = got[0][1] if got else None
        if got != want:
            bad.append(f"{judge.__name__} on {shape(r.p)} with verdict {r.impl}: expected {want}, got {got}")
    return bad


# ------------------------------------------------------------------------------------------------
# hand-written corpora (shapes the random generator reaches too rarely), all within the skeleton
# ------------------------------------------------------------------------------------------------
def selfref_corpus():
    """C09: definitions whose initialiser reads the name being defined, typed and untyped, in every kind of
    scope, with no / an earlier / a sibling-branch / a later definition of the name.  With an earlier visible
    definition it is a shadowing redefinition (accepted), otherwise a read of an undefined name."""
    tb = Tables(HIERARCHIES[0])
    k, X, Y = ("const",), 1, 2
    rd = ("simple", ("expr", ("print", [("read", X)])))
    first = ("simple", ("def", True, [X], k))
    inits = [("bin", ("read", X), k), ("bin", k, ("read", X)), ("read", X), ("bin", ("read", X), ("read", Y)),
             ("bin", ("bin", k, ("read", Y)), ("read", X))]
    contexts = {
        "top": lambda pre, hole: pre + hole,
        "fun": lambda pre, hole: pre + [("fun", 1, [(True, Y)], [], False, hole), ("simple", ("expr", ("call", 1, [k])))],
        "fun-local": lambda pre, hole: [("fun", 1, [(True, Y)], [], False, pre + hole)],
        "if": lambda pre, hole: pre + [("if", k, hole)],
        "then": lambda pre, hole: pre + [("ifelse", k, hole, [("simple", ("pass",))])],
        "else": lambda pre, hole: pre + [("ifelse", k, [("simple", ("pass",))], hole)],
        "sibling": lambda pre, hole: [("ifelse", k, pre + [("simple", ("pass",))], hole)],
        "while": lambda pre, hole: pre + [("while", k, hole)],
        "for": lambda pre, hole: pre + [("for", [3], k, hole)],
        "match": lambda pre, hole: pre + [("match", k, [(None, hole), ((True, 3), [("simple", ("pass",))])])],
        "arm": lambda pre, hole: pre + [("fun", 2, [], [1], True, [("simple", ("return", k))]),
                                        ("handle", ("def", True, [3], ("call", 2, [])), [(1, None, hole)])],
        "fun-if": lambda pre, hole: pre + [("fun", 1, [(True, Y)], [], False, [("if", ("read", Y), hole)])],
        "later": lambda pre, hole: hole + pre,
    }
    out = []
    for cname_, ctx in contexts.items():
        for pre in ([], [first]):
            for typed in (False, True):
                if pre and not typed and cname_ not in ("sibling", "later"):
                    continue                       # untyped shadowing with self-reference: the unifier's business
                for mut in (True, False):
                    for init in inits:
                        reads_y = "2" in repr(init)
                        if reads_y and cname_ not in ("fun", "fun-local", "fun-if"):
                            hole0 = [("simple", ("def", True, [Y], k))]
                        else:
                            hole0 = []
                        hole = hole0 + [("simple", ("def", mut, [X], init, typed)), rd]
                        out.append((ctx(list(pre), hole), tb))
    return out


def raise_list_corpus():
    """C08: `raise [..]` lists in which one name is a plain class (E4) or undefined (E7), in every position,
    among Exception itself and real exception classes; bodies that raise the offending class; call sites with an
    arm for it.  All-valid lists as controls."""
    tb = Tables(HIERARCHIES[0])
    k = ("const",)
    valid, out = [0, 1, 2, 5], []
    lists = []
    for bad in (4, 7):
        for n in (1, 2, 3):
            for pos in range(n):
                for rot in range(2 if n > 1 else 1):
                    others = [valid[(rot + j) % len(valid)] for j in range(n - 1)]
                    lists.append((others[:pos] + [bad] + others[pos:], bad))
    for ctl in ([0], [0, 1], [1, 0], [2, 0, 1], [5, 0], [0, 5, 2]):
        lists.append((ctl, None))
    for rs, bad in lists:
        bodies = [[("simple", ("expr", ("print", [k])))]]
        if bad == 4:
            bodies.append([("simple", ("raise", 4))])
        bodies.append([("simple", ("raise", next(c for c in rs if c not in (4, 7)) if any(c not in (4, 7) for c in rs) else 1))]
                      if (bad is None or len(rs) > 1) else [("simple", ("pass",))])
        for body in bodies:
            f = ("fun", 1, [], list(rs), False, body)
            arms = [0] + ([4] if bad == 4 else []) + [c for c in rs if c not in (0, 4, 7)][:1]
            sites = [[]]
            for a in arms:
                sites.append([("handle", ("expr", ("call", 1, [])), [(a, (True, 90), [("simple", ("expr", ("print", [k])))])])])
                sites.append([("fun", 2, [], [], False,
                               [("handle", ("expr", ("call", 1, [])), [(a, None, [("simple", ("pass",))])])])])
            for site in sites:
                out.append(([f] + site, tb))
                if site:
                    out.append((site[:0] + [("simple", ("def", True, [1], k))] + [f] + site, tb))
    return out


def ancestor_corpus():
    """C08, positive half: for every exception class R of every hierarchy (depth up to 4) and every exception class
    A: R raised / a function raising R called inside a function that is protected ONLY by A - as declared
    `raise [A]`, as the single arm of a handle (statement, initialiser, raise), directly and inside a branch.
    Accepted iff A is R or an ancestor of R."""
    out = []
    k = ("const",)
    for h in HIERARCHIES:
        tb = Tables(h)
        excs = [c for c in tb.ct if tb.is_exc(c)]
        for R in [c for c in excs if c != 0]:
            g = ("fun", 1, [], [R], False, [("simple", ("raise", R))])
            gi = ("fun", 3, [], [R], True, [("simple", ("return", k))])
            for A in excs:
                arm = lambda body=None: [(A, None, body or [("simple", ("pass",))])]
                progs = [
                    [("fun", 2, [], [A], False, [("simple", ("raise", R))])],
                    [g, ("fun", 2, [], [A], False, [("simple", ("expr", ("call", 1, [])))])],
                    [g, ("fun", 2, [], [], False, [("handle", ("expr", ("call", 1, [])), arm())])],
                    [("fun", 2, [], [], False, [("handle", ("raise", R), arm())])],
                    [gi, ("fun", 2, [], [], False, [("handle", ("def", True, [1], ("call", 3, [])), arm()),
                                                     ("simple", ("expr", ("print", [("read", 1)])))])],
                    [g, ("fun", 2, [(True, 2)], [A], False,
                         [("ifelse", ("read", 2), [("simple", ("raise", R))], [("simple", ("expr", ("call", 1, [])))])])],
                    [g, ("fun", 2, [(True, 2)], [], False,
                         [("while", ("read", 2), [("handle", ("expr", ("call", 1, [])), arm())])])],
                ]
                out += [(p, tb) for p in progs]
    return out


# ------------------------------------------------------------------------------------------------
# constructors: definite assignment of non-nullable fields (C09).  NOT part of model/Scope.v (the model has
# no class bodies): this family is judged by the declarative specification below and by executing the
# emitted Python only.
#   body  ("fa",f) self.a<f> := 1 | ("fr",f) print(self.a<f>) | ("o",) print(0) | ("ret",) | ("rs",) raise E1()
#         | ("fc",f,op) self.a<f> op= c   (compound assignment = a read of the field followed by a write)
#         | ("if",B) | ("ie",B,B) | ("mt",[B..]) match with a final `_` arm | ("wh",B) | ("fo",B)
# ------------------------------------------------------------------------------------------------
class CtorRender:
    def __init__(self, variant=0):
        self.variant, self.n = variant, 0

    def cond(self):
        bit = (self.variant >> (self.n % 16)) & 1
        self.n += 1
        return f"c > {BIG if bit else -BIG}"

    def block(self, b, ind):
        sp, out = " " * ind, []
        for s in b or [("o",)]:
            k = s[0]
            if k == "fa":
                out.append(f"{sp}self.a{s[1]} := {s[1]}")
            elif k == "fc":
                out.append(f"{sp}self.a{s[1]} {s[2]}= c")
            elif k == "fr":
                out.append(f"{sp}print(self.a{s[1]})")
            elif k == "o":
                out.append(f"{sp}print(0)")
            elif k == "ret":
                out.append(f"{sp}return")
            elif k == "rs":
                out.append(f"{sp}raise E1()")
            elif k == "if":
                out += [f"{sp}if {self.cond()} then"] + self.block(s[1], ind + 4)
            elif k == "ie":
                c = self.cond()
                out += [f"{sp}if {c} then"] + self.block(s[1], ind + 4) + [f"{sp}else"] + self.block(s[2], ind + 4)
            elif k == "mt":
                sel = (self.variant >> (self.n % 16)) % len(s[1])         # which arm runs: steer the subject
                self.n += 1
                out.append(f"{sp}match c * 0 + {sel if sel < len(s[1]) - 1 else 99}")
                for j, arm in enumerate(s[1]):
                    out.append(f"{sp}    {j if j < len(s[1]) - 1 else '_'} =>")
                    out += self.block(arm, ind + 8)
            elif k == "wh":
                out += [f"{sp}while c > {BIG} do"] + self.block(s[1], ind + 4)
            elif k == "fo":
                out += [f"{sp}for i in 0 .. 2 do"] + self.block(s[1], ind + 4)
            else:
                raise ValueError(s)
        return out


def render_ctor(body, fields, variant=0):
    lines = ['class E1: Exception("E1")', "class K0"]
    lines += [f"    def a{f}: Int" for f in fields]
    lines += ["    def __init__(self, c: Int) raise [E1] =>"] + CtorRender(variant).block(body, 8)
    lines += ["def o := K0(1)"] + [f"print(o.a{f})" for f in fields]
    return "\n".join(lines) + "\n"


def ctor_spec(body, fields, abrupt=True):
    """Flow specification.  A = fields definitely assigned on every path that reaches the point.
    issues: ("read", f) a field read that is not definitely assigned; ("exit", f) a normal exit of the constructor
    (end of body, `return`) that leaves a non-nullable field unassigned.  A `raise` exit owes nothing.
    abrupt=False treats return/raise as ordinary statements that complete (what a checker does that ignores
    abrupt completion): used only to name the cause of an over-rejection."""
    issues = []

    def blk(b, A):
        for s in b:
            if A is None:
                break                                   # unreachable
            k = s[0]
            if k == "fa":
                A = A | {s[1]}
            elif k == "fc":                             # read, then write
                if s[1] not in A:
                    issues.append(("read", s[1]))
                A = A | {s[1]}
            elif k == "fr":
                if s[1] not in A:
                    issues.append(("read", s[1]))
            elif k == "ret":
                issues.extend(("exit", f) for f in fields if f not in A)
                if abrupt:
                    A = None
            elif k == "rs":
                if abrupt:
                    A = None
            elif k == "if":
                blk(s[1], A)
            elif k == "ie":
                outs = [x for x in (blk(s[1], A), blk(s[2], A)) if x is not None]
                A = frozenset.intersection(*outs) if outs else None
            elif k == "mt":
                outs = [x for x in (blk(arm, A) for arm in s[1]) if x is not None]
                A = frozenset.intersection(*outs) if outs else None
            elif k in ("wh", "fo"):
                blk(s[1], A)
        return A

    end = blk(body, frozenset())
    if end is not None:
        issues.extend(("exit", f) for f in fields if f not in end)
    return issues


def ctor_shape(b):
    out = []
    for s in b:
        k = s[0]
        if k in ("fa", "fr"):
            out.append(f"{k}{s[1]}")
        elif k == "fc":
            out.append(f"fc{s[1]}{s[2]}")
        elif k in ("o", "ret", "rs"):
            out.append(k)
        elif k == "ie":
            out.append("ie{" + ctor_shape(s[1]) + "|" + ctor_shape(s[2]) + "}")
        elif k == "mt":
            out.append("mt{" + "|".join(ctor_shape(a) for a in s[1]) + "}")
        else:
            out.append(k + "{" + ctor_shape(s[1]) + "}")
    return ";".join(out)


FIELD_MSG = re.compile(r"^(Cannot access unassigned field |Non nullable attribute )")


def judge_ctor(body, fields, resp):
    """(status, what, cause): status in accept | reject-field | reject-other | outside."""
    st = resp[0]
    first = unhex(resp[2]).split("\x1e")[0] if st == "ERR" and len(resp) > 2 else ""
    issues = ctor_spec(body, fields)
    if st == "OK":
        reads = [i for i in issues if i[0] == "read"]
        if reads:
            return "accept", f"accepted although field a{reads[0][1]} is read before it is definitely assigned", \
                   "field-read-before-assignment"
        if issues:
            return "accept", f"accepted although the constructor can finish with field a{issues[0][1]} unassigned", \
                   "ctor-exit-leaves-field-unassigned"
        return "accept", None, None
    if st == "ERR" and resp[1] == "type" and FIELD_MSG.search(first):
        if not issues:
            lenient = ctor_spec(body, fields, abrupt=False)
            cause = "over-reject-field-branch-never-completes" if lenient else "over-reject-field"
            return "reject-field", "rejected although every field is assigned on all completing paths and every " \
                                   "read is preceded by an assignment: " + first.split("\n")[0], cause
        return "reject-field", None, None
    if st == "ERR" and resp[1] == "type":
        return "reject-other", None, None
    return "outside", None, None


CTOR_BRANCHES = [
    [("fa", 1)], [("o",)], [("ret",)], [("rs",)], [("if", [("ret",)])], [("if", [("ret",)]), ("o",)],
    [("if", [("rs",)]), ("o",)], [("if", [("fa", 1)])], [("if", [("ret",)]), ("fa", 1)], [("if", [("rs",)]), ("fa", 1)],
    [("o",), ("fa", 1)], [("fa", 1), ("ret",)], [("fa", 1), ("rs",)], [("o",), ("ret",)], [("o",), ("rs",)],
    [("ie", [("fa", 1)], [("fa", 1)])], [("ie", [("fa", 1)], [("ret",)])], [("ie", [("fa", 1)], [("rs",)])],
    [("ie", [("ret",)], [("rs",)])], [("wh", [("fa", 1)])], [("fo", [("fa", 1)])],
    [("mt", [[("fa", 1)], [("fa", 1)]])], [("mt", [[("fa", 1)], [("rs",)]])], [("mt", [[("o",)], [("fa", 1)]])],
    [("fr", 1)], [("fa", 1), ("fr", 1)],
    [("fc", 1, "+"), ("fa", 1)], [("fa", 1), ("fc", 1, "-")], [("fc", 1, "*")], [("fa", 1), ("fc", 1, "+"), ("fr", 1)],
    [("if", [("fc", 1, "-")]), ("fa", 1)],
]


def ctor_corpus(rng, quick):
    """prefix x (if/else | match | if | plain) over all pairs of branch shapes x suffix; plus a second field."""
    pre = [[], [("o",)], [("if", [("ret",)])], [("if", [("rs",)])], [("fo", [("o",)])]]
    suf = [[], [("fr", 1)], [("fa", 1), ("fr", 1)], [("fr", 1), ("fa", 1)]]
    B = CTOR_BRANCHES
    mains = [[("ie", a, b)] for a in B for b in B]
    mains += [[("if", a)] for a in B] + [list(a) for a in B]
    mains += [[("wh", a)] for a in B[:12]] + [[("fo", a)] for a in B[:12]]
    triples = [(a, b, c) for a in B for b in B for c in B]
    mains += [[("mt", list(t))] for t in (rng.sample(triples, 150 if quick else 3000))]
    allp = [(p + m + s_, (1,)) for m in mains for p in pre for s_ in suf]
    two = [([("fa", 2)] + m + [("fr", 2)] + s_, (1, 2)) for m in mains[:120] for s_ in suf[:2]]
    two += [(m + s_, (1, 2)) for m in mains[:60] for s_ in suf[:2]]
    # compound assignments: every placement of a compound assignment before / after the plain one is kept
    must = [(a + b + s_, (1,)) for op in "+-*" for a, b in
            (([("fc", 1, op)], [("fa", 1)]), ([("fa", 1)], [("fc", 1, op)]), ([("fc", 1, op)], []),
             ([("if", [("fa", 1)]), ("fc", 1, op)], [("fa", 1)]),
             ([("ie", [("fa", 1)], [("fa", 1)]), ("fc", 1, op)], []),
             ([("ie", [("fc", 1, op), ("fa", 1)], [("fa", 1)])], []),
             ([("ie", [("fa", 1), ("fc", 1, op)], [("fa", 1)])], []),
             ([("fo", [("fc", 1, op)])], [("fa", 1)]), ([("fa", 1), ("fo", [("fc", 1, op)])], []))
            for s_ in ([], [("fr", 1)])]
    must += [([("fa", 2), ("fc", 1, "+"), ("fa", 1)], (1, 2)), ([("fa", 1), ("fc", 2, "+"), ("fa", 2)], (1, 2)),
             ([("fa", 1), ("fa", 2), ("fc", 1, "*"), ("fc", 2, "-")], (1, 2))]
    if quick:
        allp = rng.sample(allp, 1100)
        two = rng.sample(two, 150)
    fixed = [([("ie", [("fa", 1)], [("if", [("ret",)]), ("o",)]), ("fr", 1)], (1,)),
             ([("ie", [("fa", 1)], [("if", [("rs",)]), ("o",)]), ("fr", 1)], (1,)),
             ([("ie", [("fa", 1)], [("fa", 1)]), ("fr", 1)], (1,)),
             ([("ie", [("fa", 1)], [("rs",)]), ("fr", 1)], (1,)),
             ([("ie", [("fa", 1)], [("ret",)]), ("fr", 1)], (1,)),
             ([("if", [("ret",)]), ("fa", 1), ("fr", 1)], (1,))]
    def wellformed(b):                     # `return` / `raise` end their block (the parser needs it for `return`)
        for i, x in enumerate(b):
            if x[0] in ("ret", "rs") and i != len(b) - 1:
                return False
            if x[0] in ("if", "wh", "fo") and not wellformed(x[1]):
                return False
            if x[0] == "ie" and not (wellformed(x[1]) and wellformed(x[2])):
                return False
            if x[0] == "mt" and not all(wellformed(a) for a in x[1]):
                return False
        return True

    seen, out = set(), []
    for b, f in fixed + must + allp + two:
        key = ctor_shape(b) + str(f)
        if key not in seen and wellformed(b):
            seen.add(key)
            out.append((b, f))
    return out


def run_ctor_family(ck, rep_cause, quick, variants=(0, 0xFFFF, 0x5A5A, 0x3C3C), only=None):
    """Evaluate the constructor family; `rep_cause(what, cause, text, data)` reports one candidate.
    Returns the coverage dictionary."""
    import collections
    cases = only if only is not None else ctor_corpus(ck.rng, quick)
    resp = transpile_all([render_ctor(b, f) for b, f in cases])
    st = collections.Counter()
    accepted = []
    for (b, f), r in zip(cases, resp):
        status, what, cause = judge_ctor(b, f, r)
        st[status] += 1
        if cause:
            rep_cause(what, cause, f"CAUSE:{cause} SHAPE:ctor[{ctor_shape(b)}]",
                      {"ctor_body": b, "fields": list(f), "mamba": render_ctor(b, f), "spec_issues": ctor_spec(b, f)})
        if status == "accept":
            accepted.append((b, f))
    # run the emitted Python of the accepted ones: a non-nullable field must never be seen as None
    jobs = [(b, f, v) for b, f in accepted for v in variants]
    resp = transpile_all([render_ctor(b, f, v) for b, f, v in jobs])
    py, keep = [], []
    for j, r in zip(jobs, resp):
        if r[0] == "OK":
            py.append(unhex(r[1]).split("\x1e")[0])
            keep.append(j)
    res = run_python(py)
    n_none, flagged = 0, set()
    outcomes = collections.Counter()
    for (b, f, v), src, (status, msg, out) in zip(keep, py, res):
        outcomes[status] += 1
        if ("None" in out or status == "AttributeError" or (status == "TypeError" and "NoneType" in msg)) \
                and ctor_shape(b) not in flagged:
            flagged.add(ctor_shape(b))
            n_none += 1
            issues = ctor_spec(b, f)
            cause = ("field-read-before-assignment" if any(i[0] == "read" for i in issues) else
                     "ctor-exit-leaves-field-unassigned" if issues else "runtime-unassigned-field")
            rep_cause(f"a non-nullable field is None / missing when read (python: {status} {msg} {out!r})", cause,
                      f"CAUSE:{cause} SHAPE:ctor[{ctor_shape(b)}]",
                      {"ctor_body": b, "fields": list(f), "variant": v, "mamba": render_ctor(b, f, v), "emitted": src})
    return {"programs": len(cases), "verdicts": dict(st), "python_runs": len(keep), "python_outcomes": dict(outcomes),
            "programs_with_unassigned_field_at_run_time": n_none}


# ------------------------------------------------------------------------------------------------
# lambdas as a call position (C08).  NOT part of model/Scope.v (the skeleton has no anonymous functions):
# judged by the lexical guard specification below and by executing the emitted Python only.
# A case = (hierarchy, R raised by f1, position of the lambda, protection (kind, A)).
# ------------------------------------------------------------------------------------------------
LAMBDA_POSITIONS = ["arg", "init", "nested", "arith", "branch", "method", "loop", "toplevel"]
LAMBDA_PROTECTIONS = ["none", "declared", "handled", "handled-outer"]


def render_lambda(tb, R, pos, prot, A):
    """f1 raises R; the function (or method) g contains a lambda whose body calls f1."""
    lam = "\\y: Int => f1(y)"
    dec = f" raise [{cname(A)}]" if prot == "declared" else ""
    call = {"arg": f"apply({lam}, x)", "nested": f"apply(\\y: Int => apply(\\z: Int => f1(z), y), x)",
            "arith": "apply(\\y: Int => f1(y) + 1, x)"}.get(pos, f"apply({lam}, x)")
    body = []
    if pos == "init":
        body = [f"def h := {lam}"]
        call = "apply(h, x)"
    if prot == "handled":
        core = [f"def r := {call} handle", f"    err: {cname(A)} => 0", "return r"]
        if pos == "init":                                  # the lambda itself sits under the handle as well
            core = [f"def r := apply({lam}, x) handle", f"    err: {cname(A)} => 0", "return r"]
            body = []
    else:
        core = [f"return {call}"]
    if pos == "branch":
        core = [f"if x > {-BIG} then"] + ["    " + l for l in core] + ["return 0"]
    if pos == "loop":
        core = [f"for i in 0 .. 1 do", f"    print({call})" if prot != "handled" else "    print(0)"] + core
    lines = [prelude(tb).split("class C0")[0].rstrip("\n"),
             "def apply(fn: Int -> Int, x: Int) -> Int => fn(x)",
             f"def f1(y: Int) -> Int raise [{cname(R)}] => raise {cname(R)}()"]
    if pos == "toplevel":
        lines += [f"print(apply({lam}, 1))"]
        return "\n".join(lines) + "\n"
    if pos == "method":
        lines += ["class K1", f"    def g(self, x: Int) -> Int{dec} =>"] + ["        " + l for l in body + core]
        use = "K1().g(1)"
    else:
        lines += [f"def g(x: Int) -> Int{dec} =>"] + ["    " + l for l in body + core]
        use = "g(1)"
    if prot == "handled-outer":                            # handled at the CALL of g: does not protect g's body
        lines += [f"def w := {use} handle", f"    err: {cname(A)} => 0", "print(w)"]
    else:
        lines += [f"print({use})"]
    return "\n".join(lines) + "\n"


def lambda_cases(quick, rng):
    out = []
    for h in HIERARCHIES:
        tb = Tables(h)
        excs = [c for c in tb.ct if tb.is_exc(c)]
        for R in [c for c in excs if c != 0]:
            for pos in LAMBDA_POSITIONS:
                if pos == "toplevel":
                    out.append((tb, R, pos, "none", 0))
                    continue
                out.append((tb, R, pos, "none", 0))
                for prot in LAMBDA_PROTECTIONS[1:]:
                    for A in excs:
                        out.append((tb, R, pos, prot, A))
    if quick:
        keep = [c for c in out if c[3] == "none"]
        rest = [c for c in out if c[3] != "none"]
        out = keep + rng.sample(rest, min(len(rest), 420))
    return out


def run_lambda_family(ck, rep_cause, quick):
    import collections
    cases = lambda_cases(quick, ck.rng)
    srcs = [render_lambda(*c) for c in cases]
    resp = transpile_all(srcs)
    st, py, keep = collections.Counter(), [], []
    for (tb, R, pos, prot, A), src, r in zip(cases, srcs, resp):
        iv, msg = impl_verdict(r)
        guarded = pos == "toplevel" or (prot in ("declared", "handled") and A in tb.ancestors(R))
        text = f"CAUSE:{{}} SHAPE:lambda[{pos};{prot}]"
        data = {"lambda_case": [sorted(tb.ct.items()), R, pos, prot, A], "mamba": src, "implementation": iv,
                "message": msg}
        if iv == "VAccept":
            st["accept"] += 1
            if not guarded:
                rep_cause(f"accepted although the call of f1 (raise [{cname(R)}]) inside the lambda is neither handled "
                          f"nor declared by the enclosing function", "unguarded-call-in-lambda",
                          text.format("unguarded-call-in-lambda"), data)
            else:
                py.append(unhex(r[1]).split("\x1e")[0])
                keep.append((tb, R, pos, prot, A, src))
        elif iv == "VReject KUnhandled":
            st["reject-unhandled"] += 1
            if guarded:
                rep_cause("rejected as unhandled although the lambda's call is guarded by an ancestor class",
                          "over-reject-unhandled-lambda", text.format("over-reject-unhandled-lambda"), data)
        else:
            st["outside:" + iv] += 1
    # the accepted ones: the handler really catches (prints 0), a declared raise propagates as R
    res = run_python(py)
    wrong = 0
    for (tb, R, pos, prot, A, src), emitted, (status, msg, out) in zip(keep, py, res):
        if prot == "handled":
            ok = status == "ok" and out.strip().split("\n")[-1] == "0"
        else:
            ok = status == cname(R)
        if not ok:
            wrong += 1
            rep_cause(f"emitted Python of an accepted lambda case behaves differently: {status} {msg} {out!r}",
                      "lambda-runtime", f"CAUSE:lambda-runtime SHAPE:lambda[{pos};{prot}]",
                      {"mamba": src, "emitted": emitted})
    outside = sum(v for k, v in st.items() if k.startswith("outside"))
    if outside > len(cases) // 20:
        ck.broken.append({"kind": "generator", "where": "lambda family: programs rejected for other reasons",
                          "count": outside, "verdicts": dict(st)})
    return {"programs": len(cases), "verdicts": dict(st), "python_runs": len(keep), "python_wrong": wrong,
            "note": "anonymous functions are not part of model/Scope.v: judged by the lexical guard rule and by "
                    "running the emitted Python"}
