"""C11 - the annotate option is semantically inert.

proof        : props/C11.v over model/Convert.v (simulation between the two runs of conv)
tie          : names table regenerated; `gen` correspondence (typed AST -> Core) for both flags
direct oracle: python3 ast of both emitted files with annotations and typing imports erased; same verdict
"""
import ast, json

from .common import Check, build_driver, build_harness, hexs, unhex, run_sharded, MH
from . import convcorr


class _Erase(ast.NodeTransformer):
    def visit_AnnAssign(self, n):
        self.generic_visit(n)
        if n.value is None:
            return None        # a bare annotation `x: T` binds nothing at run time: erasing it leaves no statement
        return ast.Assign(targets=[n.target], value=n.value, lineno=0, col_offset=0)

    def visit_FunctionDef(self, n):
        self.generic_visit(n)
        n.returns = None
        for a in n.args.args + n.args.kwonlyargs + n.args.posonlyargs:
            a.annotation = None
        if n.args.vararg:
            n.args.vararg.annotation = None
        if n.args.kwarg:
            n.args.kwarg.annotation = None
        return n

    def visit_Lambda(self, n):
        self.generic_visit(n)
        return n

    def visit_ImportFrom(self, n):
        return None if n.module == "typing" else n


def erased(py):
    """Canonical dump of a module with annotations and typing imports erased; None if not parseable."""
    try:
        t = ast.parse(py)
    except SyntaxError:
        return None
    t = _Erase().visit(t)
    # a body that became empty through erasure
    ast.fix_missing_locations(t)
    return ast.dump(t)


def run(tier, replay=None):
    ck = Check("C11", tier)
    quick = tier == "quick"
    ck.proof(["props/C11.vo"], "props.C11", ["C11_verdict", "C11_erase", "C11_module"], translators=["names"])
    build_driver(ck.log)
    build_harness(ck.log)
    if replay:
        cases = [convcorr.Case(json.load(open(replay))["input"], "replay")]
    else:
        cases = convcorr.programs(ck.rng, 250 if quick else 2000)
    convcorr.run(cases)
    # verdict and output through the public pipeline as well
    tr = {a: run_sharded(MH, [f"t{i}\ttranspile\t{a}\t{hexs(c.src)}" for i, c in enumerate(cases)]) for a in "01"}

    n_pairs = agree = 0
    corr_bad, samples = [], []
    unparse = 0
    for i, c in enumerate(cases):
        r0, r1 = tr["0"].get(f"t{i}", ["MISSING"]), tr["1"].get(f"t{i}", ["MISSING"])
        v0, v1 = r0[0], r1[0]
        if v0 != v1 or (v0 == "ERR" and r0[1] != r1[1]):
            p = ck.write_replay("verdict", {"input": c.src, "annotate_off": r0[:2], "annotate_on": r1[:2]})
            ck.violation("verdict depends on the annotate option", p, c.src)
            continue
        if v0 != "OK":
            continue
        n_pairs += 1
        e0, e1 = erased(unhex(r0[1])), erased(unhex(r1[1]))
        if e0 is None or e1 is None:
            unparse += 1        # invalid Python is C02's business; compare the Core trees instead
        elif e0 != e1:
            p = ck.write_replay("oracle", {"input": c.src, "annotate_off": unhex(r0[1]), "annotate_on": unhex(r1[1])})
            ck.violation("outputs differ beyond annotations", p, c.src)
        for a in "01":
            st = c.status.get(a)
            if st == "agree":
                agree += 1
            elif st == "disagree":
                corr_bad.append((c.src, a, c.impl[a][0], c.model.get(a)))
        if len(samples) < 3 and c.kind == "generated" and "def f" in c.src:
            samples.append({"source": c.src[:300], "annotate_on": unhex(r1[1])[:300]})
    if corr_bad:
        ck.broken.append({"kind": "correspondence", "where": "gen endpoint: Convert.conv vs generate::convert",
                          "count": len(corr_bad), "examples": [list(map(str, x))[:4] for x in corr_bad[:2]]})
    ck.cov.update({
        "evaluations": 2 * len(cases), "distinct_nontrivial": n_pairs,
        "rule": "generated core-language programs (no classes), hand-written programs for rarely generated "
                "constructs and every repository sample, each transpiled with annotate off and on; non-trivial = "
                "accepted under both settings",
        "traces_validated_against_impl": agree,
        "model_status": convcorr.summary(cases),
        "outputs_not_parseable_as_python": unparse,
        "samples": samples or [{"source": cases[0].src[:200]}],
        "trusted_base": [
            "Coq 8.16.1 kernel; no axioms (Print Assumptions: Closed under the global context)",
            "hand model model/Convert.v of src/generate/convert/*.rs, generate/name.rs, generate/mod.rs (class "
            "definitions, dictionaries, builders, with-statements and types named Union are outside the model), "
            "compared with the implementation on every case (typed AST in, Core out)",
            "translator translate/names.py (Mamba->Python name table, dunder names)",
            "lib/vlib/rustdebug.py + astsx.py: reading the Debug dumps of ASTTy and Core; union members are put in "
            "name order",
            "python3 ast for the direct oracle; extraction ExtrOcamlBasic/ExtrOcamlString + driver.ml",
        ],
    })
    ck.assumptions += ["the checker (which produces the typed AST) does not read the annotate flag: "
                       "mamba_to_python passes it to the generation stage only (src/lib.rs), checked by the verdict oracle"]
    return ck.finish()
