"""C14 - layout trivia never changes meaning: comments, blank lines, CRLF, spaces, redundant parentheses.

proof        : props/C14.v over model/Lex.v + model/Trivia.v: lexer-level invariance theorems for whole runs
               (CRLF, blanks before a line break, a comment at the end of a line, a final line break, a blank or
               whitespace-only line); what is not proved (comment-only lines, parser and later stages) is listed
               as C14_partial in the header of props/C14.v
tie          : `lex` correspondence (hook vs extracted Lex.tokenize) on every edited text, byte for byte; the token
               relations the theorems state are evaluated on the IMPLEMENTATION's tokens of every original/edited pair
direct oracle: metamorphic, through `transpile` with both annotate settings: original and edited program must have
               the same verdict and byte-identical Python (AST-identical for the redundant-parentheses edit)
"""
import ast, glob, json, os, re

from .common import Check, build_driver, build_harness, hexs, unhex, run_sharded, DRIVER, MH, REPO
from . import gen
from .c18 import parse_lex

COMMENT = "# note"
SYNTH = {"NL", "Indent", "Dedent", "Eof"}

# hand-made shapes: every block form of the grammar with arms / else / handle, nested
SHAPES = [
    # match as statement, nested in a function, followed by a dedent
    "def f(x: Int) -> Int =>\n    match x\n        1 => print(1)\n        2 => print(2)\n        _ => print(3)\n    return x\n\nprint(f(2))\n",
    # if / else, nested
    "def a := 3\nif a > 2 then\n    print(a)\n    if a > 5 then\n        print(5)\n    else\n        print(6)\nelse\n    print(0)\nprint(a)\n",
    # handle
    "class MyErr(def msg: Str): Exception(msg)\n\ndef g(x: Int) -> Int raise [MyErr] =>\n    if x > 2 then\n        raise MyErr(\"big\")\n    return x\n\ndef r := g(1) handle\n    err: MyErr => 0\n    err2: Exception => 1\nprint(r)\n",
    # match as expression in a definition, last thing in the file
    "def x := 2\ndef y := match x\n    1 => \"one\"\n    2 => \"two\"\n    _ => \"many\"\n",
    # while / for / class with methods
    "class C(def v: Int)\n    def inc(self, d: Int) -> Int =>\n        return self.v + d\n    def get(self) -> Int =>\n        return self.v\n\ndef c := C(1)\ndef i := 0\nwhile i < 2 do\n    print(c.inc(i))\n    i := i + 1\nfor j in 0 .. 3 do\n    print(j)\n",
    # one-line if else, then with else on the next line
    "def a := 1\ndef b := if a > 0 then 1 else 2\nif a > 0 then print(1)\nelse print(2)\nprint(b)\n",
    # strings, interpolation, trailing comment already present, blank lines present
    "def s := \"a{1 + 2}b\" # first\n\n# whole line\ndef t := \"x\"\n\n\nprint(s)\nprint(t)\n",
    # prefix operators spelled as words; type with conditions
    "def l := 4.0\ndef n := sqrt l\nprint(n)\nprint(sqrt l)\n",
    "class MyClass(def f: Int)\n    def g: Int := 3\n\ntype St: MyClass when\n    self.f > 1\n    self.g < 5\n\ndef x := MyClass(2)\nprint(x.f)\n",
    # deep dedent at end of file without final newline
    "def f(x: Int) -> Int =>\n    if x > 1 then\n        if x > 2 then\n            return 3\n    return x\nprint(f(3))",
]


# ------------------------------------------------------------------------------------------------
# program text as lines
# ------------------------------------------------------------------------------------------------

class Prog:
    def __init__(self, text):
        self.text = text
        self.final_nl = text.endswith("\n")
        body = text[:-1] if self.final_nl else text
        self.lines = body.split("\n") if text != "" else []

    def render(self, lines, final_nl=None):
        fn = self.final_nl if final_nl is None else final_nl
        return "\n".join(lines) + ("\n" if fn and lines else "")


def indent_of(line):
    return len(line) - len(line.lstrip(" "))


def is_blank(line):
    return line.strip(" ") == ""


def is_comment_line(line):
    return line.lstrip(" ").startswith("#")


def neighbour(lines, i, step, skip_comments=True):
    """nearest non-blank (non-comment) line index from boundary i going up (step -1, starts at i-1) or down"""
    j = i - 1 if step < 0 else i
    while 0 <= j < len(lines):
        if not is_blank(lines[j]) and not (skip_comments and is_comment_line(lines[j])):
            return j
        j += step
    return None


def block_kind(h):
    """kind of the arm block a header line opens: match / handle / condition (type ... when), else None"""
    h = h.split("#")[0].rstrip() if '"' not in h else h.rstrip()
    if re.search(r"\bhandle$", h):
        return "handle"
    if re.search(r"\bwhen$", h):
        return "condition"
    if re.search(r"\bmatch\b(?!.*=>)", h) and not re.search(r"(=>|\bthen|\bdo|\belse)$", h):
        return "match"
    return None


def header_index(lines, j):
    """the nearest line above j with smaller indentation"""
    ind = indent_of(lines[j])
    k = j - 1
    while k >= 0:
        if not is_blank(lines[k]) and not is_comment_line(lines[k]) and indent_of(lines[k]) < ind:
            return k
        k -= 1
    return None


def arm_of(lines, j):
    """kind of arm block line j is a direct child of, else None"""
    h = header_index(lines, j)
    return block_kind(lines[h].strip()) if h is not None else None


def context(lines, i):
    """syntactic context of boundary i (between line i-1 and line i)"""
    p, n = neighbour(lines, i, -1), neighbour(lines, i, +1)
    if n is None:
        return "eof"
    if p is None:
        return "bof"
    P, N = lines[p].strip(), lines[n].strip()
    ip, inn = indent_of(lines[p]), indent_of(lines[n])
    last_arm = arm_of(lines, p) if inn < ip else None
    if N.startswith("else"):
        return "before-else" + (f"+after-last-{last_arm}-arm" if last_arm else "")
    if inn > ip:
        k = block_kind(P)
        return f"before-first-{k}-arm" if k else "after-block-head"
    kn = arm_of(lines, n)
    if kn:
        return f"between-{kn}-arms"
    if last_arm:
        return f"after-last-{last_arm}-arm"
    if inn < ip:
        return "before-dedent"
    return "between-statements"


def string_lines(toks):
    """0-based indices of lines whose line break lies inside a string token"""
    bad = set()
    for t in toks:
        if t[0] in ("Str", "DocStr"):
            extra = t[1].count(b"\n")
            for l in range(t[2], t[2] + max(extra, t[4] - t[2])):
                bad.add(l - 1)
    return bad


# ------------------------------------------------------------------------------------------------
# edits: each is (kind, context, [op ..]); ops act on the line list of the original
#   ("suffix", i, s) | ("replace", i, line) | ("insert", i, line) | ("delete", i) | ("final", "add"|"remove") | ("crlf",)
# ------------------------------------------------------------------------------------------------

def apply_ops(prog, ops):
    lines, final_nl = list(prog.lines), prog.final_nl
    for op in ops:
        if op[0] == "suffix":
            lines[op[1]] = lines[op[1]] + op[2]
        elif op[0] == "replace":
            lines[op[1]] = op[2]
    for op in sorted((o for o in ops if o[0] in ("insert", "delete")), key=lambda o: -o[1]):
        if op[0] == "insert":
            lines.insert(op[1], op[2])      # at the end of a text without final newline: after a line break
        else:
            del lines[op[1]]
    text = "\n".join(lines) + ("\n" if final_nl and lines else "")
    for op in ops:
        if op == ("final", "add"):
            text += "\n"
        elif op == ("final", "remove") and text.endswith("\n"):
            text = text[:-1]
    if ("crlf",) in ops:
        text = text.replace("\n", "\r\n")
    return text


def trivia_edits(prog, toks):
    lines, n = prog.lines, len(prog.lines)
    inside = string_lines(toks)
    out = []
    # edits at the end of a line
    for i, ln in enumerate(lines):
        if i in inside or is_blank(ln):
            continue
        ctx = "line:" + context(lines, i + 1)
        out.append(("trailing-comment", ctx, [("suffix", i, "  " + COMMENT)]))
        out.append(("trailing-spaces", ctx, [("suffix", i, "   ")]))
    # whole lines inserted at a boundary
    for i in range(n + 1):
        if i > 0 and (i - 1) in inside:
            continue
        ctx = context(lines, i)
        # "the neighbouring statement": the nearest non-blank line; when that is itself a comment line the new
        # line takes its indentation (a comment deeper than a comment that already closed the block is not an
        # edit the property speaks about)
        p, nx = neighbour(lines, i, -1, False), neighbour(lines, i, +1, False)
        ind_p = indent_of(lines[p]) if p is not None else 0
        ind_n = indent_of(lines[nx]) if nx is not None else 0
        out.append(("comment-like-next", ctx, [("insert", i, " " * ind_n + COMMENT)]))
        if ind_p != ind_n:
            out.append(("comment-like-prev", ctx, [("insert", i, " " * ind_p + COMMENT)]))
        out.append(("blank", ctx, [("insert", i, "")]))
        out.append(("ws-like-next", ctx, [("insert", i, " " * ind_n if ind_n else "    ")]))
        if ind_p != ind_n and ind_p:
            out.append(("ws-like-prev", ctx, [("insert", i, " " * ind_p)]))
        out.append(("ws-unaligned", ctx, [("insert", i, "   ")]))
    # final newline, line endings
    if n:
        if prog.final_nl:
            out.append(("final-newline-removed", "eof", [("final", "remove")]))
        out.append(("final-newline-added", "eof", [("final", "add")]))
        if not inside:
            out.append(("crlf", "all", [("crlf",)]))
    # removals of trivia that is already there
    for i, ln in enumerate(lines):
        if i in inside or (i > 0 and (i - 1) in inside):
            continue
        if is_blank(ln):
            out.append(("blank-removed", context(lines, i), [("delete", i)]))
        elif is_comment_line(ln):
            p, nx = neighbour(lines, i, -1, False), neighbour(lines, i + 1, +1, False)
            inds = {indent_of(lines[j]) for j in (p, nx) if j is not None} or {0}
            if indent_of(ln) in inds:
                out.append(("comment-removed", context(lines[:i] + lines[i + 1:], i), [("delete", i)]))
        elif ln != ln.rstrip(" "):
            out.append(("trailing-spaces-removed", "line:" + context(lines, i + 1), [("replace", i, ln.rstrip(" "))]))
    for t in toks:
        if t[0] == "Comment" and t[2] - 1 < n and t[2] - 1 not in inside:
            ln = lines[t[2] - 1]
            if not is_comment_line(ln):
                out.append(("trailing-comment-removed", "line:" + context(lines, t[2]),
                            [("replace", t[2] - 1, ln[:t[3] - 1].rstrip(" "))]))
    return out


def combo_edits(prog, edits, rng, count):
    """several additive edits at once (thorough tier)"""
    adds = [e for e in edits if e[2][0][0] in ("suffix", "insert")]
    extra = [e for e in edits if e[0] in ("crlf", "final-newline-added")]
    out = []
    for _ in range(count):
        if len(adds) < 2:
            break
        picked, used = [], set()
        for e in rng.sample(adds, min(len(adds), rng.randint(2, 6))):
            key = e[2][0][:2]
            if key not in used:
                used.add(key)
                picked.append(e)
        picked += [e for e in extra if rng.random() < 0.3]
        out.append(("combo", "+".join(sorted({e[1] for e in picked})), [op for e in picked for op in e[2]],
                    [(e[0], e[1], e[2]) for e in picked]))
    return out


OPENERS = {"LRBrack": "RRBrack", "LSBrack": "RSBrack", "LCBrack": "RCBrack"}
LITERALS = {"Int", "Real", "ENum", "Str"}
BLOCK_TAIL = {"BTo", "Then", "Do", "Handle", "Else", "DoublePoint", "Match"}


def paren_edits(prog, toks):
    """wrap an operand / argument / initialiser / already parenthesised group in one more pair of ( )"""
    lines = prog.lines
    inside = string_lines(toks)
    top = [t for t in toks if not t[0].startswith("Str.") and t[0] not in SYNTH and t[0] != "Comment"]
    by_line = {}
    for t in top:
        by_line.setdefault(t[2], []).append(t)
    out = []

    def wrap(lno, c0, c1, what):
        ln = lines[lno - 1]
        new = ln[:c0 - 1] + "(" + ln[c0 - 1:c1 - 1] + ")" + ln[c1 - 1:]
        first_kind = next((x[0] for x in by_line[lno] if x[3] == c0), "?")
        out.append(("paren-" + what, "expr-starts:" + first_kind, [("replace", lno - 1, new)]))

    for lno, ts in sorted(by_line.items()):
        if lno - 1 in inside or (lno >= 2 and lno - 2 in inside) or lno > len(lines):
            continue
        if any(t[2] != t[4] for t in ts):
            continue
        first = ts[0][0]
        if first in ("Class", "Type", "From", "Import"):
            continue
        is_fun_def = first == "Def" and any(t[0] in ("BTo", "To") for t in ts)
        # bracket matching on this line
        match, stack, ok = {}, [], True
        for k, t in enumerate(ts):
            if t[0] in OPENERS:
                stack.append(k)
            elif t[0] in OPENERS.values():
                if not stack or OPENERS[ts[stack[-1]][0]] != t[0]:
                    ok = False
                    break
                match[stack.pop()] = k
        if not ok or stack:
            continue
        depth_at, d = [], 0
        for k, t in enumerate(ts):
            if t[0] in OPENERS.values():
                d -= 1
            depth_at.append(d)
            if t[0] in OPENERS:
                d += 1
        arm = any(t[0] == "BTo" for t in ts) and not is_fun_def
        bto = next((k for k, t in enumerate(ts) if t[0] == "BTo"), None)
        for k, t in enumerate(ts):
            in_pattern = arm and bto is not None and k < bto
            if is_fun_def and (bto is None or k < bto):
                continue            # signature: parameters, types, defaults
            if t[0] in LITERALS and not in_pattern:
                wrap(lno, t[3], t[5], "literal")
            if t[0] == "LRBrack" and k in match and match[k] > k + 1 and not in_pattern:
                prev = ts[k - 1] if k > 0 else None
                adjacent = prev is not None and prev[5] == t[3] and prev[0] in ("Id", "RRBrack", "RSBrack")
                inner = range(k + 1, match[k])
                commas = [j for j in inner if ts[j][0] == "Comma" and depth_at[j] == depth_at[k] + 1]
                if adjacent and prev[0] == "Id" and not (k >= 2 and ts[k - 2][0] in ("Def", "Class")):
                    # call arguments
                    bounds = [k] + commas + [match[k]]
                    for a, b in zip(bounds, bounds[1:]):
                        if b > a + 1 and not any(ts[j][0] in ("Assign", "DoublePoint", "BTo", "Def", "Vararg") and
                                                 depth_at[j] == depth_at[k] + 1 for j in range(a + 1, b)):
                            wrap(lno, ts[a + 1][3], ts[b - 1][5], "argument")
                elif not adjacent and not commas:
                    wrap(lno, t[3], ts[match[k]][5], "group")
        # initialiser
        assign = [k for k, t in enumerate(ts) if t[0] == "Assign" and depth_at[k] == 0]
        nxt = neighbour(lines, lno, +1)
        if (len(assign) == 1 and assign[0] + 1 < len(ts) and ts[-1][0] not in BLOCK_TAIL and not is_fun_def
                and not any(t[0] in ("Handle", "Match") for t in ts)
                and (nxt is None or indent_of(lines[nxt]) <= indent_of(lines[lno - 1]))):
            wrap(lno, ts[assign[0] + 1][3], ts[-1][5], "initialiser")
    return out


# ------------------------------------------------------------------------------------------------
# what the lexer-level theorems say, evaluated on the implementation's tokens
# ------------------------------------------------------------------------------------------------

def tok_eqv(a, b):
    """same token and nesting; identical span unless synthetic (Coq: tok_eqv)"""
    if a[0] == b[0] == "Comment":       # blanks after a comment belong to the comment (outside the theorem)
        return a[2:4] == b[2:4] and a[1].rstrip(b" ") == b[1].rstrip(b" ")
    return a[0] == b[0] and a[1] == b[1] and (a[0].replace("Str.", "") in SYNTH or a == b)


def lists_eqv(x, y):
    return len(x) == len(y) and all(tok_eqv(a, b) for a, b in zip(x, y))


def kinds_norm(toks):
    return [(t[0], t[1]) for t in toks if t[0] != "Comment"]


def one_more(x, y, pred):
    """y is x with exactly one extra element satisfying pred (elements compared with ==)"""
    if len(y) != len(x) + 1:
        return False
    i = 0
    while i < len(x) and x[i] == y[i]:
        i += 1
    return pred(y[i]) and x[i:] == y[i + 1:]


def nl_drop(ks):
    """the filter of the proposed repair (Coq: nl_drop None): an NL after an NL or an Indent is dropped"""
    out = []
    for k in ks:
        if k[0] == "NL" and out and out[-1][0] in ("NL", "Indent"):
            continue
        out.append(k)
    return out


def lex_relation(kind, base, edit, ctx=""):
    """None if the relation the Coq theorem states holds between the implementation's token lists"""
    if kind == "crlf":
        return None if base == edit else "crlf_same: tokens differ"
    if kind in ("trailing-spaces", "trailing-spaces-removed", "final-newline-added", "final-newline-removed"):
        return None if lists_eqv(base, edit) else f"{kind}: token lists are not tok_eqv"
    if kind in ("trailing-comment", "trailing-comment-removed"):
        small, big = (base, edit) if kind == "trailing-comment" else (edit, base)
        sk, bk = [(t[0], t[1]) for t in small], [(t[0], t[1]) for t in big]
        if len(bk) == len(sk):      # the line already ended in a comment: that comment got longer
            diff = [i for i in range(len(sk)) if sk[i] != bk[i]]
            return None if len(diff) == 1 and sk[diff[0]][0] == "Comment" else "trailing comment: more than the comment changed"
        return None if one_more(sk, bk, lambda t: t[0] == "Comment") else "trailing_comment: not exactly one more Comment"
    if kind in ("blank", "ws-like-next", "ws-like-prev", "ws-unaligned", "blank-removed",
                "comment-like-next", "comment-like-prev", "comment-removed"):
        small, big = (edit, base) if kind.endswith("removed") else (base, edit)
        sk, bk = kinds_norm(small), kinds_norm(big)
        if kind in ("blank", "ws-like-next", "ws-like-prev", "ws-unaligned", "blank-removed"):
            # C14_blank_line_norm: unchanged, or exactly one more NL; C14_blank_line_repaired (not at the very
            # beginning of the text, where the theorem's hypotheses do not hold)
            if not (sk == bk or one_more(sk, bk, lambda t: t[0] == "NL")):
                return f"{kind}: C14_blank_line_norm does not hold of the implementation's tokens"
            if ctx != "bof" and nl_drop(sk) != nl_drop(bk):
                return f"{kind}: C14_blank_line_repaired does not hold of the implementation's tokens"
            return None
        # observed, not proved: one more NL; two when the line is the last one (the NL pending at the end of
        # input is dropped, a comment line there hands it out)
        if [t for t in sk if t[0] != "NL"] == [t for t in bk if t[0] != "NL"] and len(bk) - len(sk) in (0, 1, 2):
            return None
        return f"{kind}: more than two NL tokens added or another token changed (comments aside)"
    return None


# ------------------------------------------------------------------------------------------------

def py_same(a, b):
    if a == b:
        return True
    try:
        return ast.dump(ast.parse(a)) == ast.dump(ast.parse(b))
    except (SyntaxError, ValueError, RecursionError):
        return False


def sample_files():
    fs = sorted(glob.glob(os.path.join(REPO, "tests/resource/valid/**/*.mamba"), recursive=True))
    res = []
    for f in fs:
        try:
            t = open(f, encoding="utf-8").read()
        except Exception:
            continue
        if "\r" in t or t.strip() == "":
            continue
        res.append((os.path.relpath(f, REPO), t))
    return res


BATCH = 4000
TIMED_OUT = []          # batches whose harness processes did not answer in time (reported in the evidence)


def sharded_batches(binary, lines, per_item=1):
    """run_sharded in batches, so that the per-process time limit does not depend on the tier's size"""
    import subprocess
    raw = {}
    step = BATCH * per_item
    for k in range(0, len(lines), step):
        part = lines[k:k + step]
        if len(lines) > step:
            print(f"[C14] {os.path.basename(binary)}: batch {k // step + 1} of {-(-len(lines) // step)}", flush=True)
        try:
            raw.update(run_sharded(binary, part, shards=16, timeout=2400))
        except subprocess.TimeoutExpired:
            TIMED_OUT.append((os.path.basename(binary), k, len(part)))
    return raw


def transpile_all(texts):
    """{text: (res0, res1)} with res = ('OK', python) | ('ERR', stage) | (other, detail)"""
    uniq = list(dict.fromkeys(texts))
    lines = []
    for i, t in enumerate(uniq):
        lines.append(f"t{i}a0\ttranspile\t0\t{hexs(t)}")
        lines.append(f"t{i}a1\ttranspile\t1\t{hexs(t)}")
    raw = sharded_batches(MH, lines, per_item=2)

    def dec(r):
        if r is None:
            return ("MISSING", "")
        if r[0] == "OK":
            return ("OK", unhex(r[1]) if len(r) > 1 else "")
        if r[0] == "ERR":
            return ("ERR", r[1])
        return (r[0], " ".join(r[1:])[:200])
    return {t: (dec(raw.get(f"t{i}a0")), dec(raw.get(f"t{i}a1"))) for i, t in enumerate(uniq)}


def lex_all(binary, texts):
    uniq = list(dict.fromkeys(texts))
    raw = sharded_batches(binary, [f"l{i}\tlex\t{hexs(t)}" for i, t in enumerate(uniq)])
    return {t: raw.get(f"l{i}", ["MISSING"]) for i, t in enumerate(uniq)}


def judge(kind, b, e):
    """b, e: (result annotate off, result annotate on) of original and edited text -> what differs, or None"""
    paren = kind.startswith("paren")
    for a in (0, 1):
        if e[a][0] not in ("OK", "ERR") or b[a][0] not in ("OK", "ERR"):
            continue      # crash / panic: C03
        if b[a][0] != e[a][0]:
            return f"verdict changed (annotate={a}): {b[a][0]} -> {e[a][0]} {e[a][1][:60] if e[a][0] != 'OK' else ''}".rstrip()
        if b[a][0] == "OK" and (not py_same(b[a][1], e[a][1]) if paren else b[a][1] != e[a][1]):
            return f"emitted Python changed (annotate={a})"
    return None


def selftest():
    """the oracle on hand-made outcomes: it must see what it is there to see"""
    ok, err = ("OK", "x = 1\n"), ("ERR", "parse")
    T = lambda *x: tuple(x)
    nl = lambda l, c: ("NL", b"", l, c, l, c + 1)
    idt = lambda s, l, c: ("Id", s, l, c, l, c + len(s))
    base = [idt(b"a", 1, 1), nl(1, 2), idt(b"b", 2, 1), ("Eof", b"", 2, 3, 2, 3)]
    moved = [idt(b"a", 1, 1), nl(1, 5), idt(b"b", 2, 1), ("Eof", b"", 2, 3, 2, 3)]
    shifted = [idt(b"a", 1, 1), nl(1, 2), idt(b"b", 2, 2), ("Eof", b"", 2, 4, 2, 4)]
    checks = [
        judge("blank", T(ok, ok), T(ok, ok)) is None,
        judge("blank", T(ok, ok), T(err, err)) is not None,
        judge("blank", T(ok, ok), T(ok, err)) is not None,
        judge("blank", T(err, err), T(ok, ok)) is not None,
        judge("blank", T(ok, ok), T(("OK", "x = 2\n"), ok)) is not None,
        judge("blank", T(ok, ok), T(("OK", "x = (1)\n"), ok)) is not None,
        judge("paren-literal", T(ok, ok), T(("OK", "x = (1)\n"), ok)) is None,
        judge("paren-literal", T(ok, ok), T(("OK", "x = (1,)\n"), ok)) is not None,
        lex_relation("crlf", base, base) is None and lex_relation("crlf", base, moved) is not None,
        lex_relation("trailing-spaces", base, moved) is None and lex_relation("trailing-spaces", base, shifted) is not None,
        lex_relation("trailing-comment", base, base[:1] + [("Comment", b" c", 1, 3, 1, 6)] + moved[1:]) is None,
        lex_relation("trailing-comment", base, base[:1] + [idt(b"c", 1, 3)] + moved[1:]) is not None,
        lex_relation("blank", base, base[:2] + [nl(2, 1)] + base[2:]) is None,
        lex_relation("blank", base, base[:2] + [("Indent", b"", 2, 1, 2, 5)] + base[2:]) is not None,
    ]
    return [i for i, c in enumerate(checks) if not c]


def run(tier, replay=None):
    ck = Check("C14", tier)
    quick = tier == "quick"
    rng = ck.rng
    ck.proof(["props/C14.vo"], "props.C14",
             ["C14_tokenize_total", "C14_crlf_same", "C14_trailing_spaces", "C14_trailing_spaces_norm",
              "C14_trailing_comment", "C14_trailing_comment_norm", "C14_final_newline", "C14_final_newline_norm",
              "C14_blank_line", "C14_blank_line_norm", "C14_blank_line_repaired",
              "C14_comment_after_token", "C14_comment_after_token_norm",
              "C14_blank_line_refuted"],
             translators=["lex_tables"])
    failed = selftest()
    if failed:
        ck.broken.append({"kind": "selftest", "where": f"oracle self-test cases {failed} of lib/vlib/c14.py"})
    build_driver(ck.log)
    build_harness(ck.log)

    # ---- base programs ---------------------------------------------------------------------------
    bases = []          # (origin, text, budget of single edits or None = all, number of combined edits)
    if replay:
        rp = json.load(open(replay))
        bases = [("replay", rp["base"], None, 0)]
    else:
        for k, s in enumerate(SHAPES):
            bases.append((f"shape{k}", s, 130 if quick else None, 0 if quick else 40))
        scale = float(os.environ.get("VERIF_C14_SCALE", "0.15"))     # debugging aid for the thorough tier
        for k in range(32 if quick else max(1, int(1100 * scale))):
            bases.append((f"gen{k}", gen.program(rng, size=rng.randint(2, 8)), 36 if quick else 60, 0 if quick else 12))
        samples = sample_files()
        for name, t in (samples[::3] if quick else samples):
            bases.append((name, t, 12 if quick else 150, 0 if quick else 40))
    base_lex = lex_all(MH, [b[1] for b in bases])
    base_res = transpile_all([b[1] for b in bases])

    # ---- variants --------------------------------------------------------------------------------
    variants, dist, ctxs, progs = [], {}, {}, {}
    accepted_bases = rejected_bases = 0
    for origin, text, budget, ncombo in bases:
        st, toks = parse_lex(base_lex[text])
        if st != "OK":
            continue
        r0, r1 = base_res[text]
        if r0[0] not in ("OK", "ERR") or r1[0] not in ("OK", "ERR"):
            continue            # crashes of the pipeline are C03's business
        if r0[0] == "OK" and r1[0] == "OK":
            accepted_bases += 1
        else:
            rejected_bases += 1
            if not origin.startswith("gen") and not replay:
                continue
        prog = progs[text] = Prog(text)
        singles = trivia_edits(prog, toks)
        eds = [(k, c, ops, None) for k, c, ops in singles]
        if r0[0] == "OK" and r1[0] == "OK":
            eds += [(k, c, ops, None) for k, c, ops in paren_edits(prog, toks)]
        if replay:
            want = [tuple(o) for o in rp.get("ops", [])]
            eds = [(rp["kind"], rp["context"], want, [(k, c, [tuple(o) for o in ops]) for k, c, ops in rp["components"]]
                    if rp.get("components") else None)]
        elif budget is not None and len(eds) > budget:
            # keep every (kind, context) combination represented, then fill up at random
            rng.shuffle(eds)
            seen, keep, rest = set(), [], []
            for e in eds:
                (keep if (e[0], e[1]) not in seen else rest).append(e)
                seen.add((e[0], e[1]))
            eds = (keep + rest)[:budget]
        if ncombo and r0[0] == "OK" and r1[0] == "OK":
            eds += combo_edits(prog, singles, rng, ncombo)
        for kind, ctx, ops, comps in eds:
            edited = apply_ops(prog, ops)
            if edited == text:
                continue
            variants.append((origin, text, kind, ctx, edited, ops, comps))
            dist[kind] = dist.get(kind, 0) + 1
            for c in ctx.split("+") if kind == "combo" else [ctx]:
                ctxs[c] = ctxs.get(c, 0) + 1
    ck.log(f"{len(bases)} base programs ({accepted_bases} accepted, {rejected_bases} rejected), {len(variants)} variants")

    edited_texts = [v[4] for v in variants]
    res = transpile_all(edited_texts)
    ilex = lex_all(MH, edited_texts)
    mlex = lex_all(DRIVER, [t for t in dict.fromkeys(edited_texts) if all(ord(ch) < 128 for ch in t)])

    # ---- judge -----------------------------------------------------------------------------------
    n_eval = agree = lexrel_ok = 0
    corr_bad, rel_bad, seen_viol, failing = [], [], {}, []
    samples_out = []
    for v in variants:
        origin, text, kind, ctx, edited, ops, comps = v
        n_eval += 1
        b, e = base_res[text], res[edited]
        bad = judge(kind, b, e)
        if bad:
            failing.append((v, bad))
        elif len(samples_out) < 3 and kind in ("comment-like-next", "paren-argument", "crlf"):
            samples_out.append({"kind": kind, "context": ctx, "base": text[:160], "edited": edited[:180],
                                "verdict": b[0][0]})
        # lexer correspondence on the edited text
        if edited in mlex and ilex[edited] != ["MISSING"] and mlex[edited] != ["MISSING"]:
            if ilex[edited] == mlex[edited]:
                agree += 1
            else:
                corr_bad.append((edited, "\t".join(ilex[edited])[:200], "\t".join(mlex[edited])[:200]))
        # the theorems' relations on the implementation's tokens
        if not kind.startswith("paren") and kind != "combo":
            s1, t1 = parse_lex(base_lex[text])
            s2, t2 = parse_lex(ilex[edited])
            if s1 == "OK" and s2 == "OK":
                why = lex_relation(kind, t1, t2, ctx)
                if why is None:
                    lexrel_ok += 1
                else:
                    rel_bad.append((kind, text, edited, why))
            elif s1 != s2:
                rel_bad.append((kind, text, edited, f"lexer verdict {s1} -> {s2}"))

    # combined edits that fail: attribute to a finding only if the failure goes away without the components
    # that finding explains (neutralised input)
    def case_of(kind, ctx, bad, text, edited):
        return f"EDIT:{kind} CONTEXT:{ctx}\nWHAT:{bad}\nBASE:{text}\nEDITED:{edited}"
    neutral = {}
    for v, bad in failing:
        origin, text, kind, ctx, edited, ops, comps = v
        if comps:
            known = [c for c in comps if ck.match_finding(case_of(c[0], c[1], bad, text, edited))]
            if known and len(known) < len(comps):
                rest_ops = [op for c in comps if c not in known for op in c[2]]
                neutral[edited] = (known[0], apply_ops(progs[text], rest_ops))
            elif known:
                neutral[edited] = (known[0], text)
    nres = transpile_all([n[1] for n in neutral.values()]) if neutral else {}
    for v, bad in failing:
        origin, text, kind, ctx, edited, ops, comps = v
        case_text = case_of(kind, ctx, bad, text, edited)
        if edited in neutral:
            comp, ntext = neutral[edited]
            if judge(kind, base_res[text], nres[ntext] if ntext != text else base_res[text]) is None:
                case_text = case_of(comp[0], comp[1], bad, text, edited)
        if kind == "combo" and comps and ck.match_finding(case_text) is None:
            # a failing combination that no single known component explains: shrink it to a minimal set of components
            # that still fails together (greedy, one transpile per step) and name the case after that set
            keep = list(comps)
            for c in list(comps):
                trial = [x for x in keep if x is not c]
                if not trial:
                    continue
                ttext = apply_ops(progs[text], [op for x in trial for op in x[2]])
                tres = transpile_all([ttext])
                if judge(kind, base_res[text], tres[ttext]) is not None:
                    keep = trial
            culprit = ",".join(sorted(f"{c[0]}@{c[1]}" for c in keep))
            case_text = f"EDIT:combo CULPRIT:{culprit}\nWHAT:{bad}\nBASE:{text}\nEDITED:{edited}"
        key = (kind, ctx if kind != "combo" else "", bad[:30])
        seen_viol[key] = seen_viol.get(key, 0) + 1
        f = ck.match_finding(case_text)
        if f is not None or seen_viol[key] <= 2:
            p = "" if f is not None and seen_viol[key] > 1 else ck.write_replay(
                "oracle", {"base": text, "edited": edited, "kind": kind, "context": ctx, "origin": origin,
                           "ops": [list(o) for o in ops],
                           "components": [[c[0], c[1], [list(o) for o in c[2]]] for c in comps] if comps else None,
                           "what": bad, "base_result": [list(x) for x in base_res[text]],
                           "edited_result": [list(x) for x in res[edited]]})
            ck.violation(f"{kind} at {ctx} ({origin}): {bad}", p, case_text)

    if corr_bad:
        ck.broken.append({"kind": "correspondence", "where": "lex endpoint: model/Lex.v vs parse::lex::tokenize",
                          "count": len(corr_bad), "examples": [list(x) for x in corr_bad[:3]]})
    if rel_bad:
        ck.broken.append({"kind": "correspondence", "where": "token relation stated by the C14 theorems does not "
                          "hold of the implementation's tokens", "count": len(rel_bad),
                          "examples": [list(x) for x in rel_bad[:3]]})
    ck.cov.update({
        "evaluations": n_eval,
        "distinct_nontrivial": len({v[4] for v in variants}),
        "rule": "one evaluation = one (original, edited) pair run through `transpile` with annotate off and on; "
                "distinct = distinct edited texts (all differ from their original); originals: hand-made block shapes, "
                "generated programs, repository samples under tests/resource/valid; thorough adds combined edits",
        "base_programs": {"total": len(bases), "accepted": accepted_bases, "rejected_generated": rejected_bases},
        "edits": dist, "contexts": ctxs,
        "traces_validated_against_impl": agree,
        "token_relations_checked_on_impl": lexrel_ok,
        "oracle_selftest": "passed" if not failed else f"FAILED {failed}",
        "harness_batches_timed_out": TIMED_OUT,
        "violating_classes": {f"{k[0]} @ {k[1]}": v for k, v in sorted(seen_viol.items())},
        "samples": samples_out or [{"base": bases[0][1][:160]}],
        "trusted_base": [
            "Coq 8.16.1 kernel; no axioms (Print Assumptions: Closed under the global context)",
            "hand model model/Lex.v (shared with C18), compared byte for byte with the hook on every edited text",
            "NOT modelled: parser, checker, generator - that equal normalised tokens give equal verdict and output "
            "is only tested (C14_partial), by the metamorphic runs of this check",
            "edit generators of this module (placement, indentation of neighbours, redundancy of the added parentheses)",
            "python3 ast as the judge of 'same behaviour' for the parentheses edit",
            "extraction: ExtrOcamlBasic, ExtrOcamlString; coq/extract/driver.ml",
        ],
    })
    return ck.finish()
