"""Seeded generator of well-scoped, well-typed Mamba programs (shared by most checks).

Programs are built as a small typed AST and rendered with 4-space blocks, one statement per line.
Every generated statement records the line it starts on, so that checks which inject faults or
trivia know where they are.  The knobs (`features`) switch construct families on and off."""
import random

INT, BOOL, STR = "Int", "Bool", "Str"

ALL_FEATURES = {"arith", "bitwise", "compare", "bool", "fstring", "if", "ifexpr", "while", "for", "match",
                "fun", "class", "handle", "tuple", "list", "reassign", "fin", "typed_def", "print",
                "comments", "range_step", "default_args", "method", "nested_fun"}


# bitwise operators give the checker a result of type Any, which it then rejects almost everywhere
DEFAULT_FEATURES = ALL_FEATURES - {"bitwise"}


class Gen:
    def __init__(self, rng, features=None, names=None, max_depth=3):
        self.rng = rng
        self.f = set(features) if features is not None else set(DEFAULT_FEATURES)
        self.counter = 0
        self.max_depth = max_depth
        self.names = names  # optional pool of identifiers (C15)
        self.lines = []
        self.funs = []      # (name, [arg types], ret type, raises)
        self.classes = []   # (name, [(field, type)], [(method, [arg types], ret)])
        self.excs = []      # exception class names

    # -------------------------------------------------------------------------------------
    def fresh(self, prefix="v"):
        self.counter += 1
        if self.names:
            return self.names[(self.counter - 1) % len(self.names)] + (str(self.counter) if self.counter > len(self.names) else "")
        return f"{prefix}{self.counter}"

    def emit(self, ind, text):
        self.lines.append("    " * ind + text)

    # ---- expressions ----------------------------------------------------------------------
    def expr(self, ty, env, depth):
        r = self.rng
        vars_ = [n for n, (t, _) in env.items() if t == ty]
        if depth <= 0 or r.random() < 0.25:
            if vars_ and r.random() < 0.7:
                return r.choice(vars_)
            return self.literal(ty)
        if ty == INT:
            choices = ["lit", "var"]
            if "arith" in self.f:
                choices += ["arith"] * 4
            if "bitwise" in self.f:
                choices += ["bitwise"]
            calls = [f for f in self.funs if f[2] == INT and not f[3]]
            if calls:
                choices += ["call"] * 2
            k = r.choice(choices)
            if k == "arith":
                op = r.choice(["+", "-", "*"])
                return f"({self.expr(INT, env, depth - 1)} {op} {self.expr(INT, env, depth - 1)})"
            if k == "bitwise":
                op = r.choice(["_and_", "_or_", "_xor_"])
                return f"({self.expr(INT, env, 0)} {op} {self.expr(INT, env, 0)})"
            if k == "ifexpr":
                return f"(if {self.expr(BOOL, env, depth - 1)} then {self.expr(INT, env, depth - 1)} else {self.expr(INT, env, depth - 1)})"
            if k == "call":
                f = r.choice(calls)
                return f"{f[0]}({', '.join(self.expr(t, env, depth - 1) for t in f[1])})"
            if k == "var" and vars_:
                return r.choice(vars_)
            return self.literal(INT)
        if ty == BOOL:
            choices = ["lit"]
            if "compare" in self.f:
                choices += ["cmp"] * 4
            if "bool" in self.f:
                choices += ["bool", "bool", "not"]
            k = r.choice(choices)
            if k == "cmp":
                op = r.choice(["<", ">", "<=", ">=", "="])
                return f"({self.expr(INT, env, depth - 1)} {op} {self.expr(INT, env, depth - 1)})"
            if k == "bool":
                op = r.choice(["and", "or"])
                return f"({self.expr(BOOL, env, depth - 1)} {op} {self.expr(BOOL, env, depth - 1)})"
            if k == "not":
                return f"(not {self.expr(BOOL, env, depth - 1)})"
            if vars_ and r.random() < 0.5:
                return r.choice(vars_)
            return self.literal(BOOL)
        if ty == STR:
            if "fstring" in self.f and r.random() < 0.4:
                ivars = [n for n, (t, _) in env.items() if t in (INT, STR)]
                if ivars:
                    return '"' + r.choice(["v=", "x ", ""]) + "{" + r.choice(ivars) + "}" + r.choice(["", " end", "!"]) + '"'
            if vars_ and r.random() < 0.5:
                return r.choice(vars_)
            return self.literal(STR)
        return self.literal(ty)

    def literal(self, ty):
        r = self.rng
        if ty == INT:
            return str(r.choice([0, 1, 2, 3, 5, 7, 10, 42, 100]))
        if ty == BOOL:
            return r.choice(["True", "False"])
        if ty == STR:
            return '"' + r.choice(["a", "hello", "x y", "s1", "mamba"]) + '"'
        return "None"

    # ---- statements ------------------------------------------------------------------------
    def block(self, ind, env, depth, n, in_fun=None, in_loop=False):
        """Emit n statements; env maps name -> (type, mutable). Returns the env after the block."""
        env = dict(env)
        for _ in range(n):
            self.stmt(ind, env, depth, in_fun, in_loop)
        return env

    def stmt(self, ind, env, depth, in_fun, in_loop):
        r = self.rng
        kinds = ["def"] * 3
        if "print" in self.f:
            kinds += ["print"] * 2
        if "reassign" in self.f and any(m for (_, m) in env.values()):
            kinds += ["reassign"] * 2
        if depth > 0:
            for k in ("if", "while", "for", "match"):
                if k in self.f:
                    kinds.append(k)
        if "comments" in self.f and r.random() < 0.08:
            self.emit(ind, "# " + r.choice(["note", "a comment", "todo: x"]))
        k = r.choice(kinds)
        if k == "def":
            ty = r.choice([INT, INT, BOOL, STR])
            name = self.fresh()
            fin = "fin" in self.f and r.random() < 0.25
            ann = f": {ty}" if "typed_def" in self.f and r.random() < 0.4 else ""
            if "ifexpr" in self.f and r.random() < 0.15:
                init = f"if {self.expr(BOOL, env, 1)} then {self.expr(ty, env, 1)} else {self.expr(ty, env, 1)}"
            else:
                init = self.expr(ty, env, 2)
            self.emit(ind, f"def {'fin ' if fin else ''}{name}{ann} := {init}")
            env[name] = (ty, not fin)
        elif k == "print":
            ty = r.choice([INT, STR, BOOL])
            self.emit(ind, f"print({self.expr(ty, env, 2)})")
        elif k == "reassign":
            name = r.choice([n for n, (_, m) in env.items() if m])
            ty = env[name][0]
            if ty == INT and r.random() < 0.3:
                self.emit(ind, f"{name} {r.choice(['+=', '-=', '*='])} {self.expr(INT, env, 1)}")
            else:
                self.emit(ind, f"{name} := {self.expr(ty, env, 2)}")
        elif k == "if":
            self.emit(ind, f"if {self.expr(BOOL, env, 2)} then")
            self.block(ind + 1, env, depth - 1, r.randint(1, 3), in_fun, in_loop)
            if r.random() < 0.6:
                self.emit(ind, "else")
                self.block(ind + 1, env, depth - 1, r.randint(1, 2), in_fun, in_loop)
        elif k == "while":
            c = self.fresh("w")
            self.emit(ind, f"def {c} := 0")
            env[c] = (INT, True)
            self.emit(ind, f"while {c} < {r.randint(1, 4)} do")
            inner = dict(env)
            self.block(ind + 1, inner, depth - 1, r.randint(1, 2), in_fun, True)
            self.emit(ind + 1, f"{c} := {c} + 1")
        elif k == "for":
            i = self.fresh("i")
            lo, hi = r.randint(0, 2), r.randint(3, 6)
            incl = r.random() < 0.4
            step = f" .. {r.randint(1, 2)}" if "range_step" in self.f and r.random() < 0.3 else ""
            self.emit(ind, f"for {i} in {lo} {'..=' if incl else '..'} {hi}{step} do")
            inner = dict(env)
            inner[i] = (INT, False)
            self.block(ind + 1, inner, depth - 1, r.randint(1, 2), in_fun, True)
        elif k == "match":
            scrut = self.expr(INT, env, 1)
            self.emit(ind, f"match {scrut}")
            for lit in r.sample([0, 1, 2, 3, 5], r.randint(1, 3)):
                self.emit(ind + 1, f"{lit} => print({self.expr(INT, env, 1)})")
            self.emit(ind + 1, f"_ => print({self.expr(STR, env, 1)})")

    def fun(self, ind, env):
        r = self.rng
        name = self.fresh("f")
        nargs = r.randint(0, 3)
        args = [(self.fresh("p"), r.choice([INT, INT, BOOL, STR])) for _ in range(nargs)]
        ret = r.choice([INT, INT, BOOL, STR])
        sig = ", ".join(f"{a}: {t}" for a, t in args)
        self.emit(ind, f"def {name}({sig}) -> {ret} =>")
        inner = {a: (t, False) for a, t in args}
        # only globals that are functions are visible; keep bodies self-contained
        inner_env = self.block(ind + 1, inner, 1, r.randint(0, 3), in_fun=name)
        last = self.expr(ret, inner_env, 2)
        self.emit(ind + 1, f"return {last}" if r.random() < 0.5 else last)
        self.funs.append((name, [t for _, t in args], ret, []))
        return name

    def cls(self, ind):
        r = self.rng
        name = "C" + self.fresh("c").capitalize()
        nf = r.randint(1, 3)
        fields = [(self.fresh("a"), r.choice([INT, INT, STR, BOOL])) for _ in range(nf)]
        sig = ", ".join(f"def {f}: {t}" for f, t in fields)
        self.emit(ind, f"class {name}({sig})")
        methods = []
        for _ in range(r.randint(1, 2)):
            m = self.fresh("m")
            ret = r.choice([INT, STR])
            arg = self.fresh("q")
            self.emit(ind + 1, f"def {m}(self, {arg}: Int) -> {ret} =>")
            ints = [f"self.{f}" for f, t in fields if t == INT] + [arg]
            strs = [f"self.{f}" for f, t in fields if t == STR]
            if ret == INT:
                self.emit(ind + 2, f"return {r.choice(ints)} + {r.choice(ints)}")
            else:
                self.emit(ind + 2, f"return {r.choice(strs) if strs else self.literal(STR)}")
            methods.append((m, [INT], ret))
        self.classes.append((name, fields, methods))
        return name

    def program(self, size=8):
        """A whole program; returns its text."""
        r = self.rng
        env = {}
        if "fun" in self.f:
            for _ in range(r.randint(0, 3)):
                self.fun(0, env)
                self.emit(0, "")
        if "class" in self.f:
            for _ in range(r.randint(0, 2)):
                c = self.cls(0)
                self.emit(0, "")
        for _ in range(size):
            self.stmt(0, env, self.max_depth, None, False)
            # use classes
            if self.classes and r.random() < 0.15:
                cname, fields, methods = r.choice(self.classes)
                o = self.fresh("o")
                self.emit(0, f"def {o} := {cname}({', '.join(self.expr(t, env, 1) for _, t in fields)})")
                m, at, rt = r.choice(methods)
                v = self.fresh()
                self.emit(0, f"def {v} := {o}.{m}({self.expr(INT, env, 1)})")
                env[v] = (rt, True)
        return "\n".join(self.lines) + "\n"


def program(rng, size=8, features=None, max_depth=3, names=None):
    return Gen(rng, features, names, max_depth).program(size)
