"""C03 - totality: any input yields output or diagnostics, never a crash or hang.

proof        : props/C03.v - lexer termination for every input incl. nested interpolation (lex_total), step
               bound, domain of the partial operations of the scanner; class lookup through parents terminates
               on acyclic tables and diverges on `class A: A` (model/Total.v, proofs/TotalProps.v).  PARTIAL:
               parser, context construction, checker, generator, renderer are not modelled.
tie          : `lex` correspondence (hook mamba::parse::verif_lex vs extracted Lex.tokenize) on the ASCII inputs
               of the campaign: same outcome class, same error position and message, same tokens
direct oracle: robustness campaign through the harness `transpile` endpoint (mamba_to_python, every returned
               error rendered with its source).  Every case runs in a worker process under a time limit;
               a worker that dies is reported with its signal.  Outcome must be OK or ERR with non-empty
               messages; CPU time versus size is measured on size-indexed families.  This part is TESTING and
               is labelled so in the evidence.
"""
import glob, json, math, os, re, select, subprocess, sys, threading, time

from .common import Check, build_driver, build_harness, hexs, unhex, run_sharded, DRIVER, MH, REPO, NCPU
from . import gen

CASE_TIMEOUT = 10.0          # seconds per input (DESIGN 6/C03): CPU seconds of the worker, see Worker.ask
WALL_FACTOR = 6              # wall-clock guard = WALL_FACTOR * limit
SHRINK_TIMEOUT = 6.0
SHRINK_BUDGET = 300          # harness runs per shrunk failure
SLOPE_FLAG = 2.5             # log-log slope of CPU time versus size above which growth is called super-quadratic
TICK = os.sysconf("SC_CLK_TCK") if hasattr(os, "sysconf") else 100

VOCAB = ["from", "type", "class", "pure", "as", "import", "forward", "vararg", "def", "fin", "and", "or", "not",
         "is", "isa", "mod", "sqrt", "while", "for", "_and_", "_or_", "_xor_", "_not_", "if", "else", "match",
         "continue", "break", "return", "then", "do", "with", "in", "raise", "handle", "when", "pass", "_",
         ",", ":", "::", "::=", ":=", "(", ")", "[", "]", "{", "}", "|", ".", "..", "..=", "<", "<<", "<<=", "<=",
         ">", ">>", ">>=", ">=", "+", "+=", "-", "-=", "->", "*", "*=", "/", "/=", "//", "\\", "^", "^=", "=", "=>",
         "!=", "?", "x", "ab_1", "X", "0", "12", "1.5", "2.", "3E4", '"s"', '""', '"a{x}b"', "#c", "self", "init",
         "Int", "Str", "None", "True", "()", "\n", "\n    ", "    ", " "]


# --------------------------------------------------------------------------------------------------
# isolated worker with a time limit per request
# --------------------------------------------------------------------------------------------------

class Worker:
    """One harness process fed one request at a time.  `ask` returns (fields, wall seconds, cpu seconds);
    a request that exceeds the limit gets status TIMEOUT (the process is killed), a dead process
    CRASH <signal> <tail of stderr>."""

    def __init__(self, binary=None):
        self.cmd = binary if isinstance(binary, list) else [binary or MH]
        self.p = None
        self.buf = b""

    def start(self):
        self.p = subprocess.Popen(self.cmd, stdin=subprocess.PIPE, stdout=subprocess.PIPE,
                                  stderr=subprocess.PIPE, bufsize=0)
        self.buf = b""

    def cpu(self):
        try:
            f = open(f"/proc/{self.p.pid}/stat").read().rsplit(")", 1)[1].split()
            return (int(f[11]) + int(f[12])) / TICK
        except Exception:
            return 0.0

    def stop(self):
        if self.p is not None:
            try:
                self.p.kill()
            except Exception:
                pass
            try:
                self.p.wait(timeout=5)
            except Exception:
                pass
            for f in (self.p.stdin, self.p.stdout, self.p.stderr):
                try:
                    f.close()
                except Exception:
                    pass
            self.p = None

    def ask(self, line, limit=CASE_TIMEOUT):
        if self.p is None or self.p.poll() is not None:
            self.stop()
            self.start()
        t0, c0 = time.time(), self.cpu()
        data = (line + "\n").encode()
        try:
            view, off = memoryview(data), 0
            while off < len(data):      # the harness reads the whole line before answering
                off += os.write(self.p.stdin.fileno(), view[off:off + 65536])
        except (BrokenPipeError, OSError):
            pass
        fd = self.p.stdout.fileno()
        while b"\n" not in self.buf:
            # the limit is on CPU seconds of the worker (the machine may be shared); six times as much wall
            # clock is the guard against a worker that waits without computing
            left = WALL_FACTOR * limit - (time.time() - t0)
            c1 = self.cpu()
            if left <= 0 or c1 - c0 > limit:
                self.stop()
                return ["TIMEOUT", f"{limit:g}"], time.time() - t0, c1 - c0
            r, _, _ = select.select([fd], [], [], min(left, 0.25))
            if not r:
                continue
            chunk = os.read(fd, 1 << 16)
            if not chunk:                         # process died
                try:
                    rc = self.p.wait(timeout=5)
                except Exception:
                    rc = -9
                err = b""
                try:
                    err = self.p.stderr.read() or b""
                except Exception:
                    pass
                self.stop()
                sig = -rc if rc < 0 else rc
                return (["CRASH", str(sig), err[-200:].decode("utf-8", "replace").strip()],
                        time.time() - t0, time.time() - t0)
            self.buf += chunk
        c1 = self.cpu()
        ans, self.buf = self.buf.split(b"\n", 1)
        parts = ans.decode("utf-8", "replace").split("\t")
        return parts[1:], time.time() - t0, c1 - c0


def transpile_line(i, src, annotate=False):
    return f"{i}\ttranspile\t{'1' if annotate else '0'}\t{hexs(src)}\t{hexs('case.mamba')}"


def pool(n_items, fn, shards):
    """Run fn(worker, k) for k in range(n_items) over `shards` threads, each with its own Worker."""
    lock, nxt = threading.Lock(), [0]

    def work():
        w = Worker()
        try:
            while True:
                with lock:
                    k = nxt[0]
                    nxt[0] += 1
                if k >= n_items:
                    return
                fn(w, k)
        finally:
            w.stop()

    ts = [threading.Thread(target=work) for _ in range(max(1, min(shards, n_items)))]
    for t_ in ts:
        t_.start()
    for t_ in ts:
        t_.join()


def run_isolated(cases, shards=None, limit=CASE_TIMEOUT):
    """cases: list of (id, source).  Returns {id: (fields, wall, cpu)}."""
    out = {}

    def one(w, k):
        i, src = cases[k]
        out[i] = w.ask(transpile_line(i, src, annotate=(k % 2 == 1)), limit)

    pool(len(cases), one, shards or NCPU)
    return out


# --------------------------------------------------------------------------------------------------
# oracle
# --------------------------------------------------------------------------------------------------

BAD = ("PANIC", "CRASH", "TIMEOUT", "SLOW", "EMPTY", "PROTOCOL")


def judge(fields, src=""):
    """-> (verdict, detail): verdict in ok | err | PANIC | CRASH | TIMEOUT | EMPTY | PROTOCOL.
    The harness joins the diagnostics with U+001E; a source that itself contains that character is echoed in
    the rendered messages, so for such sources only the whole text is required to be non-empty."""
    st = fields[0] if fields else "MISSING"
    if st == "OK":
        return "ok", ""
    if st == "ERR":
        text = unhex(fields[2]) if len(fields) > 2 and fields[2] else ""
        msgs = ([text] if "\x1e" in src else text.split("\x1e")) if text else []
        if not msgs or any(not m.strip() for m in msgs):
            return "EMPTY", f"stage {fields[1] if len(fields) > 1 else '?'}: {msgs!r}"
        return "err", fields[1] if len(fields) > 1 else "?"
    if st == "PANIC":
        return "PANIC", unhex(fields[1]) if len(fields) > 1 else ""
    if st == "CRASH":
        return "CRASH", f"signal {fields[1]}" + (" stack overflow" if len(fields) > 2 and "overflowed its stack" in fields[2] else "")
    if st == "TIMEOUT":
        return "TIMEOUT", f"> {fields[1]} s"
    return "PROTOCOL", "\t".join(fields)[:200]


def signature(verdict, detail):
    """Root-cause key: failure class plus the panic message with literals removed."""
    if verdict in ("TIMEOUT", "SLOW"):
        return "TIME"
    d = re.sub(r"\d+", "N", detail)
    d = re.sub(r"'[^']*'|\"[^\"]*\"|`[^`]*`", "Q", d)
    return f"{verdict}:{d[:120]}"


# --------------------------------------------------------------------------------------------------
# shrinking: delta debugging on lines, then on tokens
# --------------------------------------------------------------------------------------------------

TOKEN_RE = re.compile(r"\n|[ \t]+|[A-Za-z_][A-Za-z_0-9]*|\d+|\"[^\"\n]*\"|.", re.S)


def ddmin(parts, test, budget):
    """Classic ddmin over a list of parts; `test(parts) -> bool` (True = still fails)."""
    n = 2
    while len(parts) >= 2 and budget[0] > 0:
        chunk = max(1, len(parts) // n)
        subsets = [parts[i:i + chunk] for i in range(0, len(parts), chunk)]
        reduced = False
        for k in range(len(subsets)):
            if budget[0] <= 0:
                break
            comp = [x for j, sub in enumerate(subsets) if j != k for x in sub]
            budget[0] -= 1
            if comp and test(comp):
                parts, n, reduced = comp, max(n - 1, 2), True
                break
        if not reduced:
            if chunk == 1:
                break
            n = min(len(parts), n * 2)
    return parts


def shrink(src, sig, worker, budget=SHRINK_BUDGET, deadline=None):
    """Smallest text found that fails with the same signature (lines first, then tokens), and whether the
    search ran to completion (budget and deadline not exhausted)."""
    b = [budget]

    def still(text):
        if deadline is not None and time.time() > deadline:
            b[0] = 0
            return False
        f, _, _ = worker.ask(transpile_line("s", text), SHRINK_TIMEOUT)
        v, d = judge(f, text)
        return signature(v, d) == sig

    lines = src.split("\n")
    if len(lines) > 1:
        lines = ddmin(lines, lambda ps: still("\n".join(ps)), b)
    text = "\n".join(lines)
    if len(text) <= 20000:
        toks = TOKEN_RE.findall(text)
        toks = ddmin(toks, lambda ps: still("".join(ps)), b)
        text = "".join(toks)
    return text, b[0] > 0


# --------------------------------------------------------------------------------------------------
# decidable class predicates used by known findings (computed here, matched by `match` on TAG lines)
# --------------------------------------------------------------------------------------------------

CLASS_RE = re.compile(r"^[ ]*(?:class|type)[ ]+([A-Za-z_][A-Za-z_0-9]*)(?:\[[^\]\n]*\])?(?:\([^)\n]*\))?[ ]*:[ ]*([^\n]*)$", re.M)


def parent_graph(src):
    g = {}
    for m in CLASS_RE.finditer(src):
        ps = [re.match(r"[A-Za-z_][A-Za-z_0-9]*", p_.strip()) for p_ in re.split(r",(?![^\[]*\])", m.group(2))]
        g.setdefault(m.group(1), set()).update(p_.group(0) for p_ in ps if p_)
    return g


def cycle_edges(g):
    """Edges (child, parent) that lie on a cycle of the parent graph (iterative: chains can be long)."""
    def reach(a, b):
        seen, todo = set(), [a]
        while todo:
            for p_ in g.get(todo.pop(), ()):
                if p_ == b:
                    return True
                if p_ not in seen:
                    seen.add(p_)
                    todo.append(p_)
        return False
    return [(c, p_) for c in g for p_ in g[c] if p_ == c or reach(p_, c)]


def neutralise_cycle(src):
    """Remove the parent clause of every class that lies on an inheritance cycle."""
    on = {c for c, _ in cycle_edges(parent_graph(src))}

    def fix(m):
        if m.group(1) not in on:
            return m.group(0)
        return m.group(0)[:m.group(0).rindex(":")].rstrip()
    return CLASS_RE.sub(fix, src)


def tags(minimal, complete, family, worker, sig):
    """TAG lines of a failing input.  A tag is given only if its class predicate holds AND the neutralised
    input no longer fails in the same way (DESIGN section 4).  `complete`: delta debugging ran to its end."""
    out = []

    def fails(text):
        f, _, _ = worker.ask(transpile_line("n", text), SHRINK_TIMEOUT)
        v, d = judge(f)
        return signature(v, d) == sig

    if sig.startswith("CRASH"):
        if cycle_edges(parent_graph(minimal)) and not fails(neutralise_cycle(minimal)):
            out.append("inheritance-cycle")
        elif "stack overflow" in sig:
            # crash that needs size: delta debugging could not bring it below 256 characters, or (size-indexed
            # family) the same shape at a quarter of the size passes
            if family is not None:
                name, n = family
                if n >= 64 and not fails(FAMILIES[name][1](n // 4)):
                    out.append("recursion-depth")
            elif complete and len(minimal) >= 256:
                out.append("recursion-depth")
    return out


def stage_of_time(src, worker, limit, cpu_full, stage_full=None):
    """Which stage the time goes to: run the same text with an unmatched `)` appended, which stops the
    pipeline after lexing and parsing, and compare with the CPU time of the full run."""
    if stage_full == "parse":
        return "parse", cpu_full
    f2, _, cpu_parse = worker.ask(transpile_line("p", src.rstrip("\n") + "\n)\n"), limit)
    if judge(f2)[0] == "TIMEOUT":
        return "parse", cpu_parse
    return ("parse" if cpu_parse >= 0.5 * cpu_full else "check"), cpu_parse


# --------------------------------------------------------------------------------------------------
# generators
# --------------------------------------------------------------------------------------------------

def mutate(rng, text, n=1):
    toks = TOKEN_RE.findall(text)
    for _ in range(n):
        if not toks:
            return text
        k = rng.choice(["del", "dup", "swap", "ins", "rep"])
        i = rng.randrange(len(toks))
        if k == "del":
            del toks[i]
        elif k == "dup":
            toks.insert(i, toks[i])
        elif k == "swap":
            j = rng.randrange(len(toks))
            toks[i], toks[j] = toks[j], toks[i]
        elif k == "ins":
            toks.insert(i, rng.choice(VOCAB))
        else:
            toks[i] = rng.choice(VOCAB)
    return "".join(toks)


def nest_blocks(n, head, leaf="x := 1"):
    return "".join("    " * i + head(i) + "\n" for i in range(n)) + "    " * n + leaf + "\n"


def adversarial(rng, quick):
    """Structurally adversarial programs (kind, text)."""
    out = []
    A = out.append
    # --- inheritance cycles -----------------------------------------------------------------------
    A(("cycle", "class A: A\n"))
    A(("cycle", "class A: B\nclass B: A\n"))
    A(("cycle", "class A: B\nclass B: C\nclass C: A\n"))
    A(("cycle", "class A(def x: Int): A\n    def f(self) -> Int => self.x\n\ndef a := A(1)\nprint(a.f())\n"))
    A(("cycle", "class B\n    def v: Int := 1\n\nclass A: B, A\n\ndef a := A()\n"))
    A(("cycle", "class A[T]: A[T]\n"))
    A(("cycle", "type A: A\n"))
    A(("cycle", "type A: B\ntype B: A\n"))
    A(("cycle", "class A: B\nclass B: A\ndef x: A := A()\nprint(x)\n"))
    A(("cycle", "class MyErr(msg: Str): MyErr(msg)\n"))
    A(("inherit", "class A: Undefined\n"))
    A(("inherit", "class A: Int\nclass B: A\nclass C: B\ndef c := C()\n"))
    A(("inherit", "class A: Exception\nclass A: Exception\n"))
    A(("inherit", "class Int: Str\n"))
    A(("inherit", "class Any: Any\n"))
    A(("inherit", "class Str: Str\n"))
    # --- empty tuples, odd literals -------------------------------------------------------------------
    for t in ["def a := ()", "print(())", "def (a, b) := ()", "for x in () do print(x)", "def f(x: ()) => x",
              "def a: () := ()", "match ()\n    () => 1", "def a := (,)", "def a := ( )", "() := ()", "()()",
              "def a := ().b", "def a := [()]", "def a := {()}", "def a := {() => ()}", "return ()", "def f() -> () => ()",
              "def a := (())", "def a := ((), ())", "a[()]", "def a := [] + ()", "() + ()", "def a := - ()", "if () then ()",
              "def a := 1 if () else 2", "while () do ()", "def a := [x | x in ()]", "def a := {x | x in ()}",
              "class A(())\n", "class ()", "def () := 1", "def a := {}", "def a := []", "def a := [,]", "def a := {,}",
              "def a := {=>}", "def a := 1..", "def a := ..1", "def a := 1..=", "def a := 1 .. 2 .. 0", "for i in 1 .. 2 .. 0 do i",
              "def a := 007", "def a := 1E", "def a := 1E999999999999", "def a := 9" * 1 + "9" * 400, "def a := 1.2.3", "def a := 0x10",
              "def a := 1e5", "def a := .5", "def a := 5.", "def a := 1__2", "def a := -", "def a := not", "def a := sqrt",
              "def a := 1 mod 0", "def a := 1 / 0", "def a := 1 // 0", "def a := 2 ^ 99999", "def a := 1 << 9999", "a := a",
              "def a := a", "def f() => f()", "def f(x) => f", "def f(f) => f(f)", "self", "self.x := 1", "init", "def init() => 1",
              "def self := 1", "def None := 1", "def True := False", "def Int := Str", "print := 1", "def print(x: Int) => x",
              "def a := undefined?", "def a := a?.b?.c", "def a := 1 ? 2", "def a ?= 1", "def a?: Int := 1", "def a: Int? := None",
              "def a: Int?? := None", "def a: (Int, ) := 1", "def a: {Int} := 1", "def a: [Int] := 1", "def a: {Int => } := 1",
              "def a: Int -> := 1", "def a: -> Int := 1", "def a: () -> () := 1", "def a: List[] := []", "def a: List[Int, Int] := []",
              "def a: List[List[List[List[Int]]]] := []", "def a: Tuple := ()", "def a: Tuple[] := ()", "def a: Union[] := 1",
              "def a: Callable := 1", "def a: Int[Int] := 1", "def a: Any[Any] := 1", "def a: None[None] := None",
              "import", "from import", "from a import", "import a as", "from . import x", "import a.b.c", "from a.b import c as d, e as",
              "raise", "raise 1", "def f() raise [] => 1", "def f() raise [Int] => 1", "def f() -> Int raise [Undefined] => 1",
              "handle", "1 handle", "def a := f() handle\n    e: Exception => 1", "def a := 1 handle\n    _ => 2",
              "with", "with a", "with a as", "with open(\"f\") as f do print(f)", "with 1 as x: Int do x",
              "pass", "pass pass", "break", "continue", "return", "return return", "if", "if then", "if 1 then", "else", "if a then b else",
              "match", "match 1", "match 1\n", "match 1\n    ", "match 1\n    =>", "match 1\n    _ =>", "match 1\n    1 => 2\n\n    2 => 3",
              "for", "for in", "for x in", "for x in y", "for x in y do", "while", "while do", "while 1 do", "class", "class A(", "class A:",
              "class A()", "class A(def)", "class A(def x)", "class A(x: Int)\n    def x: Int := 2", "class A\n    1", "class A\n    pass",
              "class A\n    class B\n        class C\n            def x: Int := 1", "class A\n    def init(self) => pass", "class A\n    def init(self) -> Int => 1",
              "class A\n    def f(self)\nclass B: A\n    def f(self) => 1", "class A\n    def x: Int\ndef a := A()\nprint(a.x)",
              "type A", "type A: Int when", "type A: Int when\n    self > 0", "type A: Int when self", "type A[T]", "type A[T]: T", "class A[T]: T", "class A[A]: A",
              "def f(vararg x: Int) => x", "def f(vararg) => 1", "def f(vararg x := 3) => x", "def f(x: Int := ) => x", "def f(x := 1, y) => x",
              "def f(x: Int, x: Int) => x", "def f(self) => self", "def f(fin x: Int) => x", "def f[T](x: T) -> T => x", "def f(x: Int) -> => x",
              "def f(x: Int) =>", "def f(x: Int) =>\n", "def f(x: Int) =>\n    ", "def f =>", "def f() => def g() => def h() => 1", "def pure", "def pure f() => print(1)",
              "def a := \\x => x", "def a := \\ => 1", "def a := \\x, y => x", "def a := \\x: Int => \\y: Int => x + y", "(\\x => x)(1)", "\\", "\\\\",
              "def a := x.y.z()()()", "def a := x[1][2][3]", "def a := x[1:2]", "def a := x[::]", "def a := x[1::2]", "def a := x[::=2]", "x[", "x]", "x)", "(x", "{x", "x}",
              "def a := 1 is 1 is 1", "def a := 1 isa Int", "def a := 1 isa", "def a := 1 in 1", "def a := not not not True", "def a := 1 = 2 = 3", "def a := 1 != 2 != 3",
              "def a := 1 < 2 < 3", "a += ", "a += b += c", "a := b := c", "def a := def b := 1", "def def", "def fin", "def fin fin a := 1", "fin a := 1", "def a b := 1",
              "_", "_ := 1", "def _ := 1", "def a := _", "print(_)", "for _ in 1..2 do _", "@", "$", "`", "~", ";", "'a'", "&", "%", "\t", "\tdef a := 1", "def a := 1\t",
              "\x00", "def a := \"\x00\"", "\x7f", "﻿def a := 1", "def a := \"é\"", "def é := 1", "def a := \"\U0001F600\" + 1", " ", "def a := 1 + 2",
              "# only a comment", "#", "# a\n# b\n", "def a := 1 # c\n    # d\n        # e\n", "    # indented comment only", "\n\n\n", "    ", "    \n", "\n    \n", "  def a := 1",
              "    def a := 1", "        def a := 1", "def a := 1\n        def b := 2", "def a := 1\n  def b := 2", "if a then\n        b\n    c", "if a then\n    b\n  c\n d\ne",
              "a\r\nb\r\n", "a\rb", "a\r", "\r", "\r\n", "a\n\r", "a \r\n b"]:
        A(("construct", t if t.endswith("\n") else t + "\n"))
        A(("construct", t))
    # --- braces and quotes in strings ----------------------------------------------------------------
    strs = ['"}"', '"{"', '"a}b"', '"a{b"', '"}{"', '"{}"', '"{ }"', '"{{"', '"}}"', '"{{x}}"', '"{x"', '"x}"', '"{x}}"', '"{{x}"',
            '"{!}"', '"{1 +}"', '"{def}"', '"{def a := 1}"', '"{x := 1}"', '"{"}"', '"{"{"', '"{"a"}"', '"{"{x}"}"', '"{"{"{x}"}"}"',
            '"{"', '"\\{x}"', '"\\\\{x}"', '"{\\}"', '"{x\\}"', '"\\"', '"\\\\"', '"a\\"b"', '"{\n}"', '"{x\n}"', '"{\n    x}"', '"a\nb"', '"a\n"',
            '"\n"', '"', '""', '"""', '""""', '"""""', '""""""', '"""a"""', '"""a', '"""a""', '"""\n"""', '"""a\nb\nc"""', '""" " """', '"" ""',
            '"{""}"', '"{"""}"', '"{#}"', '"{# c}"', '"{x # c}"', '"{ x }"', '"{x} {y} {z}"', '"{x}{y}"', '"{x}" "{y}"', '"{(}"', '"{)}"',
            '"{[}"', '"{1, 2}"', '"{a.b.c()}"', '"{a[1]}"', '"{if a then b else c}"', '"{\\x => x}"', '"{{a => b}}"', '"{ {a} }"', '"{ {1, 2} }"',
            '"{x}' , '"{x', '"{', '"}', '"{"}', '"{"x', '"\t"', '"\r"', '"\r\n"', '"{\r}"', '"{!=}"', '"{!}', '"{\x01}"', '"{é}"', '"é{x}é"',
            '"{self}"', '"{self.x}"', '"{_}"', '"{()}"', '"{[]}"', '"{{}}"', '"{print(x)}"', '"{return}"', '"{pass}"', '"{x: Int}"', '"{1 2}"']
    for s_ in strs:
        A(("string", f"def x := 1\ndef a := {s_}\nprint(a)\n"))
        A(("string", f"print({s_})\n"))
        A(("string", f"def x := 1\nif x > 0 then\n    print({s_} + {s_})\n"))
        A(("string", s_))
        A(("string", f"def f(a: Str := {s_}) -> Str => a\n"))
    # error rendering after line/column drift (multi-line strings, doc-strings, empty strings)
    for pre in ['def s := "a\nb\nc"\n', 'def s := """d\no\nc"""\n', 'def s := ""\n', '"""\n\n\n\n"""\n', 'def s := "\n\n\n\n\n\n"\n',
                '"a\nb" "c\nd" "e\nf"\n', '    """doc"""\n', '"""doc"""' * 3 + "\n"]:
        for bad in ["def a: Int := \"s\"", "def a := b", ")", "def a := 1 +", "a := 1", "x.y", "class A: Undefined", "!"]:
            A(("render", pre + bad + "\n"))
            A(("render", pre + bad))
            A(("render", bad + "\n" + pre))
    return out


def nest_match(n):
    return "def x := 1\n" + "".join("    " * (2 * i) + "match x\n" + "    " * (2 * i + 1) + "_ =>\n" for i in range(n // 2)) \
        + "    " * (2 * (n // 2)) + "print(1)\n"


def nest_else(n):
    return "".join("    " * i + "if False then\n" + "    " * (i + 1) + "pass\n" + "    " * i + "else\n" for i in range(n)) \
        + "    " * n + "pass\n"


# size-indexed families: name -> (group, fn(n) -> source).  Used both as adversarial inputs and for the
# time-versus-size measurement.
FAMILIES = {
    # deep nesting
    "deep-paren": ("deep", lambda n: "def a := " + "(" * n + "1" + ")" * n + "\n"),
    "deep-paren-arith": ("deep", lambda n: "print(" + "(" * n + "1 + 2" + ")" * n + ")\n"),
    "deep-paren-open": ("deep", lambda n: "def a := " + "(" * n + "1\n"),
    "deep-paren-close": ("deep", lambda n: "def a := 1" + ")" * n + "\n"),
    "deep-list": ("deep", lambda n: "def a := " + "[" * n + "1" + "]" * n + "\n"),
    "deep-list-open": ("deep", lambda n: "def a := " + "[" * n + "\n"),
    "deep-set": ("deep", lambda n: "def a := " + "{" * n + "1" + "}" * n + "\n"),
    "deep-tuple": ("deep", lambda n: "def a := " + "(" * n + "1, 2" + ")" * n + "\n"),
    "deep-tuple-right": ("deep", lambda n: "def a := " + "(1, " * n + "2" + ")" * n + "\n"),
    "deep-call": ("deep", lambda n: "def f(x: Int) -> Int => x\ndef a := " + "f(" * n + "1" + ")" * n + "\n"),
    "deep-index": ("deep", lambda n: "def a := [1]\ndef b := a" + "[0" * n + "]" * n + "\n"),
    "deep-not": ("deep", lambda n: "def a := " + "not " * n + "True\n"),
    "deep-neg": ("deep", lambda n: "def a := " + "- " * n + "1\n"),
    "deep-neg-tight": ("deep", lambda n: "def a := " + "-" * n + "1\n"),
    "deep-sqrt": ("deep", lambda n: "def a := " + "sqrt " * n + "1\n"),
    "deep-type-generic": ("deep", lambda n: "def a: " + "List[" * n + "Int" + "]" * n + " := []\n"),
    "deep-type-paren": ("deep", lambda n: "def a: " + "(" * n + "Int" + ")" * n + " := 1\n"),
    "deep-type-fun": ("deep", lambda n: "def f(x: " + "Int -> " * n + "Int) => x\n"),
    "deep-type-question": ("deep", lambda n: "def a: Int" + "?" * n + " := 1\n"),
    "deep-ifexpr": ("deep", lambda n: "def a := " + "if True then 1 else " * n + "2\n"),
    "deep-ifexpr-paren": ("deep", lambda n: "def a := " + "if True then (" * n + "1" + ") else 2" * n + "\n"),
    "deep-lambda": ("deep", lambda n: "def a := " + "\\x => " * n + "x\n"),
    "deep-interp": ("deep", lambda n: 'def x := 1\ndef a := ' + '"{' * n + "x" + '}"' * n + "\n"),
    "deep-brace-str": ("deep", lambda n: 'def a := "' + "{" * n + "x" + "}" * n + '"\n'),
    "deep-brace-str-rev": ("deep", lambda n: 'def a := "' + "}" * n + "x" + "{" * n + '"\n'),
    "deep-dot": ("deep", lambda n: "def a := x" + ".y" * n + "\n"),
    "deep-dot-call": ("deep", lambda n: "def a := x" + ".y()" * n + "\n"),
    "deep-question": ("deep", lambda n: "def a := x" + "?" * n + "\n"),
    "deep-if": ("deep", lambda n: nest_blocks(n, lambda i: "if True then", "print(1)")),
    "deep-if-dedent": ("deep", lambda n: nest_blocks(n, lambda i: "if True then", "pass") + "pass\n"),
    "deep-while": ("deep", lambda n: nest_blocks(n, lambda i: "while True do", "break")),
    "deep-for": ("deep", lambda n: nest_blocks(n, lambda i: f"for i{i} in 0 .. 2 do", "print(1)")),
    "deep-def": ("deep", lambda n: nest_blocks(n, lambda i: f"def f{i}() =>", "1")),
    "deep-class": ("deep", lambda n: nest_blocks(n, lambda i: f"class C{i}", "def x: Int := 1")),
    "deep-with": ("deep", lambda n: nest_blocks(n, lambda i: f'with open("f") as f{i} do', "print(1)")),
    "deep-match": ("deep", nest_match),
    "deep-else": ("deep", nest_else),
    "deep-indent-only": ("deep", lambda n: "    " * n + "x\n"),
    "deep-indent-mid": ("deep", lambda n: "x\n" + "    " * n + "y\nz\n"),
    "deep-inherit-chain": ("deep", lambda n: "class C0\n    def x: Int := 1\n" + "".join(f"class C{i + 1}: C{i}\n" for i in range(n))
                           + f"def c := C{n}()\nprint(c.x)\n"),
    # long files
    "long-defs": ("long", lambda n: "".join(f"def v{i} := {i}\n" for i in range(n))),
    "long-prints": ("long", lambda n: "".join(f"print({i})\n" for i in range(n))),
    "long-reassign": ("long", lambda n: "def v := 0\n" + "".join(f"v := v + {i}\n" for i in range(n))),
    "long-use-prev": ("long", lambda n: "def v0 := 0\n" + "".join(f"def v{i + 1} := v{i} + 1\n" for i in range(n))),
    "long-funs": ("long", lambda n: "".join(f"def f{i}(x: Int) -> Int => x + {i}\n" for i in range(n))),
    "long-blank": ("long", lambda n: "\n" * n + "def a := 1\n"),
    "long-comments": ("long", lambda n: "# c\n" * n + "def a := 1\n"),
    "long-strings": ("long", lambda n: "".join(f'def s{i} := "s{i}"\n' for i in range(n))),
    "long-error-last": ("long", lambda n: "".join(f"def v{i} := {i}\n" for i in range(n)) + "def a: Str := 1\n"),
    "long-syntax-error-last": ("long", lambda n: "".join(f"def v{i} := {i}\n" for i in range(n)) + ")\n"),
    "long-methods": ("long", lambda n: "class C\n" + "".join(f"    def m{i}(self) -> Int => {i}\n" for i in range(n))),
    "long-fields": ("long", lambda n: "class C\n" + "".join(f"    def f{i}: Int := {i}\n" for i in range(n))),
    "long-classes": ("long", lambda n: "".join(f"class C{i}\n    def x: Int := {i}\n" for i in range(n))),
    "long-ifs": ("long", lambda n: "def x := 1\n" + "".join(f"if x > {i} then\n    print({i})\n" for i in range(n))),
    "long-match": ("long", lambda n: "def x := 1\nmatch x\n" + "".join(f"    {i} => print({i})\n" for i in range(n))),
    "long-interp": ("long", lambda n: "def x := 1\n" + "".join('print("a{x}b{x + %d}")\n' % i for i in range(n))),
    # long lines and chains
    "chain-add": ("chain", lambda n: "def a := 1\ndef b := " + " + ".join(["a"] * n) + "\n"),
    "chain-and": ("chain", lambda n: "def a := True\ndef b := " + " and ".join(["a"] * n) + "\n"),
    "chain-args": ("chain", lambda n: "def a := 1\nprint(" + ", ".join(["a"] * n) + ")\n"),
    "chain-list": ("chain", lambda n: "def b := [" + ", ".join(["1"] * n) + "]\n"),
    "chain-tuple": ("chain", lambda n: "def b := (" + ", ".join(["1"] * n) + ")\n"),
    "chain-set": ("chain", lambda n: "def b := {" + ", ".join(str(i) for i in range(n)) + "}\n"),
    "chain-params": ("chain", lambda n: "def f(" + ", ".join(f"p{i}: Int" for i in range(n)) + ") -> Int => p0\n"),
    "chain-cmp": ("chain", lambda n: "def a := 1\ndef b := " + " = ".join(["a"] * n) + "\n"),
    "chain-pow": ("chain", lambda n: "def a := 1\ndef b := " + " ^ ".join(["a"] * n) + "\n"),
    "chain-str-add": ("chain", lambda n: "def b := " + " + ".join(['"s"'] * n) + "\n"),
    "chain-union-type": ("chain", lambda n: "def a: {" + ", ".join(["Int", "Str"] * max(1, n // 2)) + "} := 1\n"),
    "chain-ops-dangling": ("chain", lambda n: "def a := 1 " + "+ " * n + "\n"),
    "long-ident": ("chain", lambda n: "def " + "a" * n + " := 1\nprint(" + "a" * n + ")\n"),
    "long-string": ("chain", lambda n: 'def a := "' + "s" * n + '"\n'),
    "long-number": ("chain", lambda n: "def a := " + "9" * n + "\n"),
    "long-comment": ("chain", lambda n: "# " + "c" * n + "\ndef a := 1\n"),
    "long-spaces": ("chain", lambda n: "def a :=" + " " * n + "1\n"),
    "long-interp-line": ("chain", lambda n: 'def x := 1\ndef a := "' + "{x}" * n + '"\n'),
    "long-error-col": ("chain", lambda n: "def a := 1" + " " * n + ")\n"),
}


def cases(ck, quick):
    rng = ck.rng
    out = list(adversarial(rng, quick))
    # size-indexed families at the nesting bound of the property statement (larger sizes: see `scaling`)
    for name, (group, fn) in FAMILIES.items():
        for n in ((1, 2, 3, 5) if quick else (1, 2, 3, 4, 5, 6, 7, 9, 12)):
            out.append((name, fn(n)))
    # bytes as text
    for _ in range(300 if quick else 30000):
        ln = rng.choice([1, 2, 3, 5, 8, 13, 40, 200])
        b = bytes(rng.randrange(256) for _ in range(ln))
        out.append(("bytes", b.decode("utf-8", errors="replace")))
        out.append(("bytes-latin1", b.decode("latin-1")))
    alpha = list("abz_09 \n\"{}()[]:=<>+-*/.,#!?\\|^\t\r") + ["    ", "def ", "if ", " then\n", "class ", "\n    ", " := ", " => "]
    for _ in range(300 if quick else 30000):
        out.append(("soup", "".join(rng.choice(alpha) for _ in range(rng.randint(1, 60)))))
    for _ in range(200 if quick else 20000):
        out.append(("vocab-soup", " ".join(rng.choice(VOCAB) for _ in range(rng.randint(1, 30)))))
    # generated programs and their token-level mutants (delete / insert / replace / swap / duplicate)
    for _ in range(60 if quick else 1200):
        p_ = gen.program(rng, size=rng.randint(1, 5 if quick else 10), max_depth=2 if quick else 3,
                         features=gen.ALL_FEATURES if rng.random() < 0.3 else None)
        out.append(("program", p_))
        for _k in range(5 if quick else 8):
            out.append(("mutant", mutate(rng, p_, n=rng.choice([1, 1, 2, 4]))))
    # repository samples and their mutants
    samples = sorted(glob.glob(os.path.join(REPO, "tests/resource/**/*.mamba"), recursive=True))
    for f in samples:
        try:
            t_ = open(f, encoding="utf-8").read()
        except Exception:
            continue
        if quick and len(t_) > 1500:
            continue
        out.append(("sample", t_))
        for _k in range(1 if quick else 40):
            out.append(("sample-mutant", mutate(rng, t_, n=rng.choice([1, 1, 2, 4]))))
    seen, uniq = set(), []
    for k, s_ in out:
        if s_ not in seen:
            seen.add(s_)
            uniq.append((k, s_))
    return uniq


# --------------------------------------------------------------------------------------------------
# time versus size
# --------------------------------------------------------------------------------------------------

def fit_slope(good):
    """log-log slope of CPU seconds against characters over the last two measured sizes."""
    (n1, c1), (n2, c2) = good[-2], good[-1]
    return round(math.log(c2 / c1) / math.log(n2 / n1), 2)


def scaling(quick, log, endpoint="transpile", only=None):
    """For every family double the size until one run costs more than `stop` CPU seconds, a size cap is
    reached or the run fails.  Returns {family: {"points": [(n, chars, verdict, cpu)], "slope": s|None,
    "flag": bool, "fail": (n, verdict, detail, src)|None}}; every run also counts as a robustness case.
    A family whose growth looks super-quadratic is measured again on an otherwise idle machine before it is
    flagged (CPU time under sixteen-fold load is noisy)."""
    stop = 0.6 if quick else 20.0
    limit = CASE_TIMEOUT if quick else 300.0
    caps = {"deep": 256 if quick else 8192, "long": 2048 if quick else 8192, "chain": 4096 if quick else 65536}
    names = [n_ for n_ in FAMILIES if only is None or n_ in only]
    res = {}

    def request(src):
        return transpile_line("x", src) if endpoint == "transpile" else f"x\tlex\t{hexs(src)}"

    def verdict(f):
        if endpoint == "transpile" or not f or f[0] not in ("OK", "ERR"):
            return judge(f)
        return ("ok", "") if f[0] == "OK" else ("err", "lex")

    def one(w, k):
        name = names[k]
        group, fn = FAMILIES[name]
        pts, fail, n = [], None, 8
        while n <= caps[group]:
            src = fn(n)
            f, wall, cpu = w.ask(request(src), limit)
            v, d = verdict(f)
            pts.append((n, len(src), v, round(cpu, 3)))
            if v not in ("ok", "err"):
                fail = (n, v, d, src)
                break
            if cpu > stop:
                break
            n *= 2
        res[name] = {"points": pts, "fail": fail}

    pool(len(names), one, max(2, NCPU // 2))
    w = Worker()
    for name in names:
        r = res[name]
        pts, fail = r["points"], r["fail"]
        good = [(ch, c) for _, ch, v, c in pts if v in ("ok", "err") and c >= 0.08]
        slope, flag = None, False
        if len(good) >= 2:
            slope = fit_slope(good)
            if len(good) >= 3:          # a real power law shows on two consecutive doublings
                slope = min(slope, fit_slope(good[:-1]))
            if slope >= SLOPE_FLAG and good[-1][1] >= 0.4:
                # second opinion without load, same two sizes
                again = []
                for n_, ch, v, c in [p_ for p_ in pts if p_[2] in ("ok", "err")][-2:]:
                    f, wall, cpu = w.ask(request(FAMILIES[name][1](n_)), limit)
                    if verdict(f)[0] in ("ok", "err") and cpu >= 0.02:
                        again.append((ch, cpu))
                if len(again) == 2:
                    slope = min(slope, fit_slope(again))
                    r["remeasured"] = again
                flag = slope >= SLOPE_FLAG
        if fail and fail[1] == "TIMEOUT" and good:
            # lower bound on the slope from the run that did not finish
            n1, c1 = good[-1]
            lb = round(math.log(max(pts[-1][3], c1) / c1) / math.log(len(fail[3]) / n1), 2)   # CPU it did consume
            if slope is None or lb > slope:
                slope = lb
            flag = flag or lb >= SLOPE_FLAG
        r["slope"], r["flag"] = slope, flag
    w.stop()
    return res


# --------------------------------------------------------------------------------------------------
# self test of the oracle (a check that cannot fail proves nothing)
# --------------------------------------------------------------------------------------------------

FAKE = r"""
import sys, os, time
for line in sys.stdin:
    i, ep, *rest = line.rstrip("\n").split("\t")
    if i == "hang":
        time.sleep(30)
    if i == "abort":
        os.abort()
    if i == "panic":
        print(i + "\tPANIC\t" + "boom".encode().hex(), flush=True); continue
    if i == "empty":
        print(i + "\tERR\ttype\t", flush=True); continue
    print(i + "\tOK\t", flush=True)
"""


def selftest():
    """The worker and the oracle must recognise a hang, an abort, a panic and an empty diagnostic list."""
    w = Worker([sys.executable, "-c", FAKE])
    got = {}
    try:
        for i in ("fine", "hang", "abort", "panic", "empty", "fine2"):
            w.ask("warm\ttranspile\t0\t", limit=60.0)    # interpreter start-up is not part of the test
            f, _, _ = w.ask(f"{i}\ttranspile\t0\t", limit=1.0)
            got[i] = judge(f)[0]
    finally:
        w.stop()
    want = {"fine": "ok", "hang": "TIMEOUT", "abort": "CRASH", "panic": "PANIC", "empty": "EMPTY", "fine2": "ok"}
    g = parent_graph("class A: B\nclass B(def x: Int): C, A\nclass C\n")
    cyc = sorted(cycle_edges(g)) == [("A", "B"), ("B", "A")] and not cycle_edges(parent_graph(neutralise_cycle("class A: B\nclass B: A\n")))
    mini = "".join(ddmin(list("aaaXbbbYccc"), lambda ps: "X" in ps and "Y" in ps, [200]))
    return got == want and cyc and mini == "XY", {"worker": got, "cycle_predicate": cyc, "ddmin": mini}


# --------------------------------------------------------------------------------------------------
# the check
# --------------------------------------------------------------------------------------------------

def case_text(status, detail, taglist, stage, minimal, src):
    lines = [f"STATUS:{status}", f"DETAIL:{detail}"]
    lines += [f"TAG:{t_}" for t_ in taglist]
    if stage:
        lines.append(f"STAGE:{stage}")
    lines.append("MIN:" + minimal[:3000])
    lines.append("SRC:" + src[:3000])
    return "\n".join(lines)


def run(tier, replay=None):
    ck = Check("C03", tier)
    quick = tier == "quick"
    theorems = ["C03_lex_total", "C03_lex_steps", "C03_lex_no_panic", "C03_lookup_terminates",
                "C03_has_parent_terminates", "C03_lookup_refuted", "C03_self_parent_diverges", "C03_partial"]
    ck.proof(["props/C03.vo"], "props.C03", theorems, translators=["lex_tables"])
    build_driver(ck.log)
    build_harness(ck.log)
    ok_self, self_detail = selftest()
    if not ok_self:
        ck.broken.append({"kind": "oracle-selftest", "where": "lib/vlib/c03.py selftest", "detail": self_detail})

    # ---- campaign ------------------------------------------------------------------------------------
    t0 = time.time()
    if replay:
        cs = [("replay", json.load(open(replay))["input"])]
    else:
        cs = cases(ck, quick)
    ids = [(f"t{i}", s_) for i, (_, s_) in enumerate(cs)]
    res = run_isolated(ids)
    ck.log(f"campaign: {len(ids)} inputs in {time.time() - t0:.1f}s")

    dist, verdicts, failures = {}, {}, []      # failures: (kind, family, verdict, detail, src)
    slowest, cpu_of, stage_of, lex_flagged = [], {}, {}, set()
    for (i, src), (kind, _) in zip(ids, cs):
        f, wall, cpu = res[i]
        v, d = judge(f, src)
        g = kind.split("-")[0] if kind not in FAMILIES else FAMILIES[kind][0]
        dist[g] = dist.get(g, 0) + 1
        verdicts[v] = verdicts.get(v, 0) + 1
        slowest.append((round(cpu, 2), kind, len(src)))
        if v in BAD:
            failures.append((kind, None, v, d, src))

    # inputs that exceeded the limit under load: again, with little load and a long limit (slow is not hung)
    long_limit = 60.0 if quick else 600.0
    redo = [None] * len(failures)

    def again(wk, k):
        kind, fam, v, d, src = failures[k]
        if v == "TIMEOUT":
            f, wall, cpu = wk.ask(transpile_line("r", src), long_limit)
            v2, d2 = judge(f, src)
            cpu_of[src] = cpu
            if v2 == "err":
                stage_of[src] = d2
            if v2 in ("ok", "err"):
                v, d = "SLOW", f"terminates ({v2}) after {cpu:.0f} s of CPU, limit {CASE_TIMEOUT:g} s"
            elif v2 != "TIMEOUT":
                v, d = v2, d2
            else:
                d = f"no answer within {long_limit:g} s"
        redo[k] = (kind, fam, v, d, src)

    pool(len(failures), again, 4)
    failures = redo
    w = Worker()

    # ---- time versus size ------------------------------------------------------------------------------
    sc = {}
    if not replay:
        t1 = time.time()
        sc = scaling(quick, ck.log)
        n_sc = sum(len(x["points"]) for x in sc.values())
        ck.log(f"scaling: {n_sc} runs over {len(sc)} families in {time.time() - t1:.1f}s")
        for name, r in sc.items():
            for n, chars, v, cpu in r["points"]:
                verdicts[v] = verdicts.get(v, 0) + 1
                dist["scaling"] = dist.get("scaling", 0) + 1
            if r["fail"]:
                n, v, d, src = r["fail"]
                if v == "TIMEOUT":
                    v, d = "SLOW", f"family {name} n={n}: no answer within the limit; previous sizes finished"
                    cpu_of[src] = CASE_TIMEOUT if quick else 300.0
                failures.append((name, (name, n), v, d, src))
            if r["flag"]:
                n, chars, v, cpu = [p_ for p_ in r["points"] if p_[2] in ("ok", "err")][-1]
                cpu_of[FAMILIES[name][1](n)] = cpu
                failures.append((name, (name, n), "SUPERQUADRATIC",
                                 f"family {name}: slope {r['slope']} (cpu {cpu} s at n={n}, {chars} chars)", FAMILIES[name][1](n)))

    # the lexer alone on the string families (the stage lex_total / lex_steps_bound speak about)
    sc_lex = {}
    if not replay:
        sc_lex = scaling(quick, ck.log, endpoint="lex",
                         only=("deep-interp", "long-interp-line", "deep-brace-str", "deep-brace-str-rev", "long-string", "long-interp"))
        for name, r in sc_lex.items():
            for n, chars, v, cpu in r["points"]:
                dist["scaling-lex"] = dist.get("scaling-lex", 0) + 1
            if r["fail"]:
                n, v, d, src = r["fail"]
                stage_of[src] = "parse"
                failures.append((name, (name, n), v, f"lex endpoint: {d}", src))
            if r["flag"]:
                n, chars, v, cpu = [p_ for p_ in r["points"] if p_[2] in ("ok", "err")][-1]
                lex_flagged.add(FAMILIES[name][1](n))
                failures.append((name, (name, n), "SUPERQUADRATIC",
                                 f"lex endpoint, family {name}: slope {r['slope']} (cpu {cpu} s at n={n}, {chars} chars)", FAMILIES[name][1](n)))

    # ---- attribute every failure to a root cause ---------------------------------------------------------
    deadline = time.time() + (45 if quick else 1800)
    by_sig = {}
    for fl in failures:
        by_sig.setdefault(signature(fl[2], fl[3]) if fl[2] != "SUPERQUADRATIC" else "TIME", []).append(fl)
    reported = []
    for sig, fls in sorted(by_sig.items()):
        fls.sort(key=lambda x: len(x[4]))
        for k, (kind, fam, v, d, src) in enumerate(fls):
            minimal, taglist, stage = src, [], None
            if sig == "TIME" and src in lex_flagged and d.startswith("lex endpoint"):
                stage = "lex"
            elif sig == "TIME":
                stage, cpu_parse = stage_of_time(src, w, CASE_TIMEOUT if quick else 120.0, cpu_of.get(src, CASE_TIMEOUT),
                                                 stage_of.get(src))
                d += f"; the same text cut short by a syntax error at its end (lex+parse only) takes {cpu_parse:.2f} s"
            else:
                complete = len(src) <= 60
                if fam is None and not complete and time.time() < deadline and len(src) <= 200000:
                    minimal, complete = shrink(src, sig, w, deadline=deadline)
                taglist = tags(minimal, complete, fam, w, sig)
            text = case_text(v, d, taglist, stage, minimal, src)
            fnd = ck.match_finding(text)
            rp = ""
            if fnd is None:
                rp = ck.write_replay("oracle", {"input": src, "minimal": minimal, "status": v, "detail": d,
                                                "tags": taglist, "stage": stage, "kind": kind})
            ck.violation(f"{v}: {d}", rp, text)
            reported.append({"kind": kind, "status": v, "detail": d[:160], "tags": taglist, "stage": stage,
                             "minimal": minimal[:200], "finding": fnd["id"] if fnd else None})
    w.stop()

    # ---- lexer correspondence on the campaign inputs (ties lex_total's model to the code) ------------------
    lex_cases = [(i, s_) for i, s_ in ids if len(s_) <= 3000 and all(ord(ch) < 128 for ch in s_) and "\x00" not in s_]
    if sc:
        for name in ("deep-interp", "deep-brace-str", "deep-brace-str-rev", "long-interp-line", "long-string", "long-spaces"):
            for n in (8, 64, 256):
                lex_cases.append((f"f{name}{n}", FAMILIES[name][1](n)))
    impl = run_sharded(MH, [f"{i}\tlex\t{hexs(s_)}" for i, s_ in lex_cases])
    model = run_sharded(DRIVER, [f"{i}\tlex\t{hexs(s_)}" for i, s_ in lex_cases])
    agree, corr_bad, lex_classes = 0, [], {}
    for i, s_ in lex_cases:
        ir, mr = impl.get(i, ["MISSING"]), model.get(i, ["MISSING"])
        lex_classes[ir[0]] = lex_classes.get(ir[0], 0) + 1
        if ir == mr:
            agree += 1
        else:
            corr_bad.append((s_[:300], "\t".join(ir)[:200], "\t".join(mr)[:200]))
        if ir[0] not in ("OK", "ERR"):
            p_ = ck.write_replay("lex", {"input": s_, "answer": ir})
            ck.violation(f"lexer hook answered {ir[0]}", p_, case_text(ir[0], "lex endpoint", [], "lex", s_, s_))
    if corr_bad:
        ck.broken.append({"kind": "correspondence", "where": "lex endpoint: model/Lex.v vs parse::lex::tokenize",
                          "count": len(corr_bad), "examples": [list(x) for x in corr_bad[:3]]})

    # ---- evidence -------------------------------------------------------------------------------------------
    n_eval = len(ids) + sum(len(x["points"]) for x in sc.values()) + sum(len(x["points"]) for x in sc_lex.values())
    nontriv = verdicts.get("ok", 0)
    slowest.sort(reverse=True)
    ck.cov.update({
        "evaluations": n_eval,
        "distinct_nontrivial": nontriv,
        "rule": "distinct source texts run through mamba_to_python in an isolated worker (limit "
                f"{CASE_TIMEOUT:g} s of CPU, {WALL_FACTOR * CASE_TIMEOUT:g} s of wall clock; every returned error rendered): hand-written adversarial constructs (inheritance "
                "cycles, empty tuples, braces and quotes in strings, error positions after multi-line strings), "
                "size-indexed families (nesting, long files, long lines, operator chains), bytes as text, alphabet and "
                "vocabulary soup, generated programs and token-level mutants of them and of the repository samples; "
                "non-trivial = accepted by the whole pipeline (Python emitted)",
        "explanation": "PROOF covers the lexer model (termination, step bound, domain of partial operations) and the "
                       "class-lookup model only; everything else in this property is TESTING by the campaign",
        "generator_distribution": dist,
        "outcomes": verdicts,
        "failures_reported": reported[:40],
        "time_vs_size": {k: {"slope": v["slope"], "flag": v["flag"], "points": v["points"][-4:]} for k, v in sc.items()},
        "lexer_time_vs_size": {k: {"slope": v["slope"], "flag": v["flag"], "points": v["points"][-4:]} for k, v in sc_lex.items()},
        "slowest_inputs": slowest[:10],
        "lex_correspondence": {"cases": len(lex_cases), "agree": agree, "implementation_outcomes": lex_classes},
        "traces_validated_against_impl": agree,
        "oracle_selftest": self_detail,
        "samples": [{"source": s_[:120], "outcome": judge(res[i][0], s_)[0]} for (i, s_) in ids[:3]],
        "trusted_base": [
            "Coq 8.16.1 kernel; no axioms (Print Assumptions: Closed under the global context)",
            "hand models model/Lex.v (compared byte for byte with the hook on the campaign inputs) and model/Total.v "
            "(class lookup: read from clss/mod.rs, plain names only; tied to the code only by the `class A: A` witness "
            "and the acyclic examples of the campaign)",
            "translator translate/lex_tables.py",
            "stack size of the harness main thread (8 MiB, ulimit -s) and its build profile (opt-level 1) decide at "
            "which depth a terminating recursion overflows; CPU time is read from /proc/<pid>/stat (10 ms ticks)",
            "the time limit turns 'hangs' into 'does not answer within the limit'; slow inputs are re-run with a long limit",
            "extraction: ExtrOcamlBasic, ExtrOcamlString; coq/extract/driver.ml",
        ],
    })
    return ck.finish()
