"""C12 - determinism: verdict and emitted bytes depend on the input alone.

PROOF (Coq, props/C12.v)  : permutation invariance of the modelled hash-ordered sites (model/Order.v) for ALL
                            contents and ALL iteration orders, with `_refuted` witnesses where the code's result
                            does depend on the order.  `C12_partial`: the unifier's own set iterations and
                            processes/threads/histories are outside the model.
RUNTIME TESTING (this file): the `repeat` endpoint runs the real `mamba_to_python` on the same input
                            K times in one process, on T threads at once, after an unrelated warm-up workload, and
                            in three separately started processes.  Direct oracle: one verdict and byte-identical
                            output over all runs.
CORRESPONDENCE             : for the modelled sites the outputs the model predicts over all permutations are compared
                            with the outputs observed: every class body has exactly one observed output and it is
                            the model's (`class_body_outcomes` is a singleton, by theorem); union annotations equal
                            `render (arms_type ..)`; lookups show at most as many outcomes as the model has candidates.
"""
import ast, glob, itertools, json, os, re

from .common import Check, build_harness, hexs, unhex, run_sharded, coq_eval, MH, REPO, NCPU

SEP = "\x1e"

# ------------------------------------------------------------------------------------------------
# generators.  Every case: {"id", "src", "annotate", "cat", "tags": [..], "meta": {..}}
# tags name the KNOWN order-dependent triggers a program contains by construction (class bodies have none any
# more: the position tie of D15 was repaired in /repo 88d54a3, so a class-body difference is a plain violation).
# ------------------------------------------------------------------------------------------------

def coq_str(s):
    return '"' + s.replace('"', '""') + '"'


def members_term(members):
    out = []
    for kind, name in members:
        if kind == "fun":
            out.append(f"MFun {coq_str(name)}")
        elif kind == "var":
            out.append(f"MVar {coq_str(name)} true")
        else:
            out.append("MOther")
    return "[" + "; ".join(out) + "]"


def gen_classbody(rng, k):
    """A class with fields, methods and (sometimes) a doc string in random order; optional parent / class
    argument / hand-written constructor (each makes extract_class insert a synthesised __init__)."""
    n = rng.randint(2, 5)
    members, lines = [], []
    with_doc = rng.random() < 0.25
    doc_at = rng.randrange(n) if with_doc else -1
    n_f = n_m = 0
    for i in range(n):
        if i == doc_at:
            members.append(("other", f"doc{i}"))
            lines.append(f'    """doc{i}"""')
        elif rng.random() < 0.5:
            members.append(("var", f"f{i}"))
            lines.append(f"    def f{i}: Int := {i}")
            n_f += 1
        else:
            members.append(("fun", f"m{i}"))
            lines.append(f"    def m{i}(self) -> Int => {i}")
            n_m += 1
    mode = rng.choice(["plain", "plain", "parent", "arg", "oldinit", "parent2"])
    fields = [nm for kd, nm in members if kd == "var"]
    if mode == "oldinit" and not fields:
        mode = "plain"
    head, pre, call = "class K", "", "K()"
    if mode == "parent":
        pre = "class Base\n    def b0: Int := 0\n\n"
        head = "class K: Base"
    elif mode == "parent2":
        pre = "class Base\n    def b0: Int := 0\n\nclass Other\n    def o0: Int := 0\n\n"
        head = "class K: Base, Other"
    elif mode == "arg":
        head, call = "class K(def a: Int)", "K(1)"
    elif mode == "oldinit":
        at = rng.randrange(len(members) + 1)
        members.insert(at, ("fun", "__init__"))
        lines.insert(at, f"    def __init__(self, z: Int) => self.{fields[0]} := z")
        call = "K(3)"
    mk_init = mode != "plain"
    meths = [nm for kd, nm in members if kd == "fun" and nm != "__init__"]
    tail = f"\n\ndef k := {call}\n" + (f"print(k.{meths[0]}())\n" if meths else "")
    src = pre + head + "\n" + "\n".join(lines) + tail
    return {"src": src, "annotate": rng.random() < 0.5, "cat": "classbody", "tags": [],
            "meta": {"members": members, "mk_init": mk_init, "mode": mode, "cls": "K"}}


# arm types for unions: (mamba expression, Coq tname term, base name)
ARM_TYPES = [
    ("1", 'tn "Int"'), ('"s"', 'tn "Str"'), ("2.5", 'tn "Float"'), ("True", 'tn "Bool"'),
    ("MyA()", 'tn "MyA"'), ("MyB()", 'tn "MyB"'), ("MyC()", 'tn "MyC"'), ("None", 'tn "None"'),
    ("[1, 2]", 'tng "List" [[tn "Int"]]'), ('{"s"}', 'tng "Set" [[tn "Str"]]'),
    ("[MyA()]", 'tng "List" [[tn "MyA"]]'), ('(1, "a")', 'tng "Tuple" [[tn "Int"]; [tn "Str"]]'),
    ("(MyB(), 2.5)", 'tng "Tuple" [[tn "MyB"]; [tn "Float"]]'),
]


def gen_union(rng, k):
    """`def u := match c` with arms of different types (the unifier unions them; with annotations on, the
    generator renders the union)."""
    src = "class MyA\nclass MyB\nclass MyC\ndef c := 3\n"
    unions = []
    for j in range(rng.randint(1, 3)):
        n = rng.randint(2, 4)
        arms = rng.sample(ARM_TYPES, n)
        src += f"def u{j} := match c\n"
        for i, (e, _) in enumerate(arms):
            pat = "_" if i == n - 1 else str(i + 1)
            src += f"    {pat} => {e}\n"
        unions.append({"var": f"u{j}", "arms": [t for _, t in arms]})
    if rng.random() < 0.5:
        a, b = rng.sample(ARM_TYPES[:7], 2)
        src += f"def w := if c > 1 then {a[0]} else {b[0]}\n"
    return {"src": src, "annotate": rng.random() < 0.75, "cat": "union", "tags": [],
            "meta": {"unions": unions}}


GENERIC_BUILTINS = ["List", "Set", "Dict", "Collection", "Callable"]


def gen_dupclass(rng, k):
    """Two classes with one base name but different generics (or a user class named like a generic built-in);
    `twin` renames the second one away."""
    v = rng.choice(["plain+generic", "generic+plain", "builtin", "two-generic"])
    extra = "".join(f"class Pad{i}\n    def p{i}: Int := {i}\n\n" for i in range(rng.randint(0, 3)))

    def build(twin):
        if v == "builtin":
            use = nm if not twin else "My" + nm
            return extra + f"class {use}\n    def zz: Int := 1\n\ndef x := {use}()\nprint(x.zz)\n"
        second = "Foo" if not twin else "Foo2"
        a = "class Foo\n    def a: Int := 1\n\n"
        b = f"class {second}[T]\n    def b: Str := \"x\"\n\n"
        if v == "two-generic":
            a = "class Foo[T, U]\n    def a: Int := 1\n\n"
        return extra + (a + b if v != "generic+plain" else b + a) + "def x := Foo()\nprint(x.a)\n"
    nm = rng.choice(GENERIC_BUILTINS)
    return {"src": build(False), "annotate": rng.random() < 0.5, "cat": "dupclass", "tags": ["dupclass"],
            "meta": {"variant": v, "candidates": 2},
            "neutral": {"src": build(True), "meta": {"variant": v, "candidates": 1}}}


def gen_dupfun(rng, k):
    """Top-level functions with one name and different signatures (in one file or in two)."""
    v = rng.choice(["types", "arity", "ret", "two-files", "three"])
    first = rng.random() < 0.5
    extra = "".join(f"def pad{i}(x: Int) -> Int => x + {i}\n" for i in range(rng.randint(0, 3)))

    def build(twin):
        second, third = ("helper", "helper") if not twin else ("helper2", "helper3")
        f1 = "def helper(x: Int) -> Int => x + 1\n"
        f2 = {"types": f"def {second}(x: Str) -> Str => x\n",
              "arity": f"def {second}(x: Int, y: Int) -> Int => x + y\n",
              "ret": f"def {second}(x: Int) -> Str => \"a\"\n",
              "two-files": f"def {second}(x: Str) -> Str => x\n",
              "three": f"def {second}(x: Str) -> Str => x\ndef {third}(x: Float) -> Float => x\n"}[v]
        use = "def r := helper(1)\nprint(r)\n"
        if v == "two-files":
            return extra + f1 + use + SEP + f2
        return extra + (f1 + f2 if first else f2 + f1) + use
    return {"src": build(False), "annotate": rng.random() < 0.5, "cat": "dupfun", "tags": ["dupfun"],
            "meta": {"variant": v, "candidates": 3 if v == "three" else 2},
            "neutral": {"src": build(True), "meta": {"variant": v, "candidates": 1}}}


def gen_parents(rng, k):
    """A class with two or three parents; `clash`: two parents define the same member differently."""
    n = rng.choice([2, 2, 3])
    kind = rng.choice(["method", "field"])
    tys = [("Int", "1"), ("Str", '"a"'), ("Float", "2.5")]

    def build(clash):
        src = ""
        for i in range(n):
            nm = "f" if (clash and i < 2) or i == 0 else f"g{i}"
            ty, val = tys[i]
            if kind == "method":
                src += f"class P{i}\n    def {nm}(self) -> {ty} => {val}\n\n"
            else:
                src += f"class P{i}\n    def {nm}: {ty} := {val}\n\n"
        src += "class C: " + ", ".join(f"P{i}" for i in range(n)) + "\n    def own: Int := 2\n\n"
        return src + "def c := C()\n" + ("def r := c.f()\n" if kind == "method" else "def r := c.f\n") + "print(r)\n"
    return {"src": build(True), "annotate": rng.random() < 0.6, "cat": "parents", "tags": ["parentclash"],
            "meta": {"n": n, "kind": kind, "candidates": 2},
            "neutral": {"src": build(False), "meta": {"n": n, "kind": kind, "candidates": 1}}}


def gen_mixed(rng, k):
    """Several order-sensitive constructs without any known trigger: must be deterministic."""
    src = "class MyA\nclass MyB\n\n"
    src += "class Base\n    def b0: Int := 0\n    def bm(self) -> Int => 1\n\n"
    nf, nm = rng.randint(1, 3), rng.randint(1, 3)
    src += "class K: Base\n" + "".join(f"    def f{i}: Int := {i}\n" for i in range(nf))
    src += "".join(f"    def m{i}(self) -> Int => {i}\n" for i in range(nm)) + "\n"
    for i in range(rng.randint(1, 3)):
        src += f"def fun{i}(x: Int) -> Int => x + {i}\n"
    src += "def c := fun0(3)\n"
    arms = rng.sample(ARM_TYPES[:8], 3)
    src += "def u := match c\n" + "".join(f"    {('_' if i == 2 else i + 1)} => {e}\n" for i, (e, _) in enumerate(arms))
    src += "def k := K()\nprint(k.m0() + k.bm() + c)\n"
    src += "def l := [1, \"a\", 2.5]\ndef s := {1, \"a\"}\n"
    src += "def g(x: Int) -> Int? => if x > 1 then x else None\n"
    return {"src": src, "annotate": rng.random() < 0.7, "cat": "mixed", "tags": [], "meta": {}}


def gen_declared_union(rng, k):
    """Unions WRITTEN as types (parameters, results, definitions), members plain, partly nullable or all nullable,
    two to four members: only determinism is judged (no model prediction of the rendering)."""
    base = ["Int", "Str", "Float", "Bool", "MyA", "MyB"]
    src = "class MyA\nclass MyB\n"
    for j in range(rng.randint(2, 4)):
        ms = rng.sample(base, rng.randint(2, 4))
        mode = rng.choice(["plain", "some", "all", "all"])
        mem = [m + ("?" if mode == "all" or (mode == "some" and rng.random() < 0.5) else "") for m in ms]
        u = "{" + ", ".join(mem) + "}"
        nullable = any(m.endswith("?") for m in mem)
        init = "None" if nullable else {"Int": "1", "Str": "\"s\"", "Float": "2.5", "Bool": "True", "MyA": "MyA()", "MyB": "MyB()"}[ms[0]]
        form = rng.choice(["def", "fun", "both"])
        if form in ("def", "both"):
            src += f"def d{j}: {u} := {init}\n"
        if form in ("fun", "both"):
            src += f"def p{j}(flag: Bool, first: {u}) -> {u} => first\n"
    return {"src": src, "annotate": rng.random() < 0.85, "cat": "declunion", "tags": [], "meta": {}}


GENERATORS = [("classbody", gen_classbody, 5), ("union", gen_union, 3), ("dupclass", gen_dupclass, 1.2),
              ("dupfun", gen_dupfun, 1.2), ("parents", gen_parents, 1.5), ("mixed", gen_mixed, 1),
              ("declunion", gen_declared_union, 2)]

WITNESSES = [  # the hand-written witnesses of the findings and of DESIGN.md, always run
    {"src": "class A\n    def m1(self) -> Int => 1\n    def f1: Int := 1\n    def f2: Int := 2\n"
            "    def m2(self) -> Int => 2\n    def f3: Int := 3\n", "annotate": False, "cat": "classbody", "tags": [],
     "meta": {"members": [("fun", "m1"), ("var", "f1"), ("var", "f2"), ("fun", "m2"), ("var", "f3")],
              "mk_init": False, "mode": "plain", "cls": "A"}},
    {"src": "class Foo\n    def a: Int := 1\n\nclass Foo[T]\n    def b: Str := \"x\"\n\ndef x := Foo()\nprint(x.a)\n",
     "annotate": True, "cat": "dupclass", "tags": ["dupclass"], "meta": {"candidates": 2}},
    {"src": "class List\n    def zz: Int := 1\n\ndef x := List()\nprint(x.zz)\n",
     "annotate": True, "cat": "dupclass", "tags": ["dupclass"], "meta": {"candidates": 2}},
    {"src": "def helper(x: Int) -> Int => x + 1\ndef helper(x: Str) -> Str => x\n\ndef r := helper(1)\nprint(r)\n",
     "annotate": True, "cat": "dupfun", "tags": ["dupfun"], "meta": {"candidates": 2}},
    {"src": "class P1\n    def f(self) -> Int => 1\n\nclass P2\n    def f(self) -> Str => \"a\"\n\n"
            "class C: P1, P2\n    def g(self) -> Int => 2\n\ndef c := C()\ndef r := c.f()\nprint(r)\n",
     "annotate": True, "cat": "parents", "tags": ["parentclash"], "meta": {"candidates": 2}},
]


def generate(ck, n_total):
    cases = [dict(w) for w in WITNESSES]
    total_w = sum(w for _, _, w in GENERATORS)
    seen = {(c["src"], c["annotate"]) for c in cases}
    for name, fn, w in GENERATORS:
        want, tries = int(n_total * w / total_w), 0
        got = 0
        while got < want and tries < want * 20:
            tries += 1
            c = fn(ck.rng, got)
            key = (c["src"], c["annotate"])
            if key in seen:
                continue
            seen.add(key)
            cases.append(c)
            got += 1
    out = []
    for i, c in enumerate(cases):
        c["id"] = f"g{i}"
        out.append(c)
        nt = c.pop("neutral", None)
        if nt is not None:
            c["twin"] = f"g{i}n"
            out.append({"id": f"g{i}n", "src": nt["src"], "annotate": c["annotate"], "cat": c["cat"], "tags": [],
                        "meta": nt["meta"], "twin_of": c["id"]})
    return out


def sample_cases(quick):
    files = sorted(glob.glob(os.path.join(REPO, "tests", "resource", "valid", "**", "*.mamba"), recursive=True))
    cases = []
    for i, f in enumerate(files):
        src = open(f, encoding="utf-8").read()
        for a in (True, False):
            cases.append({"id": f"s{i}{'a' if a else 'n'}", "src": src, "annotate": a, "cat": "sample", "tags": [],
                          "meta": {"file": os.path.relpath(f, REPO)}})
    return cases


# ------------------------------------------------------------------------------------------------
# running
# ------------------------------------------------------------------------------------------------

WARMUP = ("class W1\n    def a: Int := 1\n    def m(self) -> Int => self.a\n\nclass W2: W1\n    def b: Str := \"b\"\n\n"
          "def w := W2()\ndef q := match w.m()\n    1 => \"one\"\n    2 => 2\n    _ => W1()\n"
          "def l := [1, \"a\", 2.5]\nfor i in l do print(i)\n")


def repeat_line(cid, c, k, t, r, warm=None, kw=0):
    f = [cid, "repeat", "1" if c["annotate"] else "0", hexs(c["src"]), str(k), str(t), str(r)]
    if warm is not None:
        f += [hexs(warm), str(kw)]
    return "\t".join(f)


def parse_answer(r):
    """-> (list of outcome strings 'K:text' in table order, {'seq': [...], 'thr': [...], 'warm': [...]})"""
    if not r or r[0] != "OK":
        st = r[0] if r else "MISSING"
        return [f"X:{st} {' '.join(r[1:2])}"], {"seq": [0], "thr": [], "warm": []}
    idx = {}
    for f in r[1:4]:
        nm, _, v = f.partition("=")
        idx[nm] = [int(x) for x in v.split(",") if x != ""]
    table = []
    for o in r[4:]:
        kind, _, h = o.partition(",")
        table.append(kind + ":" + unhex(h))
    return table, idx


def normalise_class_bodies(py):
    """ast dump of the module with every class body sorted: equal for two outputs iff they differ only in the
    order of class-body statements."""
    try:
        tree = ast.parse(py)
    except SyntaxError:
        return None
    for node in ast.walk(tree):
        if isinstance(node, ast.ClassDef):
            node.body.sort(key=lambda s: ast.dump(s))
    return ast.dump(tree)


def classify(outcomes):
    kinds = {o[0] for o in outcomes}
    if len(kinds) > 1:
        return "verdict", "verdict"
    if kinds == {"E"}:
        return "diagnostics", "text"
    if kinds == {"O"}:
        norms = [normalise_class_bodies(o[2:].replace(SEP, "\n")) for o in outcomes]
        if all(n is not None for n in norms) and len(set(norms)) == 1:
            return "bytes", "class-body-order"
        return "bytes", "other"
    return "other", "other"


def case_text(c, outcomes, twin="none"):
    """First line = the canonical classification the known-finding patterns are written against.
    tags: order-dependent triggers present in the input by construction;
    twin: whether the neutralised twin of the input (same program with the trigger removed) was deterministic
    in this run."""
    kind, diff = classify(outcomes)
    tags = ",".join(sorted(c["tags"])) or "none"
    t = f"NONDET kind={kind} diff={diff} tags={tags} twin={twin} gen={c['cat']}\nSRC:\n{c['src']}\nOUTCOMES: {len(outcomes)}\n"
    for i, o in enumerate(outcomes[:4]):
        t += f"[{i}] {o[:1500]}\n"
    return t


def body_labels(py, cls, members, mk_init):
    """Order of the statements of class `cls` in emitted Python, as the model's labels."""
    try:
        tree = ast.parse(py)
    except SyntaxError:
        return None
    idx = {}
    for i, (kd, nm) in enumerate(members):
        idx[("other", "") if kd == "other" else (kd, nm)] = i      # later wins, as in the HashMap
    for node in tree.body:
        if isinstance(node, ast.ClassDef) and node.name == cls:
            out = []
            for s in node.body:
                if isinstance(s, ast.FunctionDef):
                    if s.name == "__init__" and mk_init:
                        out.append("I")
                    else:
                        out.append(str(idx.get(("fun", s.name), "?")))
                elif isinstance(s, ast.AnnAssign) and isinstance(s.target, ast.Name):
                    out.append(str(idx.get(("var", s.target.id), "?")))
                elif isinstance(s, ast.Assign) and isinstance(s.targets[0], ast.Name):
                    out.append(str(idx.get(("var", s.targets[0].id), "?")))
                elif isinstance(s, ast.Expr) and isinstance(s.value, ast.Constant):
                    out.append(str(idx.get(("other", ""), "?")))
                elif isinstance(s, ast.Pass):
                    continue
                else:
                    out.append("?")
            return " ".join(out)
    return None


def model_labels(term):
    """'[[LStmt 1; LInit]; [..]]' -> {'1 I', ..}"""
    res = set()
    for grp in re.findall(r"\[([^\[\]]*)\]", term or ""):
        labs = [("I" if x.strip() == "LInit" else x.strip().replace("LStmt ", "")) for x in grp.split(";") if x.strip()]
        res.add(" ".join(labs))
    return res


ANCHORS = [  # (file under src/, fragment of the code a part of model/Order.v was read from)
    ("generate/name.rs", "self.names.iter().sorted().map(Name::from).collect()"),
    ("generate/name.rs", ".generics.iter().sorted().fold(Name::empty(), |acc, n| acc.union(n))"),
    ("generate/convert/class.rs", "Core::FunDef { id, .. } => ((i + 2, 2), Core::Id { lit: id.clone() })"),
    ("generate/convert/class.rs", "Core::VarDef { var, .. } => ((i, 0), var.deref().clone())"),
    ("generate/convert/class.rs", ".map(|((pos, _), _)| (*pos + 1, 1)).max().unwrap_or((0, 1))"),
    ("generate/convert/class.rs", ".sorted_by_key(|(pos, _)| *pos)"),
    ("check/context/clss/mod.rs", "self.classes.iter().find(|c| c.name.name == class.name)"),
    ("check/context/clss/mod.rs", ".all(|s_f| s_f.name.name != f.name.name)"),
    ("check/context/clss/mod.rs", ".fold(clss, |acc, parent| acc.inherit(parent))"),
    ("check/context/function/mod.rs", "self.functions.iter().find(|c| &c.name == function)"),
    ("check/name/mod.rs", "Vec::from_iter(&self.names).first()"),
    ("check/name/mod.rs", "self.names.union(&name.names).cloned().collect()"),
    ("check/name/string_name/mod.rs", "args.names.iter().next()"),
    ("check/name/true_name/mod.rs", "self.variant.cmp(&other.variant)"),
]


def anchors():
    """Is the code each modelled site was read from still there (whitespace-insensitive)?  A missing anchor does
    not fail the check: the hand model may be stale, and the property is then carried for that site by the
    runtime oracle and the predicted-vs-observed comparison alone; it is recorded in the evidence."""
    missing = []
    for f, frag in ANCHORS:
        try:
            txt = re.sub(r"\s+", "", open(os.path.join(REPO, "src", f), encoding="utf-8").read())
        except OSError:
            txt = ""
        if re.sub(r"\s+", "", frag) not in txt:
            missing.append(f"{f}: {frag}")
    return {"checked": len(ANCHORS), "missing": missing,
            "tie": "model read from these fragments" if not missing else "correspondence-only for the missing sites"}


def self_test(ck):
    """The oracle and the known-finding patterns on hand-made outcomes: a difference that no finding explains must
    come out as a violation, and each finding must match only its own class."""
    a = "O:class K: \n    f1 = 1\n    def m1(self): \n        return 1\n\n"
    b = "O:class K: \n    def m1(self): \n        return 1\n\n    f1 = 1\n"
    c_ = "O:class K: \n    f1 = 2\n    def m1(self): \n        return 1\n\n"
    plain = {"src": "class K\n    def f1: Int := 1\n    def m1(self) -> Int => 1\n", "cat": "classbody", "tags": []}
    dup = dict(plain, cat="dupclass", tags=["dupclass"])
    expect = [
        ("identical runs", plain, [a], "det", None),
        ("class body order differs (D15 is fixed: no finding may absorb it)", plain, [a, b], "none", "VIOLATION"),
        ("class body order differs, twin deterministic", plain, [a, b], "det", "VIOLATION"),
        ("other bytes differ", plain, [a, c_], "none", "VIOLATION"),
        ("verdict differs, no trigger", plain, [a, "E:some error"], "none", "VIOLATION"),
        ("verdict differs, duplicate class name", dup, [a, "E:some error"], "det", "D30"),
        ("duplicate class name, twin nondeterministic", dup, [a, "E:some error"], "nondet", "VIOLATION"),
        ("messages differ, every run rejects", plain, ["E:{Int, Str}", "E:{Str, Int}"], "none", "D33"),
        ("one run panics", plain, [a, "P:boom"], "none", "VIOLATION"),
        ("a worker crashed twice", plain, [a, "X:CRASH 11"], "none", "VIOLATION"),
    ]
    bad = []
    for what, case, outs, twin, want in expect:
        if len(outs) == 1:
            got = None
        else:
            f = ck.match_finding(case_text(case, outs, twin))
            got = f["id"] if f else "VIOLATION"
        if got != want:
            bad.append({"case": what, "expected": want, "got": got})
    ck.cov["oracle_self_test"] = {"cases": len(expect), "failed": bad}
    if bad:
        ck.broken.append({"kind": "oracle-self-test", "where": "classify/case_text/known-finding patterns", "examples": bad})


def run(tier, replay=None):
    ck = Check("C12", tier)
    self_test(ck)
    ck.cov["model_anchors"] = anchors()
    if ck.cov["model_anchors"]["missing"]:
        ck.log(f"model anchors missing: {ck.cov['model_anchors']['missing']}")
    quick = tier == "quick"
    theorems = ["C12_partial", "C12_render_union_perm", "C12_class_body_perm", "C12_positions_distinct",
                "C12_old_numbering_refuted", "C12_class_lookup_perm", "C12_class_lookup_refuted",
                "C12_fun_lookup_perm", "C12_fun_lookup_refuted", "C12_member_lookup_perm",
                "C12_member_lookup_refuted", "C12_is_temporary_perm", "C12_is_temporary_refuted",
                "C12_callable_args_perm", "C12_name_union_perm", "C12_trim_super_perm", "C12_perms_spec"]
    import time
    t0 = time.time()
    ck.proof(["props/C12.vo"], "props.C12", theorems)
    ck.log(f"proof side done at {time.time() - t0:.0f}s")
    build_harness(ck.log)

    # ---- cases -------------------------------------------------------------------------------------
    if replay:
        data = json.load(open(replay))
        cases = [{"id": "r0", "src": data["input"]["src"], "annotate": data["input"]["annotate"],
                  "cat": data["input"].get("cat", "replay"), "tags": data["input"].get("tags", []),
                  "meta": data["input"].get("meta", {})}] if "input" in data else []
        for c in cases:
            if "members" in c["meta"]:
                c["meta"]["members"] = [tuple(m) for m in c["meta"]["members"]]
    else:
        cases = generate(ck, 150 if quick else 2000) + sample_cases(quick)
    by_id = {c["id"]: c for c in cases}

    # ---- model side (Coq, vm_compute): the proved trigger and the predicted output sets ------------------
    terms, owners = [], []
    for c in cases:
        m = c["meta"]
        if c["cat"] == "classbody" and "members" in m:
            mt, mk = members_term(m["members"]), "true" if m["mk_init"] else "false"
            terms.append(f"class_body_outcomes {mk} {mt}")
            owners.append((c["id"], "body"))
        if c["cat"] == "union":
            for u in m["unions"]:
                arms = "[" + "; ".join(f"[{a}]" for a in u["arms"]) + "]"
                # prediction in source order and the set of predictions over all orders of the member sets
                terms.append(f"render 8 (arms_type sup_basic {arms})")
                owners.append((c["id"], "union:" + u["var"]))
    model = {}
    if terms:
        vals = coq_eval(["model.Order"], terms, timeout=900)
        ck.log(f"model evaluated {len(terms)} terms, at {time.time() - t0:.0f}s")
        for (cid, what), v in zip(owners, vals):
            model.setdefault(cid, {})[what] = v
    for c in cases:
        b = model.get(c["id"], {}).get("body")
        if b is not None:
            c["meta"]["predicted"] = sorted(model_labels(b))

    # ---- implementation side: three separately started process generations ----------------------------
    K, T = (16, 8)
    order_a = list(cases)
    order_b = list(reversed(cases))                      # different history inside the worker processes
    order_c = cases[1::2] + cases[0::2]
    def ka(c):   # quick tier: the un-annotated run of a repository sample gets half the repetitions
        return (K // 2, T // 2) if quick and c["cat"] == "sample" and not c["annotate"] else (K, T)
    batch_a = [repeat_line(c["id"], c, ka(c)[0], ka(c)[1], 1 if quick else 2) for c in order_a]
    batch_b = [repeat_line(c["id"], c, 0, 0, 0, WARMUP, 4 if quick else 16) for c in order_b]
    batch_c = [repeat_line(c["id"], c, 2 if quick else 16, 2 if quick else 8, 1) for c in order_c]
    shards = min(NCPU, max(1, len(cases) // 8))
    runs, retried = [], 0
    for name, batch in (("A", batch_a), ("B", batch_b), ("C", batch_c)):
        res = run_sharded(MH, batch, shards=shards, timeout=3000)
        # an answer that is missing or not OK (worker killed from outside, crash) is asked once more from a
        # fresh process of its own; only if it fails again does the failure count as an outcome of the case
        again = [ln for ln in batch if (res.get(ln.split("\t")[0]) or ["MISSING"])[0] != "OK"]
        for ln in again:
            res.update(run_sharded(MH, [ln], shards=1, timeout=600))
        if again:
            ck.log(f"process generation {name}: {len(again)} case(s) asked again from a fresh process")
        retried += len(again)
        runs.append((name, res))
        ck.log(f"process generation {name}: {len(batch)} cases answered {len(res)}, at {time.time() - t0:.0f}s")

    n_runs = 0
    nondet, det = [], 0
    stats = {"verdict_ok": 0, "verdict_err": 0, "other": 0}
    per_cat = {}
    observed = {}
    for c in cases:
        outs, where = [], {}
        for name, res in runs:
            table, idx = parse_answer(res.get(c["id"]))
            n_runs += sum(len(v) for v in idx.values())
            for phase, ixs in idx.items():
                for ix in ixs:
                    o = table[ix] if ix < len(table) else "X:bad index"
                    if o not in outs:
                        outs.append(o)
                    where.setdefault(outs.index(o), set()).add(f"{name}.{phase}")
        observed[c["id"]] = outs
        pc = per_cat.setdefault(c["cat"], {"cases": 0, "nondeterministic": 0})
        pc["cases"] += 1
        k0 = outs[0][0] if outs else "X"
        stats["verdict_ok" if k0 == "O" else "verdict_err" if k0 == "E" else "other"] += 1
        if len(outs) == 1:
            det += 1
        else:
            pc["nondeterministic"] += 1
            nondet.append((c, outs, {k: sorted(v) for k, v in where.items()}))

    # ---- direct oracle --------------------------------------------------------------------------------
    nondet_ids = {c["id"] for c, _, _ in nondet}

    def twin_status(c):
        if "twin" not in c or c["twin"] not in by_id:
            return "none"
        return "nondet" if c["twin"] in nondet_ids else "det"
    for c, outs, where in nondet:
        text = case_text(c, outs, twin_status(c))
        p = ck.write_replay("nondet", {"input": {"src": c["src"], "annotate": c["annotate"], "cat": c["cat"],
                                                 "tags": c["tags"], "meta": c["meta"]},
                                       "what": "the same input gave different results",
                                       "classification": text.splitlines()[0],
                                       "outcomes": outs[:6], "seen_in": where})
        ck.violation("same input, different verdict/output", p, text)

    # ---- correspondence: model-predicted set of outputs vs observed -----------------------------------
    corr_bad, corr_ok = [], 0
    bodies_checked = 0
    union_checked = union_rejected = 0
    for c in cases:
        outs = observed[c["id"]]
        m = c["meta"]
        if c["cat"] == "classbody" and "predicted" in m:
            pys = [o[2:] for o in outs if o.startswith("O:")]
            if not pys:
                continue
            labs = {body_labels(p, m["cls"], m["members"], m["mk_init"]) for p in pys}
            pred = set(m["predicted"])
            bodies_checked += 1
            if len(pred) != 1:
                corr_bad.append((c["src"], f"model predicts {len(pred)} bodies {sorted(pred)}; the theorem says one"))
            elif len(pys) != 1 or labs != pred:
                corr_bad.append((c["src"], f"observed {len(pys)} output(s) with bodies {sorted(map(str, labs))}, "
                                           f"model body {sorted(pred)}"))
            else:
                corr_ok += 1
        elif c["cat"] == "union" and c["annotate"]:
            pys = [o[2:] for o in outs if o.startswith("O:")]
            if not pys:
                union_rejected += 1
                continue
            for u in m["unions"]:
                mm = re.search(r'"(.*)"', model.get(c["id"], {}).get("union:" + u["var"]) or "")
                want = mm.group(1) if mm else "<no model answer>"
                anns = set()
                for p in pys:
                    anns |= set(re.findall(rf"^\s*{u['var']}: (.*?) = ", p, re.M))
                union_checked += 1
                if anns == {want}:
                    corr_ok += 1
                else:
                    corr_bad.append((c["src"], f"{u['var']}: model renders {want!r}, implementation {sorted(anns)}"))
        elif c["cat"] in ("dupclass", "dupfun", "parents") and "candidates" in m:
            if len(outs) > m["candidates"]:
                corr_bad.append((c["src"], f"{len(outs)} distinct outcomes but the model has only "
                                           f"{m['candidates']} lookup candidates"))
            else:
                corr_ok += 1
    if corr_bad:
        ck.broken.append({"kind": "correspondence", "where": "Order.v predicted output sets vs observed outputs",
                          "examples": [list(x) for x in corr_bad[:4]], "count": len(corr_bad)})

    # ---- evidence ---------------------------------------------------------------------------------------
    distinct = len({(c["src"], c["annotate"]) for c in cases})
    nontrivial = len({(c["src"], c["annotate"]) for c in cases if c["cat"] != "sample" or len(c["src"]) > 80})
    samples = []
    for c, outs, where in nondet[:3]:
        samples.append({"classification": case_text(c, outs, twin_status(c)).splitlines()[0], "source": c["src"][:300],
                        "distinct_outcomes": len(outs), "seen_in": where})
    for c in cases:
        if c["cat"] == "classbody" and "predicted" in c["meta"] and len(samples) < 5:
            samples.append({"source": c["src"][:300], "model_predicted_bodies": c["meta"]["predicted"],
                            "observed_outcomes": len(observed[c["id"]])})
            break
    ck.cov.update({
        "evaluations": n_runs,
        "cases": len(cases),
        "distinct_nontrivial": nontrivial,
        "distinct_cases": distinct,
        "deterministic_cases": det,
        "nondeterministic_cases": len(nondet),
        "per_category": per_cat,
        "first_outcome_kinds": stats,
        "runs_per_case": {"process A": f"{K} sequential + {T} threads x {1 if quick else 2}"
                                       + (" (8 + 4 for the un-annotated run of a repository sample)" if quick else ""),
                          "process B": f"warm-up workload, then {4 if quick else 16} sequential",
                          "process C": f"{2 if quick else 16} sequential + {2 if quick else 8} threads",
                          "processes": 3, "case order differs per process generation": True},
        "rule": "generated programs per order-sensitive site (class bodies with fields/methods/doc string in random "
                "order with optional parent, class argument or constructor; match/if unions over 13 arm types; "
                "same-named generic/non-generic classes incl. names of generic built-ins; same-named functions in "
                "one or two files; 2-3 parents with/without a shared member name; trigger-free mixtures; each "
                "generator of a known trigger also emits the neutralised twin) + the 5 hand-written witnesses + every "
                "tests/resource/valid/**/*.mamba with both annotate values; distinct by (source, annotate); "
                "non-trivial = everything except samples shorter than 80 characters",
        "proof_part": "Coq: C12_partial and the per-site theorems/refutations in props/C12.v (all permutations, all "
                      "contents); says nothing about unmodelled unifier iterations, threads, processes, histories",
        "runtime_testing_part": "repeat endpoint on the real mamba_to_python: all runs of a case must agree on "
                                "verdict and bytes; this is the only part that covers threads/processes/warm-up and "
                                "the unmodelled code",
        "correspondence": {"agree": corr_ok, "disagree": len(corr_bad),
                           "class_bodies_with_exactly_one_observed_output_equal_to_the_model": bodies_checked
                           - sum(1 for x in corr_bad if "bod" in x[1]),
                           "class_bodies_checked": bodies_checked,
                           "union_annotations_checked": union_checked, "union_programs_rejected": union_rejected,
                           "examples": [list(x) for x in corr_bad[:3]]},
        "traces_validated_against_impl": corr_ok,
        "samples": samples or [{"source": cases[0]["src"][:200]}],
        "exhaustive": False,
        "answers_asked_again_from_a_fresh_process": retried,
        "trusted_base": [
            "Coq 8.16.1 kernel; vm_compute in the refutation witnesses and in coq_eval; no axioms "
            "(Print Assumptions: Closed under the global context)",
            "model/Order.v is a hand model of the listed sites (read from the Rust source, not generated); its "
            "faithfulness is checked only through the predicted-vs-observed output sets for class bodies, union "
            "annotations and lookup candidate counts; is_temporary/callable_args/name_union/trim_super have no "
            "separate runtime correspondence",
            "modelling claims: itertools sorted()/sorted_by_key are stable sorts; a fresh RandomState per hash table "
            "makes every permutation possible; Ord for Name equals tcmp on canonical forms",
            "harness/src/repeat.rs, std::thread, run_sharded (process isolation), python3 ast for reading emitted classes",
            "runtime testing is sampling: K, T, 3 processes; a rarely taken order can be missed",
        ],
    })
    ck.assumptions += [
        "a list that is a permutation of the set stands for a hash iteration order; members of a set are pairwise "
        "different under Rust's Eq (hypothesis NoDup (map canon l))",
        "threads, processes and earlier workloads are outside the Coq model (runtime testing only)",
    ]
    return ck.finish(level="proof")
