"""C05 - declared signatures are enforced: conforming uses pass, others are rejected.

proof         : props/C05.v over model/Typing.v: `check noq p = true <-> conforms p` for every program of the
                mini-language, the implementation's rule set outside the known classes, locality, refutations.
tie           : translate/stub_sigs.py regenerates the method signatures; verdict correspondence = implementation
                (`transpile` endpoint, OK / ERR type) vs `Typing.check (impl_quirks ..)` evaluated by coqc on the same
                programs (generated conforming programs, single-point mutants, fixed corpus).
direct oracle : the declarative relation computed by lib/vlib/typing_common.Spec (independent of Coq, cross-checked
                with `check noq`): conforming => accepted, non-conforming mutant => rejected.

The accepted fragment was found by running the generator against the implementation; every over-rejection met on the
way is a finding with a witness in the corpus (typing_common.corpus) and the generator avoids the construct:
  bare expression as function result, equal `return e` under two return types, reassigning a literal / None / field to a
  variable of a wider type (the literal is retyped file-wide), reading a field at a wider type, values of two exact
  types for one field, a value-returning call or a handle definition that ends a branch / arm, `pass` arm in a
  function with return type, `x ? d` / unary minus / if-expression as receiver (print, operand), `!=` on Int,
  None / T? for a T? formal of a function or constructor, `f() ? d`."""
import json

from .common import Check, build_harness
from . import typing_common as tc

KINDS = {"wrong-type", "missing-arg", "extra-arg", "wrong-recv", "supertype", "subtype", "supertype-field", "subtype-field", "aug-result", "inferred-wrong"}
THEOREMS = ["C05_check_iff", "C05_check_iff_any_tables", "C05_outside_known", "C05_known_classes", "C05_witnesses",
            "C05_accepts_nonconforming_refuted", "C05_rejects_conforming_refuted", "C05_rejects_nullable_formal",
            "C05_conforms_local", "C05_nonconforming_anywhere", "C05_local_expr", "C05_stmt_exprs", "C05_args"]


def run(tier, replay=None):
    return tc.run_check("C05", tier, replay, THEOREMS, ["props/C05.vo"], "props.C05", KINDS, "mixed",
                        with_python=False)
