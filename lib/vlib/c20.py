"""C20 - assignability is a sound order (and the rule-level half of C06).

proof        : props/C20.v over model/Types.v. Unbounded: every acyclic class table of non-generic classes
               (the regenerated built-in table extended by any user table is an instance) - reflexive,
               transitive, Any top, ancestors, unrelated classes, nullable rules, union laws, order irrelevance.
               Bounded: all pairs/triples of the 143-type universe of model/TypesUniv.v (generic instantiations
               of depth <= 2, tuples, function types) decided by vm_compute. Class table regenerated from the
               stub files on every run (translate/stubs.py -> gen/Stubs.v, side condition stubs_wf).
tie          : `types matrix` / `types unions` of the harness (public API: Context::try_from, Name::is_superset_of,
               Name::union) against Types.is_superset / Types.union on the same universe (all pairs), on random
               user hierarchies, and on sampled unions-of-unions
direct oracle: the algebraic laws evaluated on the implementation's own answers (all pairs, all triples for
               transitivity and associativity; union laws over all/sampled unions); repeated in fresh processes
               for order independence (HashSet iteration order differs per process)
end to end   : `def v: T := <value>` / `def x: U := v` accepted iff the relation says so
"""
import itertools, json, os, re, subprocess, time

from .common import Check, build_harness, coq_eval, hexs, unhex, run_lines, MH, REPO, BuildError

USER_SRC = "class A\nclass B: A\nclass C: A\nclass D: B, C\nclass E: D\nclass U\n"
TUPLE_PROG = 'def x: (Int, Str) := (1, "a", True)\n'
USER_TABLE = {"A": [], "B": ["A"], "C": ["A"], "D": ["B", "C"], "E": ["D"], "U": []}

THEOREMS = ["C20_total", "C20_super_refl", "C20_super_trans", "C20_any_top", "C20_ancestor", "C20_unrelated",
            "C06_nullable_rule", "C20_union_upper", "C20_union_member_fwd", "C20_union_member_bwd_outside_known",
            "C20_union_comm", "C20_union_idem_outside_known", "C20_union_assoc_outside_known",
            "C20_order_irrelevant", "C20_same_members_same_answer", "C20_hypotheses_decidable", "C20_stubs_wf",
            "C20_universe", "C20_union_assoc_refuted", "C20_super_refl_refuted", "C20_union_member_refuted",
            "C20_union_idem_refuted", "C20_super_trans_refuted", "C20_union_upper_refuted", "C06_any_accepts_none",
            "C20_cyclic_diverges", "C20_universe_trans_when_fixed"]

# names that exercise the error paths of the model (correspondence only; not part of the law universe)
EXTRAS = ["{}", "()", "Tuple", "List", "Foo", "None?", "List[{Int,Str}]", "~{Int,Bool}", "~{Int,Str?}", "~Range",
          "Fun(Int)->Str?", "Dict[Int]", "(Int,{Str,Bool})", "Set[Foo]", "{Int,Foo}", "Callable", "Collection[T]",
          "List[None]", "{None,None?}", "(None,Int)", "Union[Int,Str]", "~{}", "List[~Int]", "{A?,None}"]


# ---- the text syntax of names (same grammar as harness/src/types.rs) -------------------------------------------

def parse_name(s):
    """text -> (inter, [tn]) ; tn = (nullable, class name, [name])"""
    pos = [0]

    def peek():
        return s[pos[0]] if pos[0] < len(s) else ""

    def eat(ch):
        if peek() == ch:
            pos[0] += 1
            return True
        return False

    def lst(close):
        out = []
        if eat(close):
            return out
        while True:
            out.append(name())
            if eat(","):
                continue
            if not eat(close):
                raise ValueError(f"expected {close} at {pos[0]} in {s}")
            return out

    def name():
        inter = eat("~")
        if eat("{"):
            ms = []
            if not eat("}"):
                while True:
                    ms.append(tn())
                    if eat(","):
                        continue
                    if not eat("}"):
                        raise ValueError(f"expected }} at {pos[0]} in {s}")
                    break
        else:
            ms = [tn()]
        return (inter, ms)

    def tn():
        n, g = sn()
        return (eat("?"), n, g)

    def sn():
        if eat("("):
            el = lst(")")
            return ("()", []) if not el else ("Tuple", el)
        st = pos[0]
        while peek() and (peek().isalnum() or peek() in "_@"):
            pos[0] += 1
        ident = s[st:pos[0]]
        if ident == "Fun" and peek() == "(":
            pos[0] += 1
            args = lst(")")
            if not (eat("-") and eat(">")):
                raise ValueError("expected -> in " + s)
            ret = name()
            return ("Callable", [(False, [(False, "", args)]), ret])
        if not ident and peek() != "[":
            raise ValueError(f"expected a name at {pos[0]} in {s}")
        g = lst("]") if eat("[") else []
        return (ident, g)

    r = name()
    if pos[0] != len(s):
        raise ValueError(f"trailing text at {pos[0]} in {s}")
    return r


def show_tn(t):
    n, s, g = t
    if s == "Tuple" and g:
        body = "(" + ",".join(show_name(a) for a in g) + ")"
    elif s == "Callable" and len(g) == 2 and not g[0][0] and len(g[0][1]) == 1 and g[0][1][0][1] == "" \
            and not g[0][1][0][0]:
        body = "Fun(" + ",".join(show_name(a) for a in g[0][1][0][2]) + ")->" + show_name(g[1])
    elif g:
        body = s + "[" + ",".join(show_name(a) for a in g) + "]"
    else:
        body = s
    return body + ("?" if n else "")


def dedup(ms):
    out = []
    for m in ms:
        if m not in out:
            out.append(m)
    return out


def canon(nm):
    """canonical structure: members deduplicated and sorted by their text, recursively"""
    inter, ms = nm
    cm = [(n, s, [canon(a) for a in g]) for n, s, g in ms]
    cm = sorted(dedup(cm), key=show_tn)
    return (inter, cm)


def show_name(nm):
    inter, ms = canon(nm)
    texts = [show_tn(t) for t in ms]
    body = texts[0] if len(texts) == 1 else "{" + ",".join(texts) + "}"
    return ("~" if inter else "") + body


def coq_ty(t):
    n, s, g = t
    return "TN %s \"%s\" [%s]" % ("true" if n else "false", s,
                                  "; ".join("[" + "; ".join(coq_ty(x) for x in a[1]) + "]" for a in g))


def coq_nm(nm):
    return "{| members := [%s]; inter := %s |}" % ("; ".join(coq_ty(t) for t in nm[1]), "true" if nm[0] else "false")


def coq_strings(text):
    """the string literals of a printed Coq term"""
    return [m.replace('""', '"') for m in re.findall(r'"((?:[^"]|"")*)"', text or "")]


# ---- decidable classes, mirroring model/TypesUniv.v ---------------------------------------------------------------

def tn_eq(a, b):
    return canon((False, [a]))[1] == canon((False, [b]))[1]


def is_null(t):
    return t[1] == "None"


def d22(nm):
    return any(any(any(x[0] for x in a[1]) for a in t[2]) for t in nm[1])


def null_mix(*nms):
    ms = dedup([canon((False, [t]))[1][0] for nm in nms for t in nm[1]])
    return any(is_null(t) for t in ms) and len(ms) > 1


def has_null(*nms):
    return any(is_null(t) for nm in nms for t in nm[1])


def arities(t):
    out = [len(t[2])] if t[1] == "Tuple" else []
    for a in t[2]:
        for x in a[1]:
            out += arities(x)
    return out


def arity_clash(a, b):
    xa = [n for t in a[1] for n in arities(t)]
    xb = [n for t in b[1] for n in arities(t)]
    return any(n != m for n in xa for m in xb)


def mentions(s, t):
    return t[1] == s or any(mentions(s, x) for a in t[2] for x in a[1])


def d31(x, y):
    return any(mentions("Collection", t) for t in x[1]) and any(mentions("Tuple", t) for t in y[1])


def classes(*nms):
    tags = []
    if any(d22(n) for n in nms):
        tags.append("d22")
    if null_mix(*nms):
        tags.append("null_mix")
    if has_null(*nms):
        tags.append("null_member")
    if any(arity_clash(a, b) for a, b in itertools.combinations(nms, 2)):
        tags.append("arity_clash")
    if any(d31(a, b) or d31(b, a) for a, b in itertools.combinations(nms, 2)):
        tags.append("coll_tuple")
    if any(t[0] for n in nms for t in n[1]):
        tags.append("nullable")
    return tags


_TAGS = {}


def tags_of(texts):
    """class tags of a tuple of type texts (memoised)"""
    r = _TAGS.get(texts)
    if r is None:
        r = _TAGS[texts] = " ".join(classes(*[parse_name(x) for x in texts]))
    return r


# ---- runtimes ---------------------------------------------------------------------------------------------------------

class Impl:
    def __init__(self, ck):
        self.ck, self.n = ck, 0

    def ask(self, lines, timeout=900):
        ids = []
        for l in lines:
            self.n += 1
            ids.append(f"q{self.n}")
        res = run_lines(MH, [f"{i}\t{l}" for i, l in zip(ids, lines)], timeout=timeout)
        return [res.get(i, ["MISSING"]) for i in ids]

    def rect(self, src, xs, ys):
        """rows of T/F/E: xs[i] >= ys[j]; split over several lines/processes"""
        if not xs or not ys:
            return ["" for _ in xs]
        from concurrent.futures import ThreadPoolExecutor
        chunk = max(1, min(len(xs), 4000 // max(1, len(ys)) + 1))
        parts = [xs[i:i + chunk] for i in range(0, len(xs), chunk)]

        def one(p):
            r = self.ask([f"types\trect\t{hexs(src)}\t{';'.join(p)}\t{';'.join(ys)}"])[0]
            if r[0] != "OK":
                raise BuildError(f"harness rect failed: {r[:3]}")
            return r[1].split("/") if len(r) > 1 else ["" for _ in p]
        with ThreadPoolExecutor(8) as ex:
            out = []
            for rows in ex.map(one, parts):
                out += rows
        return out

    def unions(self, xs, ys):
        if not xs or not ys:
            return [[] for _ in xs]
        from concurrent.futures import ThreadPoolExecutor
        chunk = max(1, 4000 // max(1, len(ys)) + 1)
        parts = [xs[i:i + chunk] for i in range(0, len(xs), chunk)]

        def one(p):
            r = self.ask([f"types\tunions\t{';'.join(p)}\t{';'.join(ys)}"])[0]
            if r[0] != "OK":
                raise BuildError(f"harness unions failed: {r[:3]}")
            return [row.split(";") for row in r[1].split("/")]
        with ThreadPoolExecutor(8) as ex:
            out = []
            for rows in ex.map(one, parts):
                out += rows
        return out


IMPORTS = ["model.Types", "gen.Stubs", "model.TypesUniv"]


def coq_ctx(table):
    rows = []
    for k, ps in table.items():
        rows.append('{| cl_name := "%s"; cl_gen := []; cl_parents := [%s] |}'
                    % (k, "; ".join('cls_ty "%s"' % p for p in ps)))
    return "(generated ++ [" + "; ".join(rows) + "])"


def nm_list(xs):
    return "[" + "; ".join(coq_nm(parse_name(x)) for x in xs) + "]"


def e_rows(ctx_term, xs, ys):
    """Coq expression: model answers in the layout of Impl.rect"""
    return f"let ys := {nm_list(ys)} in map (fun A => row {ctx_term} A ys) {nm_list(xs)}"


def e_pairs(ctx_term, pairs):
    l = "[" + "; ".join(f"({coq_nm(parse_name(a))}, {coq_nm(parse_name(b))})" for a, b in pairs) + "]"
    return (f"fold_right (fun p acc => String.append (res_char (is_superset {ctx_term} (fst p) (snd p))) acc) "
            f"EmptyString {l}")


def e_unions(pairs):
    l = "[" + "; ".join(f"({coq_nm(parse_name(a))}, {coq_nm(parse_name(b))})" for a, b in pairs) + "]"
    return f"map (fun p => show_nm (union (fst p) (snd p))) {l}"


def one_string(text):
    s = coq_strings(text)
    return s[0] if s else ""


def reversed_name(text):
    def rev(nm):
        inter, ms = nm
        return (inter, [(n, s, [rev(a) for a in g]) for n, s, g in reversed(ms)])
    nm = rev(parse_name(text))
    # printed without canonical sorting so that the model sees the reversed order
    def raw_tn(t):
        n, s, g = t
        return (s + ("[" + ",".join(raw(a) for a in g) + "]" if g else "")) + ("?" if n else "")
    def raw(nm):
        return ("~" if nm[0] else "") + "{" + ",".join(raw_tn(t) for t in nm[1]) + "}"
    return raw(nm)


# ---- random user hierarchies (instances of the unbounded theorems) -----------------------------------------------

def random_table(rng, n):
    names = [f"K{i}" for i in range(n)]
    table = {}
    for i, k in enumerate(names):
        cands = names[:i]
        ps = [p for p in cands if rng.random() < 0.35][:3]
        table[k] = ps
    return table


def table_source(table):
    return "".join(f"class {k}" + (": " + ", ".join(ps) if ps else "") + "\n" for k, ps in table.items())


def ancestors(table, k):
    seen, todo = set(), [k]
    while todo:
        x = todo.pop()
        if x in seen:
            continue
        seen.add(x)
        todo += table.get(x, [])
    return seen


# ---- the check ---------------------------------------------------------------------------------------------------------

def run(tier, replay=None):
    ck = Check("C20", tier)
    quick = tier == "quick"
    rng = ck.rng
    ck.proof(["props/C20.vo"], "props.C20", THEOREMS, translators=["stubs"])

    # model assumption: is_mutable is never set to false anywhere in the crate
    hits = []
    for root, _, files in os.walk(os.path.join(REPO, "src")):
        for f in files:
            if f.endswith(".rs"):
                txt = open(os.path.join(root, f)).read()
                if re.search(r"is_mutable\s*:\s*false|is_mutable\s*=\s*false", txt):
                    hits.append(os.path.join(root, f))
    if hits:
        ck.broken.append({"kind": "model-assumption", "where": "is_mutable set to false in " + ", ".join(hits)})

    build_harness(ck.log)
    impl = Impl(ck)
    known_example = {}
    counts = {}

    def report(cause, what, types, detail, src=USER_SRC, operands=None):
        """one failing law instance on the implementation's answers.
        Canonical case text: CAUSE:<law> / one line `X=<type> :: <classes of that type>` per type /
        CLASS:<classes of the operands together> / DETAIL:<answers>"""
        ops = tuple(types) if operands is None else tuple(types[i] for i in operands)
        tags = tags_of(ops)
        case = "CAUSE:" + cause + "\n" \
               + "".join(f"{chr(65 + i)}={t} :: {tags_of((t,))}\n" for i, t in enumerate(types)) \
               + "CLASS:" + tags + "\nDETAIL:" + detail + "\n"
        key = cause + " [" + tags + "]"
        counts[key] = counts.get(key, 0) + 1
        f = ck.match_finding(case)
        if f is not None:
            if f["id"] not in known_example:
                known_example[f["id"]] = ck.write_replay("known-" + f["id"], {
                    "cause": cause, "types": types, "detail": detail, "source": src, "case": case})
            ck.violation(what, known_example[f["id"]], case)
            return
        if sum(1 for v in ck.violations) < 25:
            p = ck.write_replay("oracle", {"cause": cause, "types": types, "detail": detail, "source": src,
                                           "case": case, "what": what})
            ck.violation(what, p, case)

    # ---- replay: re-judge the recorded law on the current implementation -------------------------------------------
    if replay:
        data = json.load(open(replay))
        types, src, cause = data.get("types", []), data.get("source", USER_SRC), data.get("cause", "")
        if cause.startswith("e2e"):
            still, detail = None, ""
            if cause == "e2e-tuple-arity":
                a = impl.ask(["transpile\t0\t" + hexs(TUPLE_PROG)])[0]
                still, detail = a[0] == "OK", f"program {a[0]}"
            elif len(types) == 2:
                lit = {"Int": "1", "Float": "1.5", "Str": '"a"', "Bool": "True"}
                Ux, T = types
                v = lit.get(T.rstrip("?"), T.rstrip("?") + "()")
                prog = src + (f"def x: {Ux} := None\n" if T == "None" else f"def v: {T} := {v}\ndef x: {Ux} := v\n")
                a = impl.ask([f"transpile\t0\t{hexs(prog)}"])[0]
                relv = impl.rect(src, [Ux], [T])[0]
                still, detail = (a[0] == "OK") != (relv == "T"), f"relation {relv}, program {a[0]}"
        else:
            rows = impl.rect(src, types, types) if types else []
            us = impl.unions(types, types) if types else []
            g = lambda i, j: rows[i][j] == "T"
            detail = f"relation rows {rows}; unions {us}"
            if cause == "super_refl":
                still = not g(0, 0)
            elif cause == "super_trans":
                still = g(0, 1) and g(1, 2) and not g(0, 2)
            elif cause in ("any_top", "ancestor", "nullable_accepts_none", "nullable_accepts_base"):
                still = not g(0, 1)
            elif cause in ("unrelated", "base_accepts_nullable", "base_accepts_none"):
                still = g(0, 1)
            elif cause == "union_idem":
                still = us[0][0] != show_name(parse_name(types[0]))
            elif cause == "union_comm":
                still = us[0][1] != us[1][0]
            elif cause == "union_assoc":
                l_ = impl.unions([us[0][1]], [types[2]])[0][0]
                r_ = impl.unions([types[0]], [us[1][2]])[0][0]
                still, detail = l_ != r_, f"(A u B) u C = {l_}; A u (B u C) = {r_}"
            elif cause in ("union_upper", "union_member_fwd", "union_member_bwd"):
                u = us[0][1]
                up = impl.rect(src, [u], [types[2]])[0]
                xu = impl.rect(src, [types[2]], [u])[0]
                detail = f"A u B = {u}; (A u B) >= C is {up}; C >= (A u B) is {xu}; rows {rows}"
                if cause == "union_upper":
                    still = up != "T"
                elif cause == "union_member_fwd":
                    still = xu == "T" and not (g(2, 0) and g(2, 1))
                else:
                    still = g(2, 0) and g(2, 1) and xu != "T"
            else:
                still = None
        ck.log(f"replay {cause} {types}: {detail}")
        ck.cov.update({"evaluations": max(1, len(types) ** 2), "distinct_nontrivial": len(types), "rule": "replay",
                       "samples": [{"cause": cause, "types": types, "detail": detail, "still_failing": still}]})
        if still is None:
            ck.broken.append({"kind": "replay", "where": "cannot re-judge cause " + cause})
        elif still:
            ops = [0, 1] if cause.startswith("union_upper") or cause.startswith("union_member") else None
            report(cause, data.get("what", "replayed case still fails"), types, detail, src, operands=ops)
        else:
            ck.log("the replayed case no longer fails")
        return ck.finish()

    # ---- model, first batch: universe (single source: model/TypesUniv.v), relation table, random hierarchies ---
    n_tables = 4 if quick else 40
    tables = []
    for k in range(n_tables):
        tbl = random_table(rng, rng.randint(3, 9))
        names = list(tbl) + [x + "?" for x in tbl] + ["Int", "Any", "None", "Str?"] \
            + ["{%s,%s}" % (a, b) for a, b in list(itertools.combinations(list(tbl), 2))[:6]]
        tables.append((tbl, table_source(tbl), names))
    extras_term = nm_list(EXTRAS)
    r = coq_eval(IMPORTS, ["map (fun A => show_nm (mkN A)) univ", "List.length univ_rel", "plain_classes demo",
                           "map (fun k => (cl_name k, map tcname (cl_parents k))) "
                           "(filter (fun k => match cl_gen k with [] => true | _ => false end) generated)",
                           f"let L := map mkN univ ++ {extras_term} in map (fun A => row demo A L) L",
                           "map (fun A => match trim_super demo (mkN A) with Ok n => show_nm n | Err => \"E\"%string "
                           "| Div => \"D\"%string end) univ_rel"]
                 + [e_rows(coq_ctx(tbl), names, names) for tbl, _, names in tables], timeout=1500)
    univ = [show_name(parse_name(x)) for x in coq_strings(r[0])]
    n_rel = int(re.sub(r"\D", "", r[1] or "0") or 0)
    plain_classes = coq_strings(r[2])
    if len(univ) < 100 or len(set(univ)) != len(univ) or not (0 < n_rel <= len(univ)) \
            or any(e in univ for e in EXTRAS):
        ck.broken.append({"kind": "universe", "where": "model/TypesUniv.v", "size": len(univ)})
    rel = univ[:n_rel]
    allnames = univ + EXTRAS
    N = len(allnames)
    idx = {t: i for i, t in enumerate(allnames)}
    parsed = {t: parse_name(t) for t in allnames}
    MM = coq_strings(r[4])
    ck.log(f"phase done: model batch 1 at {time.time() - ck.t0:.1f}s")

    # every translated non-generic built-in class is known to the implementation under that name
    table = dict(USER_TABLE)
    for m in re.finditer(r'\("([^"]*)"%?(?:string)?,\s*\[([^\]]*)\]\)', r[3] or ""):
        table[m.group(1)] = coq_strings(m.group(2))
    rows = impl.rect("", ["Any"], [k for k in table if k not in USER_TABLE])
    if "E" in rows[0] or "F" in rows[0]:
        ck.broken.append({"kind": "correspondence", "where": "built-in class table: a translated class is unknown "
                          "to the implementation", "row": rows[0]})

    # ---- relation: implementation matrix, repeated in fresh processes for order independence --------------------
    M = impl.rect(USER_SRC, allnames, allnames)
    repeats = 2 if quick else 6
    flips_ef, unstable = 0, []
    for k in range(repeats):
        M2 = impl.rect(USER_SRC, allnames, allnames)
        for i in range(N):
            if M2[i] != M[i]:
                for j in range(N):
                    if M2[i][j] != M[i][j]:
                        if "T" in (M2[i][j], M[i][j]):
                            unstable.append((allnames[i], allnames[j], M[i][j], M2[i][j]))
                        else:
                            flips_ef += 1
    n_eval = N * N * (repeats + 1)
    for a, b, x, y in unstable[:20]:
        report("order_dependent", "whether a type is assignable depends on the iteration order of the stored members",
               [a, b], f"first run {x}, later run {y}")

    # ---- relation: correspondence model vs implementation ----------------------------------------------------------
    corr_bad, diff = [], []
    if len(MM) != N or any(len(x) != N for x in MM):
        ck.broken.append({"kind": "correspondence", "where": "model matrix has the wrong shape", "rows": len(MM)})
    else:
        diff = [(i, j) for i in range(N) for j in range(N) if MM[i][j] != M[i][j]]
        for i, j in diff:
            if "T" in (MM[i][j], M[i][j]):
                corr_bad.append((allnames[i], allnames[j], f"impl={M[i][j]} model={MM[i][j]}"))
    # error-versus-false may depend on the iteration order: second batch evaluates the model with every list reversed
    alt_pairs = [(i, j) for i, j in diff if "T" not in (MM[i][j], M[i][j])][:600]
    ck.log(f"phase done: relation tables at {time.time() - ck.t0:.1f}s")

    # trim_super (used when unions are simplified): model vs implementation
    tr = impl.ask([f"types\ttrims\t{hexs(USER_SRC)}\t{';'.join(rel)}"])[0]
    mtr = coq_strings(r[5])
    trim_bad = []
    if tr[0] != "OK" or len(tr[1].split(";")) != len(rel) or len(mtr) != len(rel):
        ck.broken.append({"kind": "correspondence", "where": "trim_super: wrong shape", "impl": tr[:1], "model": len(mtr)})
    else:
        for a, i_, m_ in zip(rel, tr[1].split(";"), mtr):
            if m_ in ("E", "D") or show_name(parse_name(m_)) != i_:
                trim_bad.append((a, f"impl={i_} model={m_}"))
    if trim_bad:
        ck.broken.append({"kind": "correspondence", "where": "trim_super: Types.trim_super vs Name::trim_super",
                          "count": len(trim_bad), "examples": [list(x) for x in trim_bad[:5]]})
    n_eval += len(rel)

    # ---- laws on the implementation's answers ---------------------------------------------------------------------
    def yes(a, b):
        return M[idx[a]][idx[b]] == "T"

    # reflexivity (function types included)
    for t in univ:
        if not yes(t, t):
            report("super_refl", "a type is not assignable to itself", [t], f"answer {M[idx[t]][idx[t]]}")
    # transitivity: all triples, through bit sets
    bits = {t: sum(1 << idx[u] for u in rel if yes(t, u)) for t in rel}
    n_tr = 0
    for a in rel:
        for b in rel:
            if yes(a, b):
                miss = bits[b] & ~bits[a]
                n_tr += len(rel)
                while miss:
                    low = miss & -miss
                    c = allnames[low.bit_length() - 1]
                    miss ^= low
                    report("super_trans", "assignability is not transitive", [a, b, c],
                           f"A>=B and B>=C but A>=C is {M[idx[a]][idx[c]]}")
    # Any is the top of the non-nullable types
    for t in rel:
        nm = parsed[t]
        if nm[1] and not any(x[0] for x in nm[1]) and not yes("Any", t):
            report("any_top", "a non-nullable type is not assignable to Any", ["Any", t], M[idx["Any"]][idx[t]])
    # ancestors / unrelated classes (expected from the class tables)
    n_anc = 0
    for a in plain_classes:
        for c in plain_classes:
            want = a == "Any" or a in ancestors(table, c)
            n_anc += 1
            if yes(a, c) != want:
                report("ancestor" if want else "unrelated",
                       "a class is not assignable to its ancestor" if want else "a class is assignable to an unrelated class",
                       [a, c], f"answer {M[idx[a]][idx[c]]}, expected {'T' if want else 'F'}")
    # nullable rules (C06, rule level)
    for t in plain_classes:
        if t == "None":
            continue
        tq = t + "?"
        if not yes(tq, "None"):
            report("nullable_accepts_none", "None is not assignable to T?", [tq, "None"], M[idx[tq]][idx["None"]])
        if not yes(tq, t):
            report("nullable_accepts_base", "T is not assignable to T?", [tq, t], M[idx[tq]][idx[t]])
        for u in plain_classes:
            if yes(u, tq):
                report("base_accepts_nullable", "T? is assignable to a non-nullable type", [u, tq], "T")
        if yes(t, "None"):
            report("base_accepts_none", "None is assignable to a non-nullable type", [t, "None"], "T")

    # ---- unions ------------------------------------------------------------------------------------------------------
    UT = impl.unions(rel, rel)
    n_eval += len(rel) ** 2
    U = {(a, b): show_name(parse_name(UT[i][j])) for i, a in enumerate(rel) for j, b in enumerate(rel)}
    for a in rel:
        if U[(a, a)] != a:
            report("union_idem", "A u A differs from A", [a], f"A u A = {U[(a, a)]}")
        for b in rel:
            if U[(a, b)] != U[(b, a)]:
                report("union_comm", "A u B differs from B u A", [a, b], f"{U[(a, b)]} vs {U[(b, a)]}")
    upairs = [(a, b) for a in rel for b in rel]
    if quick:
        upairs = rng.sample(upairs, 2500)
    # distinct union results; everything below needs the relation on them
    D = sorted(set(U.values()))
    Dnew = [d for d in D if d not in idx]
    if quick:
        rng.shuffle(Dnew)
        Dnew = sorted(Dnew[:700])
    Dset = set(Dnew) | set(rel)
    R_dl = dict(zip(Dnew, impl.rect(USER_SRC, Dnew, rel)))       # (A u B) >= X
    R_ld_rows = impl.rect(USER_SRC, rel, Dnew)                     # X >= (A u B)
    n_eval += 2 * len(Dnew) * len(rel)
    ridx = {t: i for i, t in enumerate(rel)}
    didx = {t: i for i, t in enumerate(Dnew)}
    ck.log(f"phase done: union tables at {time.time() - ck.t0:.1f}s")

    def sup_u(u, x):          # union result u >= x (x in rel)
        return (R_dl[u][ridx[x]] if u in R_dl else M[idx[u]][idx[x]])

    def sup_x(x, u):          # x >= union result u
        return (R_ld_rows[ridx[x]][didx[u]] if u in didx else M[idx[x]][idx[u]])

    n_up = n_mem = 0
    for a in rel:
        for b in rel:
            u = U[(a, b)]
            if u not in Dset:
                continue
            if not parsed[a][1] or not parsed[b][1]:
                continue
            n_up += 1
            for x in (a, b):
                r_ = sup_u(u, x)
                if r_ != "T":
                    report("union_upper", "the union of two types does not accept one of them", [a, b, x],
                           f"A u B = {u}; (A u B) >= C is {r_}", operands=[0, 1])
            for x in rel:
                ua, ub, uab = yes(x, a), yes(x, b), sup_x(x, u) == "T"
                n_mem += 1
                if uab and not (ua and ub):
                    report("union_member_fwd", "U accepts A u B but not both members", [a, b, x],
                           f"A u B = {u}; C>=A {ua}, C>=B {ub}, C>=(A u B) {uab}", operands=[0, 1])
                if ua and ub and not uab:
                    report("union_member_bwd", "U accepts A and B but not A u B", [a, b, x],
                           f"A u B = {u}; C>=A {ua}, C>=B {ub}, C>=(A u B) {sup_x(x, u)}", operands=[0, 1])
    ck.log(f"phase done: union upper/member at {time.time() - ck.t0:.1f}s")
    # associativity: all triples of a core list (all of `rel` in the thorough tier)
    assoc_l = rel if not quick else [t for t in rel if len(parsed[t][1]) <= 2][:70]
    mids = sorted(set(U[(a, b)] for a in assoc_l for b in assoc_l))
    left = dict(zip(mids, impl.unions(mids, assoc_l)))     # (A u B) u C
    right_rows = impl.unions(assoc_l, mids)                # A u (B u C)
    midx = {t: i for i, t in enumerate(mids)}
    n_assoc = 0
    for ia, a in enumerate(assoc_l):
        for b in assoc_l:
            ab = U[(a, b)]
            for ic, c in enumerate(assoc_l):
                n_assoc += 1
                l_, r_ = left[ab][ic], right_rows[ia][midx[U[(b, c)]]]
                if l_ != r_:
                    report("union_assoc", "(A u B) u C differs from A u (B u C)", [a, b, c], f"{l_} vs {r_}")
    n_eval += 2 * len(mids) * len(assoc_l)
    ck.log(f"phase done: assoc at {time.time() - ck.t0:.1f}s")

    # ---- model, second batch: unions, unions of unions, relation on union results, reversed orders -----------
    samp = [(rng.choice(mids), rng.choice(assoc_l)) for _ in range(300 if quick else 3000)]
    samp2 = [(rng.choice(Dnew), rng.choice(rel)) for _ in range(400 if quick else 4000)] if Dnew else []
    r2 = coq_eval(IMPORTS, [e_unions(upairs), e_unions(samp), e_pairs("demo", samp2),
                            e_pairs("demo", [(b, a) for a, b in samp2]),
                            e_pairs("demo", [(reversed_name(allnames[i]), reversed_name(allnames[j]))
                                             for i, j in alt_pairs])], timeout=1500)
    ubad = []
    MU = [show_name(parse_name(x)) for x in coq_strings(r2[0])]
    if len(MU) != len(upairs):
        ck.broken.append({"kind": "correspondence", "where": "model union table has the wrong size", "n": len(MU)})
    else:
        for (a, b), m_ in zip(upairs, MU):
            if m_ != U[(a, b)]:
                ubad.append((a, b, f"impl={U[(a, b)]} model={m_}"))
    msu = [show_name(parse_name(x)) for x in coq_strings(r2[1])]
    for (a, b), m_ in zip(samp, msu):
        i_ = show_name(parse_name(left[a][assoc_l.index(b)]))
        if i_ != m_:
            ubad.append((a, b, f"impl={i_} model={m_}"))
    ms2, ms3, alt = one_string(r2[2]), one_string(r2[3]), one_string(r2[4])
    if len(msu) != len(samp) or len(ms2) != len(samp2) or len(ms3) != len(samp2) or len(alt) != len(alt_pairs):
        ck.broken.append({"kind": "correspondence", "where": "second model batch has the wrong shape",
                          "sizes": [len(msu), len(ms2), len(ms3), len(alt)]})
    for k, (a, b) in enumerate(samp2):
        if k < len(ms2) and ms2[k] != R_dl[a][ridx[b]] and "T" in (ms2[k], R_dl[a][ridx[b]]):
            corr_bad.append((a, b, f"impl={R_dl[a][ridx[b]]} model={ms2[k]}"))
        if k < len(ms3) and ms3[k] != R_ld_rows[ridx[b]][didx[a]] and "T" in (ms3[k], R_ld_rows[ridx[b]][didx[a]]):
            corr_bad.append((b, a, f"impl={R_ld_rows[ridx[b]][didx[a]]} model={ms3[k]}"))
    order_dep = 0
    for k, (i, j) in enumerate(alt_pairs):
        # the model itself answers differently for the two orders: error versus false depends on the order
        if k < len(alt) and (alt[k] == M[i][j] or alt[k] != MM[i][j]):
            order_dep += 1
        else:
            corr_bad.append((allnames[i], allnames[j], f"impl={M[i][j]} model={MM[i][j]} "
                             f"model with reversed orders={alt[k] if k < len(alt) else '?'}"))
    ck.log(f"phase done: model batch 2 at {time.time() - ck.t0:.1f}s")

    # ---- random user hierarchies: the unbounded theorems instantiated, model vs implementation ------------------
    for k, (tbl, src, names) in enumerate(tables):
        rows = impl.rect(src, names, names)
        mrows = coq_strings(r[6 + k])
        n_eval += len(names) ** 2
        if len(mrows) != len(names):
            ck.broken.append({"kind": "correspondence", "where": "random hierarchy: model rows missing", "table": src})
            continue
        for i, a in enumerate(names):
            for j, b in enumerate(names):
                if mrows[i][j] != rows[i][j]:
                    corr_bad.append((a, b, f"table {src!r}: impl={rows[i][j]} model={mrows[i][j]}"))
        # laws on the implementation's answers for this hierarchy
        for i, a in enumerate(names):
            if rows[i][i] != "T":
                report("super_refl", "a type is not assignable to itself", [a], rows[i][i], src)
            for j, b in enumerate(names):
                if rows[i][j] == "T":
                    for c_ in range(len(names)):
                        if rows[j][c_] == "T" and rows[i][c_] != "T":
                            report("super_trans", "assignability is not transitive", [a, b, names[c_]],
                                   f"A>=C is {rows[i][c_]}", src)
        for a in tbl:
            for c_ in tbl:
                want = a in ancestors(tbl, c_)
                if (rows[names.index(a)][names.index(c_)] == "T") != want:
                    report("ancestor" if want else "unrelated", "user hierarchy: wrong answer", [a, c_],
                           rows[names.index(a)][names.index(c_)], src)
    ck.log(f"phase done: random hierarchies at {time.time() - ck.t0:.1f}s")

    # ---- a class that inherits from itself: the model says the lookup diverges --------------------------------
    cyc = impl.ask([f"super\t{hexs('class A: A' + chr(10))}\tA\tA"])[0]
    ck.cov["cyclic_hierarchy"] = {"model": "Div (C20_cyclic_diverges)", "implementation": cyc[:2]}
    if cyc[0] in ("OK",):
        ck.broken.append({"kind": "correspondence", "where": "class A: A - the model diverges, the implementation answers",
                          "answer": cyc[:2]})

    # ---- end to end ---------------------------------------------------------------------------------------------------
    lit = {"Int": "1", "Float": "1.5", "Str": '"a"', "Bool": "True", "A": "A()", "B": "B()", "D": "D()", "E": "E()",
           "U": "U()"}
    Ts = list(lit) + [t + "?" for t in ["Int", "Str", "A", "D"]] + ["None"]
    Us = ["Int", "Float", "Str", "Bool", "Complex", "Any", "A", "B", "C", "D", "U", "Int?", "Float?", "Str?", "A?", "B?",
          "{Int,Str}", "{A,U}", "{Int,None}", "{Float,Str?}"]
    if not quick:
        Us += ["E", "Exception", "Range", "{A,Int?}", "Bool?", "{B,C}"]

    def prog(T, Ux):
        if T == "None":
            return USER_SRC + f"def x: {Ux} := None\n"
        return USER_SRC + f"def v: {T} := {lit[T.rstrip('?')]}\ndef x: {Ux} := v\n"
    e2e_rel = impl.rect(USER_SRC, Us, Ts)
    keys = [(T, Ux) for T in Ts for Ux in Us]
    ans = impl.ask([f"transpile\t0\t{hexs(prog(T, Ux))}" for T, Ux in keys])
    e2e_ok = 0
    for (T, Ux), a in zip(keys, ans):
        relv = e2e_rel[Us.index(Ux)][Ts.index(T)]
        acc = a[0] == "OK"
        if a[0] not in ("OK", "ERR"):
            report("e2e-crash", "the pipeline crashed on an assignment", [Ux, T], str(a[:2]))
        elif acc == (relv == "T"):
            e2e_ok += 1
        elif acc and Ux == "Any" and T.endswith("?"):
            report("e2e-any-nullable", "end to end a nullable value is accepted where Any is expected although the "
                   "relation rejects it", [Ux, T], f"relation {relv}, program accepted")
        else:
            report("e2e-accept" if acc else "e2e-reject",
                   "end to end verdict differs from the relation", [Ux, T],
                   f"relation {relv}, program {'accepted' if acc else 'rejected: ' + unhex(a[-1])[:120]}")
    # tuples of different length, end to end (D30)
    tsrc = TUPLE_PROG
    ta = impl.ask([f"transpile\t0\t{hexs(tsrc)}"])[0]
    if ta[0] == "OK":
        report("e2e-tuple-arity", "a 3-tuple is accepted where a 2-tuple type is declared", ["(Int,Str)", "(Int,Str,Bool)"],
               "program accepted: " + tsrc.strip())
    n_eval += len(keys) + 1

    ck.log(f"phase done: e2e at {time.time() - ck.t0:.1f}s")
    # ---- verdict --------------------------------------------------------------------------------------------------------
    if corr_bad:
        ck.broken.append({"kind": "correspondence", "where": "super: Types.is_superset vs Name::is_superset_of",
                          "count": len(corr_bad), "examples": [list(x) for x in corr_bad[:5]]})
    if ubad:
        ck.broken.append({"kind": "correspondence", "where": "union: Types.union vs Name::union",
                          "count": len(ubad), "examples": [list(x) for x in ubad[:5]]})
    nontriv = sum(1 for t in allnames if len(parsed[t][1]) > 1 or any(x[2] or x[0] for x in parsed[t][1]))
    ck.cov.update({
        "evaluations": n_eval,
        "distinct_nontrivial": nontriv * N,
        "rule": "names of the universe of model/TypesUniv.v (every non-generic built-in class and the user hierarchy "
                "A; B,C<A; D<B,C; E<D; U, their nullable variants, stored sets of 2 members over a core of 10, "
                "List/Set/Collection/Dict/Tuple instantiations of depth <= 2, 4 function types) plus %d ill-formed "
                "names for the error paths; all ordered pairs; non-trivial = the left name is a union, nullable or "
                "generic" % len(EXTRAS),
        "universe": {"types": len(univ), "relation_laws": len(rel), "extras": N - len(univ),
                     "pairs": N * N, "triples_transitivity": n_tr, "distinct_unions": len(D),
                     "unions_with_relation": len(Dnew), "union_upper_pairs": n_up, "union_member_triples": n_mem,
                     "assoc_triples": n_assoc, "ancestor_pairs": n_anc, "random_hierarchies": n_tables},
        "relation_answers": {"T": sum(r_.count("T") for r_ in M), "F": sum(r_.count("F") for r_ in M),
                             "E": sum(r_.count("E") for r_ in M)},
        "traces_validated_against_impl": (N * N - len(corr_bad)) + len(upairs) + len(samp) + 2 * len(samp2) - len(ubad),
        "order_dependent_error_vs_false": {"model_needed_reversed_order": order_dep,
                                           "implementation_flips_between_runs": flips_ef},
        "unstable_across_processes": len(unstable),
        "law_failures_on_implementation": counts,
        "end_to_end": {"programs": len(keys), "agree_with_relation": e2e_ok},
        "exhaustive": {"relation_pairs": True, "transitivity_triples": True,
                       "union_laws": not quick, "associativity_triples": not quick},
        "samples": [{"A": "D", "B": "{A,U}", "A>=B": M[idx["D"]][idx["{A,U}"]], "B>=A": M[idx["{A,U}"]][idx["D"]]},
                    {"A": "List[Float]", "B": "List[Int]", "A>=B": M[idx["List[Float]"]][idx["List[Int]"]]},
                    {"A u B": U.get(("Int", "None")), "A": "Int", "B": "None"}],
        "trusted_base": [
            "Coq 8.16.1 kernel, vm_compute for stubs_wf and for the finite-universe lemmas; no axioms",
            "translate/stubs.py (class headers of the stub files, python_to_concrete, GenericClass::any)",
            "model/Types.v is a hand model of name/*.rs and context/clss/mod.rs (tied by the correspondence above); "
            "is_mutable is assumed constant true (checked textually on every run)",
            "harness/src/types.rs (text syntax of names, public API calls) and the parser/printer of the same syntax here",
            "the known-class predicates (d22, null_mix, arity_clash, coll_tuple) exist twice: model/TypesUniv.v and here",
        ],
    })
    ck.assumptions += [
        "unbounded theorems: class tables with unique class names whose non-generic classes inherit only from "
        "non-generic classes; types whose members are non-generic classes, optionally nullable",
        "generic instantiations, tuples and function types: only the stated finite universe (143 types)",
        "Err answers (TypeErr from is_superset_of) count as 'not assignable' in the laws",
    ]
    return ck.finish()
