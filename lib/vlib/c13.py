"""C13 - projects: all-or-nothing, mirrored layout, order-independent, non-interfering.

proof        : props/C13.v over model/Project.v (transpile_dir, mamba_to_python, io.rs, context merge)
tie          : `project` harness endpoint: generated projects of 1-5 files in nested directories with
               cross-file class/function use are created in a fresh directory, `mamba::transpile_dir`
               is run on them (clean, populated target, rerun, every single faulty file, an added
               unrelated file) and `mamba::mamba_to_python` is called with every permutation of the file
               vector.  The model, instantiated with the per-file stage results observed through
               `project stages`, predicts verdict, diagnostics (stage, path, payload, order) and the
               complete tree; predictions are compared with what happened.
direct oracle: the property itself, judged on the tree: exactly one .py per .mamba at the mirrored path
               and nothing else, or nothing at all on error; every diagnostic names the faulty file and
               only it; outputs byte-identical across permutations; an unrelated file leaves verdict
               and the other outputs alone; a user file that passes in the project fails on its own.
"""
import itertools, json, os, re, shutil

from .common import Check, build_harness, run_sharded, coq_eval, hexs, unhex, MH, CACHE

ARROW = "\n ──→ "          # "\n --> " as printed by format_err
THEOREMS = [
    "C13_all_or_nothing", "C13_stage_failure_writes_nothing", "C13_pipeline_ok_iff",
    "C13_errors_name_files", "C13_ctx_errors_name_files", "C13_pathless_error_pathless_input",
    "C13_ctx_failure_reported", "C13_parse_failure_reported", "C13_check_failure_reported",
    "C13_mirrored", "C13_out_paths_nodup", "C13_rerun_idempotent", "C13_rerun_idempotent_wf",
    "C13_order_independent", "C13_order_independent_verdict",
    "C13_fresh_file_inert", "C13_fresh_file_project", "C13_cross_file_visible",
    "C13_order_independent_without_unique_names_refuted", "C13_enumeration_dependent_refuted",
    "C13_error_implies_nothing_written_refuted",
    "C13_one_output_per_source_refuted", "C13_hypotheses_satisfiable",
]

# ------------------------------------------------------------------------------------------------
# generated programs
# ------------------------------------------------------------------------------------------------
DIRS = ["", "", "a", "a/b", "pkg", "pkg/sub", "z", ".h", "B", "a/b/c"]
NAMES = ["m{u}", "mod{u}", "M{u}", "x.y{u}", "main{u}", "u_{u}", "{u}"]
FAULTS = {
    "lexical": "def q{u} := 1 $ 2\n",
    "syntax": "def q{u} := (\n",
    "type": "def q{u}: Str := 1\n",
    "type-undefined": "nofun{u}(1)\n",
    "context": "import xx as yy, zz\n",
}


def definer(u, rng):
    """(text, use(j) -> text) for the class and the function file u defines."""
    n = rng.randint(1, 9)
    if rng.random() < 0.5:
        cls = f"class K{u}\n    def x: Int := {n}\n    def get(self) -> Int => self.x\n"
        use_c = lambda me: f"def o{me}_{u} := K{u}()\nprint(o{me}_{u}.get())\n"
    else:
        cls = f"class K{u}(def n: Int)\n    def twice(self) -> Int => self.n * 2\n"
        use_c = lambda me: f"def o{me}_{u} := K{u}({n})\nprint(o{me}_{u}.twice())\n"
    if rng.random() < 0.5:
        fun = f"def g{u}(a: Int) -> Int => a + {n}\n"
        use_f = lambda me: f"def r{me}_{u}: Int := g{u}({n})\n"
    else:
        fun = f"def g{u}(s: Str) -> Str => s\n"
        use_f = lambda me: f'print(g{u}("t{n}"))\n'
    return cls, fun, use_c, use_f


def gen_project(rng, n):
    """n files: list of dicts {rel, text, defines, uses}; at least one cross-file use when n > 1."""
    defs = [definer(u, rng) for u in range(n)]
    files, used = [], set()
    for u in range(n):
        d = rng.choice(DIRS)
        name = rng.choice(NAMES).format(u=u) + ".mamba"
        rel = (d + "/" if d else "") + name
        while rel in used:
            rel = "d%d/%s" % (u, name)
        used.add(rel)
        role = rng.random()
        parts, uses = [], []
        cls, fun, _, _ = defs[u]
        defines = role < 0.8 or n == 1
        if defines:
            parts += [cls, "\n", fun, "\n"]
        others = [j for j in range(n) if j != u]
        rng.shuffle(others)
        k = 0 if not others else rng.randint(0 if defines else 1, min(3, len(others)))
        for j in others[:k]:
            uses.append(j)
        files.append({"rel": rel, "defines": defines, "uses": uses, "parts": parts, "u": u})
    # a used file must define; make sure of one cross-file use
    if n > 1 and not any(f["uses"] for f in files):
        files[-1]["uses"] = [0]
    for f in files:
        for j in f["uses"]:
            if not files[j]["defines"]:
                cls, fun, _, _ = defs[j]
                files[j]["parts"] = [cls, "\n", fun, "\n"] + files[j]["parts"]
                files[j]["defines"] = True
    for f in files:
        for j in f["uses"]:
            _, _, use_c, use_f = defs[j]
            which = rng.random()
            if which < 0.7:
                f["parts"].append(use_c(f["u"]))
            if which > 0.3:
                f["parts"].append(use_f(f["u"]))
        if not f["parts"]:
            f["parts"].append(f"print({f['u']})\n")
        f["text"] = "".join(f["parts"])
    return [{"rel": f["rel"], "text": f["text"], "uses": f["uses"], "defines": f["defines"]} for f in files]


# ------------------------------------------------------------------------------------------------
# paths, trees
# ------------------------------------------------------------------------------------------------
def comps(p):
    return [c for c in p.split("/") if c]


def glob_key(rel):
    return [c.encode() for c in comps(rel)]


def with_ext_py(name):
    """Path::with_extension("py") on one component."""
    if name == "..":
        return name
    i = name.rfind(".")
    stem = name if i <= 0 else name[:i]
    return stem + ".py"


def out_rel(rel):
    c = comps(rel)
    return "/".join(c[:-1] + [with_ext_py(c[-1])])


def tree_of(entries):
    """entries [(path, text|None)] -> {path: text|None} with every ancestor directory explicit."""
    t = {}
    for p, c in entries:
        cs = comps(p)
        for k in range(1, len(cs)):
            t.setdefault("/".join(cs[:k]), None)
        t["/".join(cs)] = c
    return t


def ent_field(tree_entries):
    out = []
    for p, c in tree_entries:
        out.append(f"D:{hexs(p)}" if c is None else f"F:{hexs(p)}:{c.encode('utf-8').hex()}")
    return ",".join(out)


def parse_listing(field):
    t = {}
    for e in field.split(","):
        if not e:
            continue
        parts = e.split(":")
        p = unhex(parts[1])
        t[p] = None if parts[0] == "D" else bytes.fromhex(parts[2] if len(parts) > 2 else "")
    return t


class Case:
    """One project on disk: files below the source directory, other entries, names of src and target."""

    def __init__(self, family, files, pre=(), src=None, target=None, annotate=0, runs=1, fault=None,
                 src_dirs=(), note="", make_src=True):
        self.family, self.files, self.pre = family, list(files), list(pre)
        self.src, self.target, self.annotate, self.runs = src, target, annotate, runs
        self.fault = fault            # None | (index, kind) | ("all", kind) | ("all2", kind): files 0 and 2
        self.src_dirs = list(src_dirs)  # extra directories below src (relative)
        self.note = note
        self.make_src = make_src      # False: the source directory is not created

    @property
    def srcname(self):
        return self.src or "src"

    @property
    def tgtname(self):
        return self.target or "target"

    def src_is_file(self):
        return self.srcname.endswith(".mamba") and len(self.files) == 1 and self.files[0]["rel"] == ""

    def entries(self):
        ents = []
        if self.src_is_file():
            ents.append((self.srcname, self.files[0]["text"]))
        elif self.make_src:
            ents.append((self.srcname, None))
            for d in self.src_dirs:
                ents.append((self.srcname + "/" + d, None))
            for f in self.files:
                ents.append((self.srcname + "/" + f["rel"], f["text"]))
        ents += self.pre
        return ents

    def rels(self):
        if self.src_is_file():
            return [comps(self.srcname)[-1]]
        return sorted([f["rel"] for f in self.files], key=glob_key)

    def to_json(self):
        return {"family": self.family, "files": self.files, "pre": self.pre, "src": self.src,
                "target": self.target, "annotate": self.annotate, "runs": self.runs,
                "fault": self.fault, "src_dirs": self.src_dirs, "note": self.note, "make_src": self.make_src}

    @staticmethod
    def from_json(d):
        return Case(d["family"], d["files"], [tuple(x) for x in d.get("pre", [])], d.get("src"),
                    d.get("target"), d.get("annotate", 0), d.get("runs", 1),
                    tuple(d["fault"]) if d.get("fault") else None, d.get("src_dirs", []), d.get("note", ""),
                    d.get("make_src", True))

    def features(self):
        fs = set()
        classes, funs = {}, {}
        for f in self.files:
            for m in re.finditer(r"(?m)^class (\w+)", f["text"]):
                classes.setdefault(m.group(1), set()).add(f["rel"])
            for m in re.finditer(r"(?m)^def (\w+)\(", f["text"]):
                funs.setdefault(m.group(1), set()).add(f["rel"])
        if any(len(v) > 1 for v in classes.values()):
            fs.add("dup-class")
        if any(len(v) > 1 for v in funs.values()):
            fs.add("dup-function")
        if self.fault and self.fault[1] == "context":
            fs.add("context-error")
        if any(comps(f["rel"])[-1:] == [".mamba"] for f in self.files):
            fs.add("dot-mamba-name")
        if any(comps(d)[-1].endswith(".mamba") for d in self.src_dirs):
            fs.add("dir-named-mamba")
        if not self.make_src:
            fs.add("missing-source")
        tc = comps(self.tgtname)
        have = tree_of(self.entries())
        if len(tc) > 1 and "/".join(tc[:-1]) not in have:
            fs.add("target-parent-missing")
        if not self.src_is_file():
            outs = [comps(self.tgtname) + comps(out_rel(r)) for r in self.rels()]
            pre = tree_of(self.pre)
            conflict = any(a != b and b[:len(a)] == a for a in outs for b in outs)
            for o in outs:
                if pre.get("/".join(o), "x") is None:
                    conflict = True           # a directory where a file has to go
                for k in range(1, len(o)):
                    if isinstance(pre.get("/".join(o[:k])), str):
                        conflict = True       # a file where a directory has to go
            if conflict:
                fs.add("output-path-conflict")
        return sorted(fs)

    def text(self, what):
        return ("FAMILY:%s\nFEATURES:%s\nFILES:%s\nWHAT:%s\n"
                % (self.family, " ".join(self.features()), ";".join(f["rel"] for f in self.files), what))


# ------------------------------------------------------------------------------------------------
# harness calls
# ------------------------------------------------------------------------------------------------
def o_(x):
    return "~" if x is None else hexs(x)


def dir_line(cid, base, case):
    return (f"{cid}\tproject\tdir\t{hexs(base)}\t{case.annotate}\t{o_(case.src)}\t{o_(case.target)}\t{case.runs}\t"
            f"{ent_field(case.entries())}")


def items_field(items):
    return ",".join(f"{o_(p)}:{hexs(s)}" for p, s in items)


def m2p_line(cid, annotate, source_dir, items):
    return f"{cid}\tproject\tm2p\t{annotate}\t{hexs(source_dir)}\t{items_field(items)}"


def stages_line(cid, annotate, items):
    return f"{cid}\tproject\tstages\t{annotate}\t{items_field(items)}"


def hl(field):
    return [unhex(x[1:]) for x in field.split(",")] if field else []


def parse_dir_answer(r):
    runs = []
    for k in range(0, len(r) - 2, 3):
        st, pay, lst = r[k:k + 3]
        payload = unhex(pay)
        runs.append({"status": st, "errors": payload.split("\x1e") if st == "ERR" else [],
                     "path": payload if st == "OK" else None, "tree": parse_listing(lst)})
    return runs


def parse_stages(r, items):
    """-> dict with per-file tables keyed by hex(source)."""
    if r[0] != "OK" or len(r) < 5:
        return None
    keys = [hexs(s) for _, s in items]
    f1, f2, f3, f4 = r[1].split(","), r[2], r[3].split(","), r[4].split(",")
    st = {"parse": [], "ctx": [], "check": [], "cfail": [], "gen": []}
    for k, x in zip(keys, f1):
        st["parse"].append((k, None if x == "ok" else x[1:]))
    if f2 not in ("ok", "-"):
        # the whole context failed: the model needs which files fail alone (field 5)
        st["ctx_whole"] = f2[1:].split(";")
        alone = r[5].split(",") if len(r) > 5 else []
        for k, x in zip(keys, alone):
            if x.startswith("e"):
                st["ctx"].append((k, [m for m in x[1:].split(";") if m != ""]))
    for k, x in zip(keys, f3):
        if x.startswith("e"):
            st["cfail"].append(k)
            st["check"].append((k, [m for m in x[1:].split(";") if m != ""] if x != "e" else []))
    for k, x in zip(keys, f4):
        if x.startswith("o"):
            st["gen"].append((k, ("Ok", x[1:])))
        elif x.startswith("e"):
            st["gen"].append((k, ("Err", x[1:])))
    return st


# ------------------------------------------------------------------------------------------------
# Coq terms
# ------------------------------------------------------------------------------------------------
def q(s):
    assert '"' not in s
    return '"' + s + '"%string'


def cl(xs):
    return "[" + "; ".join(xs) + "]"


def cpath(p):
    return cl([q(c) for c in comps(p)])


def tab_term(st):
    pt = cl([f"({q(k)}, {'None' if m is None else 'Some ' + q(m)})" for k, m in st["parse"]])
    dt = cl([f"({q(k)}, {cl([q(m) for m in ms])})" for k, ms in st["ctx"]])
    ct = cl([f"({q(k)}, {cl([q(m) for m in ms])})" for k, ms in st["check"]])
    cf = cl([q(k) for k in st["cfail"]])
    gt = cl([f"({q(k)}, {r} {q(v)})" for k, (r, v) in st["gen"]])
    return f"(tabW {pt} {dt} {ct} {cf} {gt})"


def dir_term(case, st):
    ents = []
    for p, c in sorted(tree_of(case.entries()).items()):
        ents.append(f"({cpath(p)}, {'None' if c is None else 'Some ' + q(c.encode('utf-8').hex())})")
    opt = lambda x: "None" if x is None else f"(Some {cpath(x)})"
    ann = "true" if case.annotate else "false"
    return (f"show_dir (tdir {tab_term(st)} ord_id (mkfs {cl(ents)}) [] {opt(case.src)} {opt(case.target)} {ann})")


def m2p_term(annotate, source_dir, items, st):
    its = cl([f"({q(hexs(s))}, {'None' if p is None else 'Some ' + cpath(p)})" for p, s in items])
    ann = "true" if annotate else "false"
    return f"show_m2p (m2p {tab_term(st)} ord_id {ann} (mkinputs {its}) {cpath(source_dir)})"


def render_model_error(e):
    """canonical model error -> ('exact', string) | ('suffix', string) | ('nopath', None)"""
    parts = e.split(":")
    if parts[0] == "STAGE":
        path = None if parts[2] == "~" else unhex(parts[2])
        payload = unhex(parts[3])
        if path is not None:
            payload = payload.replace(ARROW + "<unknown>", ARROW + path, 1)
        return ("exact", payload)
    if parts[0] == "SRCMISSING":
        return ("exact", "Source directory does not exist: $DIR/" + unhex(parts[1]))
    if parts[0] == "IO":
        if parts[2] == "~":
            return ("nopath", None)
        return ("suffix", ": $DIR/" + unhex(parts[2]))
    return ("exact", "<unparsed model error %s>" % e)


def error_matches(pred, actual):
    kind, s = pred
    if kind == "exact":
        return actual == s
    if kind == "suffix":
        return actual.endswith(s)
    return "$DIR" not in actual and ARROW not in actual


def clean(v):
    v = (v or "").strip()
    if v.endswith("%string"):
        v = v[:-len("%string")]
    return v.strip().strip('"')


def compare_dir(model_text, run):
    """None when the model's prediction equals what happened, else a description."""
    if model_text is None:
        return "model gave no answer"
    model_text = clean(model_text)
    st, mid, fs = model_text.split("|", 2)
    if st != run["status"]:
        return f"verdict: model {st}, implementation {run['status']}"
    mtree = parse_listing(fs)
    if mtree != run["tree"]:
        only_m = sorted(set(mtree) - set(run["tree"]))
        only_i = sorted(set(run["tree"]) - set(mtree))
        diff = [p for p in mtree if p in run["tree"] and mtree[p] != run["tree"][p]]
        return f"tree: only in model {only_m}, only in implementation {only_i}, different content {diff}"
    if st == "OK":
        if unhex(mid) != run["path"]:
            return f"returned path: model {unhex(mid)!r}, implementation {run['path']!r}"
        return None
    preds = [render_model_error(e) for e in mid.split(",") if e]
    if len(preds) != len(run["errors"]):
        return f"number of diagnostics: model {len(preds)}, implementation {len(run['errors'])}"
    for p, a in zip(preds, run["errors"]):
        if not error_matches(p, a):
            return f"diagnostic: model {p!r}, implementation {a!r}"
    return None


def compare_m2p(model_text, ans):
    if model_text is None:
        return "model gave no answer"
    model_text = clean(model_text)
    st, rest = model_text.split("|", 1)
    if st != ans[0]:
        return f"verdict: model {st}, implementation {ans[0]}"
    actual = hl(ans[1] if len(ans) > 1 else "")
    if st == "OK":
        pred = [unhex(x[1:]) for x in rest.split(",")] if rest else []
        return None if pred == actual else f"outputs differ: model {pred!r} implementation {actual!r}"
    preds = [render_model_error(e) for e in rest.split(",") if e]
    if len(preds) != len(actual):
        return f"number of diagnostics: model {len(preds)}, implementation {len(actual)}"
    for p, a in zip(preds, actual):
        if not error_matches(p, a):
            return f"diagnostic: model {p!r}, implementation {a!r}"
    return None


# ------------------------------------------------------------------------------------------------
# the direct oracle
# ------------------------------------------------------------------------------------------------
def error_path(msg):
    """the path printed on the arrow line of a diagnostic, None when there is no arrow line"""
    i = msg.find(ARROW)
    if i < 0:
        return None
    line = msg[i + len(ARROW):].split("\n", 1)[0]
    m = re.match(r"(.*?)(:\d+:\d+)?$", line)
    return m.group(1)


def judge_dir(case, run, before=None):
    """Judge one run of transpile_dir against the property. Returns a list of 'what failed' strings."""
    bad = []
    before = tree_of(case.entries()) if before is None else before
    after = run["tree"]
    feats = case.features()
    tgt = "/".join(comps(case.tgtname))
    srcd = "/".join(comps(case.srcname))
    if case.src_is_file():
        rels = case.rels()
        srcfiles = {srcd}
    else:
        rels = case.rels()
        srcfiles = {srcd + "/" + r for r in rels}
    outs = [tgt + "/" + out_rel(r) for r in rels]
    before_b = {p: (None if c is None else c.encode("utf-8")) for p, c in before.items()}
    # the sources are never touched
    for p in srcfiles:
        if after.get(p, b"?") != before_b.get(p, b"??"):
            bad.append("a source file was modified or removed")
    faulty_paths = set()
    if case.fault is not None:
        idx = range(len(case.files)) if case.fault[0] == "all" else ([0, 2] if case.fault[0] == "all2" else [case.fault[0]])
        for i in idx:
            fr = case.files[i]["rel"]
            faulty_paths.add(srcd + ("/" + fr if fr else ""))
    if run["status"] == "OK":
        if case.fault is not None:
            bad.append("a faulty file was not reported")
        if len(set(outs)) != len(outs):
            bad.append("two sources share one output path, so fewer .py than .mamba were written")
        for o in set(outs):
            if not isinstance(after.get(o), bytes):
                bad.append("an expected output file is missing: " + o)
        allowed_new_dirs = {tgt}
        for o in outs:
            cs = comps(o)
            for k in range(1, len(cs)):
                allowed_new_dirs.add("/".join(cs[:k]))
        for p, c in after.items():
            if p in outs:
                continue
            if p not in before_b:
                if c is None and p in allowed_new_dirs:
                    continue
                bad.append("something else was created: " + p)
            elif before_b[p] != c:
                bad.append("something else was changed: " + p)
        for p in before_b:
            if p not in after:
                bad.append("something was removed: " + p)
    else:
        # a project whose mirrored tree cannot exist (output path occupied), whose source is missing or whose
        # target cannot be created does not satisfy the premise of the first half of the property
        env = {"output-path-conflict", "missing-source", "target-parent-missing"} & set(feats)
        if case.fault is None and not env:
            bad.append("clean project rejected")
        # nothing at all is written
        for p, c in after.items():
            if p not in before_b:
                if c is None and p == tgt:
                    continue
                bad.append("Python written despite error" if c is not None else "directory created despite error: " + p)
            elif before_b[p] != c:
                bad.append("Python written despite error")
        for p in before_b:
            if p not in after:
                bad.append("something was removed: " + p)
        if not run["errors"]:
            bad.append("error result without any diagnostic")
        if case.fault is not None:
            for e in run["errors"]:
                ep = error_path(e)
                if ep is None or ep == "<unknown>":
                    bad.append("error without file name")
                elif ep not in faulty_paths and ep.rstrip("/") not in faulty_paths:
                    bad.append("error names a file that has no fault: " + ep)
            if case.fault[0] in ("all", "all2"):
                named = {error_path(e) for e in run["errors"]}
                for fp in faulty_paths - named:
                    bad.append("a faulty file is missing from the diagnostics: " + fp)
    return sorted(set(bad))


# ------------------------------------------------------------------------------------------------
# the run
# ------------------------------------------------------------------------------------------------
def with_fault(files, i, kind, rng):
    fs = [dict(f) for f in files]
    line = FAULTS[kind].format(u=i)
    fs[i]["text"] = fs[i]["text"] + line if rng.random() < 0.7 else line + fs[i]["text"]
    return fs


def edge_cases():
    P, Q = "print(1)\n", "print(2)\n"
    A1 = "class Foo\n    def x: Int := 1\n"
    A2 = "class Foo\n    def y: Str := \"s\"\n"
    U = "def f := Foo()\nprint(f.x)\n"
    f = lambda rel, text: {"rel": rel, "text": text, "uses": [], "defines": False}
    return [
        Case("edge", [f(".mamba", P), f(".mamba.mamba", Q)], note="stem of .mamba is the whole name"),
        Case("edge", [f("x.mamba", P), f("x.py/y.mamba", Q)], note="file and directory at one output path"),
        Case("edge", [f("a.mamba", P), f("x.mamba", Q)], pre=[("target/x.py", None)], note="directory in the way"),
        Case("edge", [f("x.mamba", P)], src_dirs=["d.mamba"], note="directory named like a source (skipped since c8709a7)"),
        Case("edge", [f("a.mamba", "import xx as yy, zz\n"), f("b/c.mamba", A1), f("z.mamba", "def g(a: Int := 1, b: Int) -> Int => a\n")],
             fault=("all2", "context"), note="two files with context errors, one without"),
        Case("edge", [f("x.mamba", P)], target="out/py", note="nested target that does not exist"),
        Case("edge", [f("", P)], src="main.mamba", note="source is a single file"),
        Case("edge", [f("", "def x := (\n")], src="main.mamba", fault=(0, "syntax"), note="single faulty file"),
        Case("edge", [], src="nosuch", make_src=False, pre=[("other.txt", "x")], note="missing source"),
        Case("edge", [], note="empty source directory"),
        Case("edge", [f("a.mamba", P)], pre=[("target", "i am a file")], note="target is a file"),
        Case("edge", [f("a.mamba", P)], pre=[("target/a.py", "x" * 200), ("target/old.py", "old"), ("target/sub/deep.txt", "t")],
             runs=2, note="truncate and keep stale"),
        Case("edge", [f("a.mamba", "print(1)\r\nprint(2)\r\n")], note="CRLF source"),
        Case("edge", [f("a.mamba", P)], target="src/out", runs=2, note="target inside source"),
        Case("edge", [f("a.mamba", A1), f("b.mamba", "import xx as yy, zz\n")], fault=(1, "context"), note="context error"),
        Case("edge", [f("deep/er/a.mamba", A1), f("u.mamba", U)], src="code", target="build", runs=2, annotate=1,
             note="custom names"),
    ]


def selftest():
    """the oracle must reject hand-made bad outcomes (and accept the good ones)"""
    f = lambda rel, text: {"rel": rel, "text": text, "uses": [], "defines": False}
    c = Case("selftest", [f("a.mamba", "print(1)\n"), f("d/b.mamba", "print(2)\n")])
    bt = {p: (None if v is None else v.encode()) for p, v in tree_of(c.entries()).items()}
    good = dict(bt, **{"target": None, "target/a.py": b"x", "target/d": None, "target/d/b.py": b"y"})
    ok = lambda tree: {"status": "OK", "errors": [], "path": "target", "tree": tree}
    err = lambda tree, es: {"status": "ERR", "errors": es, "path": None, "tree": tree}
    cf = Case("selftest", c.files, fault=(1, "syntax"))
    e_good = "msg" + ARROW + "src/d/b.mamba:1:2\n   1 | x\n"
    problems = []
    expect = [
        (c, ok(good), []),
        (c, ok({k: v for k, v in good.items() if k != "target/d/b.py"}), ["an expected output file is missing: target/d/b.py"]),
        (c, ok(dict(good, **{"target/extra.py": b"z"})), ["something else was created: target/extra.py"]),
        (c, ok(dict(good, **{"src/a.mamba": b"changed"})), None),
        (cf, ok(good), None),
        (cf, err(dict(bt, target=None), [e_good]), []),
        (cf, err(dict(bt, **{"target": None, "target/a.py": b"x"}), [e_good]), ["Python written despite error"]),
        (cf, err(dict(bt, target=None), ["msg" + ARROW + "src/a.mamba:1:2\n"]), ["error names a file that has no fault: src/a.mamba"]),
        (cf, err(dict(bt, target=None), ["msg" + ARROW + "<unknown>:1:2\n"]), ["error without file name"]),
        (cf, err(dict(bt, target=None), []), ["error result without any diagnostic"]),
        (c, err(dict(bt, target=None), ["io"]), ["clean project rejected"]),
    ]
    for case, run_, want in expect:
        got = judge_dir(case, run_)
        if (want is None and not got) or (want is not None and got != want):
            problems.append({"want": want, "got": got})
    return problems


def run(tier, replay=None):
    ck = Check("C13", tier)
    st = selftest()
    if st:
        ck.broken.append({"kind": "oracle-selftest", "where": "judge_dir on hand-made outcomes", "examples": st[:3]})
    quick = tier == "quick"
    rng = ck.rng
    ck.proof(["props/C13.vo", "model/ProjectTab.vo"], "props.C13", THEOREMS)
    build_harness(ck.log)
    base = os.path.join(CACHE, "c13tmp")
    shutil.rmtree(base, ignore_errors=True)
    os.makedirs(base, exist_ok=True)
    try:
        return _run(ck, quick, rng, replay, base)
    finally:
        shutil.rmtree(base, ignore_errors=True)


def _run(ck, quick, rng, replay, base):
    # ---- cases ----------------------------------------------------------------------------------
    dir_cases = []          # (id, Case, meta)
    perm_jobs = []          # (project id, files, annotate)
    fresh_jobs = []         # (project id, base Case, Case with the unrelated file, index of new file)
    alone_jobs = []         # (project id, file) user files that must fail on their own
    projects = []
    if replay:
        data = json.load(open(replay))
        if "case" in data:
            c = Case.from_json(data["case"])
            dir_cases.append(("r0", c, {}))
            if len(c.files) > 1 and not c.src_is_file():
                perm_jobs.append(("r0", c.files, c.annotate))
    else:
        for k, c in enumerate(edge_cases()):
            dir_cases.append((f"e{k}", c, {}))
        sizes = [1, 2, 2, 3, 3, 3, 4, 4, 5, 5] if quick else [1] * 4 + [2] * 14 + [3] * 22 + [4] * 22 + [5] * 18
        for pi, n in enumerate(sizes):
            files = gen_project(rng, n)
            projects.append(files)
            names = rng.choice([(None, None), (None, None), ("code", "out"), ("lib", None), (None, "py")])
            ann = pi % 2
            pid = f"p{pi}"
            dir_cases.append((pid + "c", Case("clean", files, src=names[0], target=names[1], annotate=ann, runs=2), {}))
            tgt = names[1] or "target"
            pre = [(tgt + "/old.py", "stale = 1\n"), (tgt + "/keep/deep.txt", "t"),
                   (tgt + "/" + out_rel(files[0]["rel"]), "# previous output, longer than the new one\n" * 8)]
            dir_cases.append((pid + "t", Case("populated", files, pre=pre, src=names[0], target=names[1], annotate=ann), {}))
            combos = [(i, kind) for i in range(n) for kind in ("lexical", "syntax", "type", "type-undefined")]
            if quick and len(combos) > 6:
                combos = rng.sample(combos, 6)
            for i, kind in combos:
                populated = rng.random() < 0.3
                dir_cases.append((f"{pid}f{i}{kind[:3]}{kind[-1]}",
                                  Case("faulty", with_fault(files, i, kind, rng), pre=pre if populated else (),
                                       src=names[0], target=names[1], annotate=ann, fault=(i, kind)), {}))
            if n > 2:
                # every file faulty at one stage: every file is reported, in the order the glob lists them
                kind = rng.choice(["lexical", "syntax", "type", "context"])
                allf = files
                for i in range(n):
                    allf = with_fault(allf, i, kind, rng)
                dir_cases.append((f"{pid}m", Case("multifault", allf, src=names[0], target=names[1], annotate=ann,
                                                   fault=("all", kind)), {}))
            if n > 1:
                i = rng.randrange(n)
                dir_cases.append((f"{pid}x{i}", Case("faulty", with_fault(files, i, "context", rng), src=names[0],
                                                     target=names[1], annotate=ann, fault=(i, "context")), {}))
            perm_jobs.append((pid, files, ann))
            if n > 1:
                i, kind = rng.randrange(n), rng.choice(["lexical", "syntax", "type"])
                perm_jobs.append((pid + "F", with_fault(files, i, kind, rng), ann))
            u = 90 + pi
            cls, fun, _, _ = definer(u, rng)
            fresh = {"rel": rng.choice(["", "a/", "zz/", "pkg/new/"]) + f"fresh{u}.mamba",
                     "text": cls + "\n" + fun, "uses": [], "defines": True}
            pos = rng.randrange(n + 1)
            files2 = files[:pos] + [fresh] + files[pos:]
            fresh_jobs.append((pid, Case("clean", files, src=names[0], target=names[1], annotate=ann),
                               Case("fresh", files2, src=names[0], target=names[1], annotate=ann), pos))
            for f in files:
                if f["uses"]:
                    alone_jobs.append((pid, f))
        # duplicate names across files (known order dependence)
        A1 = "class Foo\n    def x: Int := 1\n"
        A2 = "class Foo\n    def y: Str := \"s\"\n"
        U = "def f := Foo()\nprint(f.x)\n"
        mk = lambda rel, text: {"rel": rel, "text": text, "uses": [], "defines": True}
        perm_jobs.append(("dupclass", [mk("a.mamba", A1), mk("b.mamba", A2), mk("u.mamba", U)], 0))
        F1 = "def helper(x: Int) -> Int => x + 1\n"
        F2 = "def helper(x: Str) -> Str => x\n"
        U2 = "def r: Int := helper(1)\n"
        perm_jobs.append(("dupfun", [mk("a.mamba", F1), mk("b.mamba", F2), mk("u.mamba", U2)], 0))

    # ---- implementation: transpile_dir runs -----------------------------------------------------
    lines = [dir_line(cid, base, c) for cid, c, _ in dir_cases]
    for pid, c0, c1, pos in fresh_jobs:
        lines.append(dir_line(pid + "n", base, c1))
    ans = run_sharded(MH, lines, shards=min(8, max(1, len(lines) // 20)))
    ck.log(f"{len(lines)} transpile_dir cases run")
    n_eval = 0
    viol = []               # (what, case, details)
    model_jobs = []         # (key, coq term, comparer)
    stage_reqs = {}         # key -> (annotate, items)

    def items_of(case):
        if case.src_is_file():
            return [(case.srcname, case.files[0]["text"])]
        by = {f["rel"]: f["text"] for f in case.files}
        return [(case.srcname + "/" + r, by[r]) for r in case.rels()]

    results = {}
    for cid, c, _ in dir_cases + [(pid + "n", c1, {}) for pid, c0, c1, pos in fresh_jobs]:
        r = ans.get(cid, ["MISSING"])
        if r[0] not in ("OK", "ERR"):
            ck.broken.append({"kind": "harness", "where": f"project dir {cid}", "answer": r[:2]})
            continue
        runs = parse_dir_answer(r)
        results[cid] = runs
        n_eval += len(runs)
        before = None
        for k, run_ in enumerate(runs):
            for what in judge_dir(c, run_, before):
                viol.append((what, c, {"run": k, "status": run_["status"], "errors": run_["errors"],
                                       "tree": sorted(run_["tree"])}))
            if k > 0 and (run_["status"] != runs[0]["status"] or run_["tree"] != runs[0]["tree"]):
                viol.append(("a second run changed the verdict or the tree", c, {"run": k}))
            before = {p: (None if v is None else v.decode("utf-8", "replace")) for p, v in run_["tree"].items()}
        stage_reqs[cid] = (c.annotate, items_of(c))

    # ---- unrelated file ---------------------------------------------------------------------------
    n_fresh_ok = 0
    for pid, c0, c1, pos in fresh_jobs:
        r0, r1 = results.get(pid + "c"), results.get(pid + "n")
        if not r0 or not r1:
            continue
        a, b = r0[0], r1[0]
        tgt = "/".join(comps(c0.tgtname))
        if a["status"] != b["status"]:
            viol.append(("adding an unrelated file changed the verdict", c1, {"before": a["status"], "after": b["status"],
                                                                             "errors": b["errors"]}))
            continue
        newout = tgt + "/" + out_rel(c1.files[pos]["rel"])
        for p, v in a["tree"].items():
            if p.startswith(tgt + "/") and b["tree"].get(p) != v:
                viol.append(("adding an unrelated file changed another file's output", c1, {"path": p}))
        extra = [p for p in b["tree"] if p.startswith(tgt + "/") and p not in a["tree"] and b["tree"][p] is not None]
        if extra != [newout]:
            viol.append(("adding an unrelated file wrote something else than its own output", c1, {"extra": extra}))
        else:
            n_fresh_ok += 1

    # ---- implementation: permutations through mamba_to_python -----------------------------------
    plines, pmeta = [], {}
    for pid, files, ann in perm_jobs:
        order = sorted(files, key=lambda f: glob_key(f["rel"]))
        perms = list(itertools.permutations(range(len(order))))
        if quick and len(perms) > 24 and pid.endswith("F"):
            perms = perms[:1] + rng.sample(perms[1:], 23)
        reps = 4 if pid == "dupfun" else 1
        for k, perm in enumerate(perms):
            for rep in range(reps):
                items = [("src/" + order[i]["rel"], order[i]["text"]) for i in perm]
                lid = f"{pid}.{k}.{rep}"
                plines.append(m2p_line(lid, ann, "src", items))
                pmeta[lid] = (pid, perm, items, ann)
    for pid, f in alone_jobs:
        lid = f"{pid}.alone.{hexs(f['rel'])[:24]}"
        plines.append(m2p_line(lid, 0, "src", [("src/" + f["rel"], f["text"])]))
        pmeta[lid] = (pid, None, None, 0)
    pans = run_sharded(MH, plines, shards=8 if len(plines) > 200 else 1)
    ck.log(f"{len(plines)} mamba_to_python calls (permutations, single files)")
    n_eval += len(plines)
    n_perm_projects = n_alone_ok = 0
    by_project = {}
    for lid, (pid, perm, items, ann) in pmeta.items():
        r = pans.get(lid, ["MISSING"])
        if r[0] not in ("OK", "ERR"):
            ck.broken.append({"kind": "harness", "where": f"project m2p {lid}", "answer": r[:2]})
            continue
        if perm is None:
            if r[0] == "OK":
                ck.broken.append({"kind": "oracle-vacuous", "where": "a file that uses another file's definitions is "
                                  "accepted on its own, so acceptance inside the project shows nothing", "case": lid})
            else:
                n_alone_ok += 1
            continue
        by_project.setdefault(pid, []).append((perm, items, r))
    for pid, runs in by_project.items():
        files = [f for p, f, a in perm_jobs if p == pid][0]
        c = Case("permutation", files)
        n_perm_projects += 1
        verdicts = {r[0] for _, _, r in runs}
        per_file = {}
        for perm, items, r in runs:
            if r[0] != "OK":
                continue
            outs = hl(r[1] if len(r) > 1 else "")
            for (p, _), py in zip(items, outs):
                per_file.setdefault(p, set()).add(py)
        errsets = {tuple(sorted(hl(r[1] if len(r) > 1 else ""))) for _, _, r in runs if r[0] == "ERR"}
        same_order = {}
        for perm, items, r in runs:
            same_order.setdefault(perm, set()).add((r[0], r[1] if len(r) > 1 else ""))
        if any(len(v) > 1 for v in same_order.values()):
            viol.append(("result differs between identical runs of the same file order", c, {"project": pid}))
        if len(verdicts) > 1 or any(len(v) > 1 for v in per_file.values()) or len(errsets) > 1:
            diff = [p for p, v in per_file.items() if len(v) > 1]
            viol.append(("output or verdict depends on file order", c,
                         {"project": pid, "verdicts": sorted(verdicts), "files_with_different_output": diff}))
        # the errors of a faulty project name the faulty file in every order
        if pid.endswith("F"):
            for perm, items, r in runs:
                for e in hl(r[1] if len(r) > 1 else ""):
                    ep = error_path(e)
                    if ep is None or ep == "<unknown>":
                        viol.append(("error without file name", c, {"error": e}))

    # ---- model side --------------------------------------------------------------------------------
    # per-file stage results (in glob order) for every transpile_dir case, and for a sample of permutations
    perm_sample = []
    for pid, runs in by_project.items():
        runs_sorted = sorted(runs, key=lambda x: x[0])
        take = runs_sorted if len(runs_sorted) <= 6 else [runs_sorted[0]] + rng.sample(runs_sorted[1:], 5)
        for perm, items, r in take:
            if pid == "dupfun":
                continue          # outcome is not a function of the input (hash order), nothing to predict
            key = f"{pid}.{'_'.join(map(str, perm))}"
            stage_reqs[key] = ([a for p, f, a in perm_jobs if p == pid][0], items)
            perm_sample.append((key, pid, items, r))
    slines = [stages_line(k, ann, items) for k, (ann, items) in stage_reqs.items()]
    sans = run_sharded(MH, slines, shards=min(8, max(1, len(slines) // 20)))
    ck.log(f"{len(slines)} per-file stage tables observed")
    terms, tmeta = [], []
    case_by_id = {cid: c for cid, c, _ in dir_cases}
    case_by_id.update({pid + "n": c1 for pid, c0, c1, pos in fresh_jobs})
    for cid, runs in results.items():
        c = case_by_id[cid]
        ann, items = stage_reqs[cid]
        st = parse_stages(sans.get(cid, ["MISSING"]), items)
        if st is None:
            ck.broken.append({"kind": "harness", "where": f"project stages {cid}", "answer": sans.get(cid, ["MISSING"])[:2]})
            continue
        terms.append(dir_term(c, st))
        tmeta.append(("dir", cid, c, runs[0]))
    for key, pid, items, r in perm_sample:
        st = parse_stages(sans.get(key, ["MISSING"]), items)
        if st is None:
            ck.broken.append({"kind": "harness", "where": f"project stages {key}", "answer": sans.get(key, ["MISSING"])[:2]})
            continue
        ann = stage_reqs[key][0]
        terms.append(m2p_term(ann, "src", items, st))
        tmeta.append(("m2p", key, None, r))
    # the context merge itself: duplicate class, first file in the order wins (toy world of ProjectToy.v)
    dup_runs = sorted(by_project.get("dupclass", []), key=lambda x: x[0])
    toy_src = {"src/a.mamba": "cFx", "src/b.mamba": "cFy", "src/u.mamba": "uF_"}
    for perm, items, r in dup_runs:
        its = cl([f"({q(toy_src[p])}, Some {cpath(p)})" for p, _ in items])
        terms.append(f"ProjectTab.show_m2p (m2p ProjectToy.toy ProjectTab.ord_id false {its} [{q('src')}])")
        tmeta.append(("ctx", perm, items, r))
    corr_bad, n_corr_ok = [], 0
    if terms:
        from concurrent.futures import ThreadPoolExecutor
        chunks = [terms[i:i + 60] for i in range(0, len(terms), 60)]
        with ThreadPoolExecutor(min(8, max(1, len(chunks)))) as ex:
            parts = list(ex.map(lambda ch: coq_eval(["model.Project", "model.ProjectTab", "proofs.ProjectToy"], ch,
                                                    timeout=1500), chunks))
        vals = [v for part in parts for v in part]
        for (kind, key, c, actual), v in zip(tmeta, vals):
            if kind == "dir":
                d = compare_dir(v, actual)
                # direct oracle on contents: the model's tree is built from the Python the implementation's own
                # pipeline emitted for each source (stages endpoint); an output file on disk that differs from it
                # does not hold the emitted Python - a concrete violation of the mirrored layout
                if d is not None and d.startswith("tree:") and v is not None:
                    try:
                        mst, _, mfs = clean(v).split("|", 2)
                        mt = parse_listing(mfs)
                        if mst == "OK" and actual["status"] == "OK":
                            for pth in sorted(mt):
                                if pth.endswith(".py") and isinstance(mt[pth], bytes) and isinstance(actual["tree"].get(pth), bytes) \
                                        and mt[pth] != actual["tree"][pth]:
                                    viol.append(("an output file does not hold the Python emitted for its source: " + pth, c,
                                                 {"path": pth, "on_disk_tail": actual["tree"][pth][-200:].decode("utf-8", "replace"),
                                                  "emitted_tail": mt[pth][-200:].decode("utf-8", "replace")}))
                                    break
                    except Exception:
                        pass
            elif kind == "m2p":
                d = compare_m2p(v, actual)
            else:
                # model: the user file's output is the data of the winning class ("x": the class with field x)
                txt = clean(v)
                outs = [bytes.fromhex(x[1:]).decode() for x in txt.split("|", 1)[1].split(",")] if txt.startswith("OK|") else []
                winner_has_x = bool(outs) and "x" in outs
                d = None if winner_has_x == (actual[0] == "OK") else \
                    f"context merge: model says the class with field x wins={winner_has_x}, implementation verdict {actual[0]}"
            if d is None:
                n_corr_ok += 1
            else:
                corr_bad.append({"case": key if isinstance(key, str) else list(key), "difference": d,
                                 "input": c.to_json() if c is not None and hasattr(c, "to_json") else None})
    ck.log(f"model predictions compared: {len(tmeta)}, agree {n_corr_ok}")
    if corr_bad:
        ck.broken.append({"kind": "correspondence", "where": "project endpoint: Project.v model vs transpile_dir / mamba_to_python",
                          "examples": corr_bad[:3], "count": len(corr_bad)})

    # ---- verdict ----------------------------------------------------------------------------------
    seen, per_kind = set(), {}
    for what, c, details in viol:
        key = (what, json.dumps(c.to_json(), sort_keys=True))
        if key in seen:
            continue
        seen.add(key)
        kind = (re.sub(r":.*", "", what), c.family, " ".join(c.features()))
        per_kind[kind] = per_kind.get(kind, 0) + 1
        if per_kind[kind] > 3 and not ck.match_finding(c.text(what)):
            continue                      # at most 3 replays per (failure, family, feature set)
        p = ck.write_replay("oracle", {"case": c.to_json(), "what": what, "details": details})
        ck.violation(what, p, c.text(what))
    ck.cov["oracle_failures_by_kind"] = {" | ".join(k): v for k, v in sorted(per_kind.items())}
    n_multi = sum(1 for f in projects if len(f) > 1)
    samples = []
    for cid, c, _ in dir_cases:
        if c.family == "clean" and len(c.files) >= 3 and cid in results and len(samples) < 2:
            samples.append({"files": {f["rel"]: f["text"] for f in c.files}, "src": c.srcname, "target": c.tgtname,
                            "tree_after": sorted(results[cid][0]["tree"])})
    ck.cov.update({
        "evaluations": n_eval + len(slines),
        "distinct_nontrivial": len({json.dumps(c.to_json(), sort_keys=True) for _, c, _ in dir_cases if len(c.files) > 1})
                               + sum(len(v) for v in by_project.values()),
        "rule": "generated projects of 1-5 files in nested directories (classes and functions with unique names, "
                "random cross-file uses in both glob directions, custom src/target names, both annotate values; model and checks follow /repo 2d1bc77): "
                "clean run + rerun, populated target, each (file, fault kind in lexical/syntax/type/undefined) [sampled in "
                "quick tier], a context-stage fault, all permutations through mamba_to_python (faulty variant: 24 sampled in "
                "quick tier), an added unrelated file, every user file alone; plus 16 hand-written edge projects and two "
                "duplicate-name projects. distinct_nontrivial = distinct multi-file transpile_dir cases + permutation runs",
        "projects": len(projects), "multi_file_projects": n_multi,
        "transpile_dir_cases": len(results), "permutation_runs": sum(len(v) for v in by_project.values()),
        "projects_permuted": n_perm_projects, "unrelated_file_checks_passed": n_fresh_ok,
        "user_files_rejected_alone": n_alone_ok,
        "traces_validated_against_impl": n_corr_ok, "model_predictions_compared": len(tmeta),
        "samples": samples, "exhaustive": False,
        "trusted_base": [
            "Coq 8.16.1 kernel (vm_compute for the concrete examples and witnesses); no axioms",
            "model/Project.v is a hand model of src/lib.rs, src/io.rs and the set merge of src/check/context/{mod,generic,resource}.rs; "
            "tied to the code only by this correspondence run",
            "the per-file stages (parse, declarations, check, generate) are parameters; for the correspondence they are "
            "instantiated with the results observed through the harness endpoint `project stages`, which re-implements the "
            "stage sequence of mamba_to_python with the public per-stage API",
            "hypotheses key_compat, stages_extensional, stages_local, ord_ok are about those parameters: validated by the "
            "permutation and unrelated-file runs, not proved of the Rust code (reading: Context is only read through find-by-name)",
            "abstract file system: no symlinks, permissions, non-UTF-8 contents, short writes, '.'/'..' components, absolute "
            "src/target; glob order taken to be component-wise byte order (checked by the diagnostics order of multi-error projects)",
            "harness/src/project.rs, lib/vlib/c13.py (generator, canonicalisation, oracle)",
        ],
    })
    ck.assumptions += [
        "order independence and non-interference are proved under uniq_names (no two declarations answer to one name); "
        "duplicate names are known findings C13-1/C13-2",
        "rerun idempotence is proved when source and target directories are not nested in each other and output paths are distinct",
    ]
    return ck.finish()
