"""C04 - accepted programs do not go wrong: no TypeError / AttributeError / NameError / UnboundLocalError at run time.

proof         : props/C04.v: `stubs_sound` of the REGENERATED signature table against model/PyOps.v (a model of Python's
                built-in operators on type tags) holds outside five known rows and is refuted while one of them is
                present; `C04_partial`: typable core expressions (operators, not/and/or, `?`, if-expressions, f-strings)
                do not go wrong and evaluate to a tag of their type, for the table without the known rows (model/TagSem.v);
                calls, objects, statements are not covered; full soundness is false of the faithful model
                (props/C05.v C05_witnesses are accepted and go wrong).
tie           : translate/stub_sigs.py; model/PyOps.v is validated here against python3 (every method x every tag
                tuple on sample values); verdict correspondence as in C05.
direct oracle : the emitted Python of every ACCEPTED program (generated conforming programs, every kind of type-changing
                single-point mutant, the corpus) is executed under python3 (timeout 5 s); an exception of the four classes
                is a violation."""
import itertools, json, subprocess, sys

from .common import coq_eval
from . import typing_common as tc

KINDS = {"wrong-type", "none", "nullable", "missing-arg", "extra-arg", "wrong-recv", "aug-result", "supertype", "supertype-field", "nullable-subtype", "inferred-wrong", "unwrap"}
THEOREMS = ["C04_stubs_sound_outside_known", "C04_stubs_sound_refuted", "C04_unsound_row_refutes", "C04_tag_witnesses",
            "C04_partial", "C04_partial_any_tables", "C04_partial_refuted"]

SAMPLES = {"int": ["-2", "0", "3"], "float": ["-8.0", "0.5", "2.0"], "complex": ["(1+2j)"], "str": ["'a'", "'12'"],
           "bool": ["True", "False"], "NoneType": ["None"]}
TAGS = ["int", "float", "complex", "str", "bool", "NoneType"]
COQ_TAG = {"int": "GInt", "float": "GFloat", "complex": "GComplex", "str": "GStr", "bool": "GBool", "NoneType": "GNone"}
BINOPS = {"__add__": "+", "__sub__": "-", "__mul__": "*", "__truediv__": "/", "__floordiv__": "//", "__mod__": "%",
          "__pow__": "**", "__lt__": "<", "__gt__": ">", "__le__": "<=", "__ge__": ">=", "__eq__": "==", "__ne__": "!="}
PYCLS = {"Int": "int", "Float": "float", "Str": "str", "Bool": "bool", "Complex": "complex"}


def python_table():
    """what python3 does: {(class, method, recv tag, arg tags): set of result tags | 'TypeError' ...}"""
    prog = ["import math, itertools, json", "S = " + repr(SAMPLES), "out = {}",
            "def run(key, expr, env):",
            "    try:",
            "        r = type(eval(expr, {'math': math}, env)).__name__",
            "    except (TypeError, AttributeError) as e:",
            "        r = '!' + type(e).__name__",
            "    except Exception as e:",
            "        return",
            "    out.setdefault(key, set()).add(r)",
            "T = " + repr(TAGS)]
    prog += ["for m, op in " + repr(BINOPS) + ".items():",
             "    for a in T:",
             "        for b in T:",
             "            for x in S[a]:",
             "                for y in S[b]:",
             "                    run(f'-|{m}|{a}|{b}', f'({x}) {op} ({y})', {})",
             "for a in T:",
             "    for x in S[a]:",
             "        run(f'-|__str__|{a}|', f'str({x})', {})",
             "        run(f'-|__bool__|{a}|', f'not ({x})', {})",
             "        run(f'-|__neg__|{a}|', f'-({x})', {})",
             "        run(f'-|sqrt|{a}|', f'math.sqrt({x})', {})",
             "        run(f'-|is_digit|{a}|', f'({x}).is_digit()', {})",
             "for c, pc in " + repr(PYCLS) + ".items():",
             "    for n in (1, 2):",
             "        for tags in itertools.product(T, repeat=n):",
             "            for vals in itertools.product(*[S[t] for t in tags]):",
             "                run(f'{c}|__init__|-|' + ','.join(tags), f'{pc}(' + ', '.join(vals) + ')', {})",
             "print(json.dumps({k: sorted(v) for k, v in out.items()}))"]
    q = subprocess.run([sys.executable, "-I", "-c", "\n".join(prog)], capture_output=True, text=True, timeout=120)
    return json.loads(q.stdout)


def validate_pyops(ck):
    """model/PyOps.py_call against python3, entry by entry"""
    table = python_table()
    keys, exprs = [], []
    for k in sorted(table):
        c, m, a, bs = k.split("|")
        args = [COQ_TAG[b] for b in bs.split(",") if b]
        if m == "__init__":
            exprs.append(f'option_map show_tags (py_call "{c}" "__init__" GNone [{"; ".join(args)}])')
        else:
            if m == "__bool__":
                pass
            exprs.append(f'option_map show_tags (py_call "Int" "{m}" {COQ_TAG[a]} [{"; ".join(args)}])')
        keys.append(k)
    res = coq_eval(["model.Types", "model.TypingSig", "model.PyOps"], [f"({e})%string" for e in exprs])
    bad, ok = [], 0
    for k, r in zip(keys, res):
        py = table[k]
        if any(x.startswith("!") for x in py):
            want = None if all(x.startswith("!") for x in py) else "mixed"
        else:
            want = set(py)
        r = (r or "").strip()
        if r == "None":
            got = None
        else:
            mm = __import__("re").fullmatch(r'Some "([^"]*)"(?:%string)?', r)
            got = set(mm.group(1).split(",")) if mm and mm.group(1) else (set() if mm else "??")
        c, m, a, bs = k.split("|")
        if m == "__init__":
            # the model only says whether the constructor call is a TypeError
            same = (want is None) == (got is None)
        elif m == "__bool__":
            same = got == {"bool"} and want == {"bool"}
        elif want == "mixed":
            same = False
        else:
            same = got == want
        if same:
            ok += 1
        else:
            bad.append((k, f"python3: {sorted(py)}", f"model: {r}"))
    ck.cov["python_model_validation"] = {"entries": len(keys), "agree": ok, "disagree": len(bad), "examples": bad[:5]}
    if bad:
        ck.broken.append({"kind": "python-model", "where": "PyOps.py_call vs python3", "count": len(bad),
                          "examples": [list(b) for b in bad[:12]]})


def extra(ck):
    validate_pyops(ck)
    r = coq_eval(["model.Types", "model.TypingSig", "gen.Stubs", "gen.StubSigs", "model.PyOps", "model.Typing", "model.TagSem",
                  "proofs.StubsSound", "proofs.TagSound"],
                 ["(stubs_sound stub_sigs, known_unsound_present stub_sigs, tables_ok generated stub_sigs, d9_typable)",
                  "(map (fun r => (sg_class r, sg_name r, option_map show_tags (row_witness r))) "
                  "(filter (fun r => andb (core_row r) (negb (row_sound r))) stub_sigs))",
                  "(uncovered stub_sigs)"])
    ck.cov["stubs_sound"] = {"(stubs_sound stub_sigs, known_unsound_present, tables_ok generated stub_sigs, premise of C04_partial_refuted)": r[0], "unsound rows (class, method, first failing tags)": r[1],
                             "core rows not covered by the model of Python": r[2]}


def run(tier, replay=None):
    return tc.run_check("C04", tier, replay, THEOREMS, ["props/C04.vo", "props/C05.vo"], "props.C04", KINDS, "mixed",
                        with_python=True, extra=extra)
