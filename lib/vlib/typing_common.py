"""Shared machinery of C05 (declared signatures), C06 (null safety) and C04 (accepted programs do not go wrong).

One typed AST of the mini-language of coq/model/Typing.v with three renderers / interpreters:
  .mamba()   real Mamba source (what the implementation sees)
  .coq()     a Gallina term of model/Typing.v (what the model sees)
  Spec       the declarative relation `conforms`, computed here independently of Coq (the direct oracle's judge)
plus the generator of conforming programs, the single-point mutants at every typed position, the fixed corpus
of witnesses for the known findings, and the runners (implementation verdict through the harness `transpile`
endpoint, model verdicts through coq_eval, execution of emitted Python under python3).
"""
import copy, os, re, subprocess, sys, tempfile
from concurrent.futures import ThreadPoolExecutor

from .common import CACHE, MH, NCPU, coq_eval, hexs, unhex, run_sharded, BuildError


# ------------------------------------------------------------------------------------------------
# types
# ------------------------------------------------------------------------------------------------
class Ty:
    __slots__ = ("c", "n")

    def __init__(self, c, n=False):
        self.c, self.n = c, n

    def mamba(self):
        return self.c + ("?" if self.n else "")

    def coq(self):
        return f'(TN {"true" if self.n else "false"} "{self.c}" [])'

    def opt(self):
        return Ty(self.c, True)

    def strip(self):
        return Ty(self.c, False)

    def __eq__(self, o):
        return isinstance(o, Ty) and (self.c, self.n) == (o.c, o.n)

    def __hash__(self):
        return hash((self.c, self.n))

    def __repr__(self):
        return self.mamba()


INT, FLOAT, STR, BOOL, NONE, UNIT = Ty("Int"), Ty("Float"), Ty("Str"), Ty("Bool"), Ty("None"), Ty("()")
COMPLEX = Ty("Complex")


def cs(s):
    return '"' + s.replace('"', '""') + '"'


def clist(xs):
    return "[" + "; ".join(xs) + "]"


def copt(x):
    return "None" if x is None else f"(Some {x})"


# ------------------------------------------------------------------------------------------------
# expressions
# ------------------------------------------------------------------------------------------------
OPS = {"+": "__add__", "-": "__sub__", "*": "__mul__", "/": "__truediv__", "//": "__floordiv__", "mod": "__mod__",
       "^": "__pow__", "<": "__lt__", ">": "__gt__", "<=": "__le__", ">=": "__ge__", "=": "__eq__", "!=": "__ne__"}


class E:
    pass


class EInt(E):
    def __init__(self, z): self.z = z
    def mamba(self): return str(self.z)
    def coq(self): return f"(EInt {self.z}%Z)"


class EFloat(E):
    def __init__(self, s): self.s = s
    def mamba(self): return self.s
    def coq(self): return f"(EFloat {cs(self.s)})"


class EStr(E):
    def __init__(self, s): self.s = s
    def mamba(self): return '"' + self.s + '"'
    def coq(self): return f"(EStr {cs(self.s)})"


class EBool(E):
    def __init__(self, b): self.b = b
    def mamba(self): return "True" if self.b else "False"
    def coq(self): return f"(EBool {'true' if self.b else 'false'})"


class ENone(E):
    def mamba(self): return "None"
    def coq(self): return "ENone"


class EVar(E):
    def __init__(self, x): self.x = x
    def mamba(self): return self.x
    def coq(self): return f"(EVar {cs(self.x)})"


class EOp(E):
    def __init__(self, op, l, r): self.op, self.l, self.r = op, l, r
    def mamba(self): return f"({self.l.mamba()} {self.op} {self.r.mamba()})"
    def coq(self): return f"(EOp {cs(OPS[self.op])} {self.l.coq()} {self.r.coq()})"


class ENot(E):
    def __init__(self, e): self.e = e
    def mamba(self): return f"(not {self.e.mamba()})"
    def coq(self): return f"(ENot {self.e.coq()})"


class EBoolOp(E):
    def __init__(self, op, l, r): self.op, self.l, self.r = op, l, r
    def mamba(self): return f"({self.l.mamba()} {self.op} {self.r.mamba()})"
    def coq(self): return f"(EBoolOp {self.l.coq()} {self.r.coq()})"


class ECall(E):
    def __init__(self, f, args): self.f, self.args = f, list(args)
    def mamba(self): return f"{self.f}({', '.join(a.mamba() for a in self.args)})"
    def coq(self): return f"(ECall {cs(self.f)} {clist(a.coq() for a in self.args)})"


class EMeth(E):
    def __init__(self, o, m, args): self.o, self.m, self.args = o, m, list(args)
    def mamba(self): return f"{self.o.mamba()}.{self.m}({', '.join(a.mamba() for a in self.args)})"
    def coq(self): return f"(EMeth {self.o.coq()} {cs(self.m)} {clist(a.coq() for a in self.args)})"


class EField(E):
    def __init__(self, o, f): self.o, self.f = o, f
    def mamba(self): return f"{self.o.mamba()}.{self.f}"
    def coq(self): return f"(EField {self.o.coq()} {cs(self.f)})"


class EQuest(E):
    def __init__(self, x, d): self.x, self.d = x, d
    def mamba(self): return f"({self.x.mamba()} ? {self.d.mamba()})"
    def coq(self): return f"(EQuest {self.x.coq()} {self.d.coq()})"


class EIf(E):
    def __init__(self, c, t, e): self.c, self.t, self.e = c, t, e
    def mamba(self): return f"(if {self.c.mamba()} then {self.t.mamba()} else {self.e.mamba()})"
    def coq(self): return f"(EIf {self.c.coq()} {self.t.coq()} {self.e.coq()})"


class EFmt(E):
    """f-string: parts are str (literal text) or E"""
    def __init__(self, parts): self.parts = list(parts)
    def exprs(self): return [p for p in self.parts if isinstance(p, E)]
    def mamba(self):
        return '"' + "".join(p if isinstance(p, str) else "{" + p.mamba() + "}" for p in self.parts) + '"'
    def coq(self): return f"(EFmt {clist(p.coq() for p in self.exprs())})"


# ------------------------------------------------------------------------------------------------
# statements
# ------------------------------------------------------------------------------------------------
IND = "    "


def render_block(b, ind):
    out = []
    for s in b:
        out += s.mamba(ind)
    if not out:
        out = [IND * ind + "pass"]
    return out


class S:
    pass


class SDef(S):
    def __init__(self, x, mut, ann, e): self.x, self.mut, self.ann, self.e = x, mut, ann, e
    def mamba(self, ind):
        return [IND * ind + f"def {'' if self.mut else 'fin '}{self.x}{': ' + self.ann.mamba() if self.ann else ''} := {self.e.mamba()}"]
    def coq(self):
        return f"(SDef {cs(self.x)} {'true' if self.mut else 'false'} {copt(self.ann.coq() if self.ann else None)} {self.e.coq()})"


class SAssign(S):
    def __init__(self, x, e): self.x, self.e = x, e
    def mamba(self, ind): return [IND * ind + f"{self.x} := {self.e.mamba()}"]
    def coq(self): return f"(SAssign {cs(self.x)} {self.e.coq()})"


class SAug(S):
    """target: EVar or EField; op in + - * / ^"""
    def __init__(self, target, op, e): self.target, self.op, self.e = target, op, e
    def mamba(self, ind): return [IND * ind + f"{self.target.mamba()} {self.op}= {self.e.mamba()}"]
    def desugar(self):
        rhs = EOp(self.op, self.target, self.e)
        if isinstance(self.target, EVar):
            return SAssign(self.target.x, rhs)
        return SSetField(self.target.o, self.target.f, rhs)
    def coq(self): return self.desugar().coq()


class SSetField(S):
    def __init__(self, o, f, e): self.o, self.f, self.e = o, f, e
    def mamba(self, ind): return [IND * ind + f"{self.o.mamba()}.{self.f} := {self.e.mamba()}"]
    def coq(self): return f"(SSetField {self.o.coq()} {cs(self.f)} {self.e.coq()})"


class SExpr(S):
    def __init__(self, e): self.e = e
    def mamba(self, ind): return [IND * ind + self.e.mamba()]
    def coq(self): return f"(SExpr {self.e.coq()})"


class SPrint(S):
    def __init__(self, e): self.e = e
    def mamba(self, ind): return [IND * ind + f"print({self.e.mamba()})"]
    def coq(self): return f"(SPrint {self.e.coq()})"


class SIf(S):
    def __init__(self, c, t, e): self.c, self.t, self.e = c, list(t), list(e)
    def mamba(self, ind):
        out = [IND * ind + f"if {self.c.mamba()} then"] + render_block(self.t, ind + 1)
        if self.e:
            out += [IND * ind + "else"] + render_block(self.e, ind + 1)
        return out
    def coq(self): return f"(SIf {self.c.coq()} {clist(s.coq() for s in self.t)} {clist(s.coq() for s in self.e)})"


class SWhile(S):
    def __init__(self, c, b): self.c, self.b = c, list(b)
    def mamba(self, ind): return [IND * ind + f"while {self.c.mamba()} do"] + render_block(self.b, ind + 1)
    def coq(self): return f"(SWhile {self.c.coq()} {clist(s.coq() for s in self.b)})"


class SFor(S):
    def __init__(self, x, lo, hi, b): self.x, self.lo, self.hi, self.b = x, lo, hi, list(b)
    def mamba(self, ind):
        return [IND * ind + f"for {self.x} in {self.lo.mamba()} .. {self.hi.mamba()} do"] + render_block(self.b, ind + 1)
    def coq(self): return f"(SFor {cs(self.x)} {self.lo.coq()} {self.hi.coq()} {clist(s.coq() for s in self.b)})"


class SMatch(S):
    """arms: [(pattern, block)], pattern = int | str | None (wildcard)"""
    def __init__(self, e, arms): self.e, self.arms = e, [(p, list(b)) for p, b in arms]
    def mamba(self, ind):
        out = [IND * ind + f"match {self.e.mamba()}"]
        for p, b in self.arms:
            ps = "_" if p is None else (str(p) if isinstance(p, int) else '"' + p + '"')
            out += [IND * (ind + 1) + f"{ps} =>"] + render_block(b, ind + 2)
        return out
    def coq(self):
        def pc(p):
            return "PWild" if p is None else (f"(PInt {p}%Z)" if isinstance(p, int) else f"(PStr {cs(p)})")
        return f"(SMatch {self.e.coq()} {clist('(' + pc(p) + ', ' + clist(s.coq() for s in b) + ')' for p, b in self.arms)})"


class HArm:
    def __init__(self, exc, var, body, val): self.exc, self.var, self.body, self.val = exc, var, list(body), val
    def coq(self):
        return f"(HArm {cs(self.exc)} {cs(self.var)} {clist(s.coq() for s in self.body)} {copt(self.val.coq() if self.val else None)})"


class SHandle(S):
    """bd: None or (var, mut, ann)"""
    def __init__(self, bd, call, arms): self.bd, self.call, self.arms = bd, call, list(arms)
    def mamba(self, ind):
        if self.bd:
            x, mut, ann = self.bd
            head = f"def {'' if mut else 'fin '}{x}{': ' + ann.mamba() if ann else ''} := {self.call.mamba()} handle"
        else:
            head = f"{self.call.mamba()} handle"
        out = [IND * ind + head]
        for a in self.arms:
            out.append(IND * (ind + 1) + f"{a.var}: {a.exc} =>")
            body = []
            for s in a.body:
                body += s.mamba(ind + 2)
            if a.val is not None:
                body.append(IND * (ind + 2) + a.val.mamba())
            if not body:
                body = [IND * (ind + 2) + "pass"]
            out += body
        return out
    def coq(self):
        if self.bd:
            x, mut, ann = self.bd
            bd = f"(Some {{| b_var := {cs(x)}; b_mut := {'true' if mut else 'false'}; b_ann := {copt(ann.coq() if ann else None)} |}})"
        else:
            bd = "None"
        return f"(SHandle {bd} {self.call.coq()} {clist(a.coq() for a in self.arms)})"


class SReturn(S):
    def __init__(self, e): self.e = e
    def mamba(self, ind): return [IND * ind + f"return {self.e.mamba()}"]
    def coq(self): return f"(SReturn {self.e.coq()})"


class SRaise(S):
    def __init__(self, exc, args): self.exc, self.args = exc, list(args)
    def mamba(self, ind): return [IND * ind + f"raise {self.exc}({', '.join(a.mamba() for a in self.args)})"]
    def coq(self): return f"(SRaise {cs(self.exc)} {clist(a.coq() for a in self.args)})"


class Raw(S):
    """text the model does not see (only used by corpus cases that are not compared with the model)"""
    def __init__(self, lines): self.lines = lines
    def mamba(self, ind): return [IND * ind + l for l in self.lines]
    def coq(self): raise ValueError("Raw statement has no model term")


# ------------------------------------------------------------------------------------------------
# definitions
# ------------------------------------------------------------------------------------------------
class Param:
    def __init__(self, name, ty, default=None): self.name, self.ty, self.default = name, ty, default
    def mamba(self):
        return f"{self.name}: {self.ty.mamba()}" + (f" := {self.default.mamba()}" if self.default is not None else "")
    def coq(self):
        return f"{{| pa_name := {cs(self.name)}; pa_ty := {self.ty.coq()}; pa_default := {copt(self.default.coq() if self.default is not None else None)} |}}"


class FDef:
    def __init__(self, name, params, ret, body, result, raises=(), ret_stmt=True):
        self.name, self.params, self.ret, self.body, self.result = name, list(params), ret, list(body), result
        self.raises, self.ret_stmt = list(raises), ret_stmt

    def mamba(self, ind, is_method=False):
        ps = (["self"] if is_method else []) + [p.mamba() for p in self.params]
        shown = {v: k for k, v in OPS.items()}.get(self.name, self.name) if is_method else self.name
        head = f"def {shown}({', '.join(ps)})" + (f" -> {self.ret.mamba()}" if self.ret else "")
        if self.raises:
            head += f" raise [{', '.join(self.raises)}]"
        out = [IND * ind + head + " =>"]
        body = []
        for s in self.body:
            body += s.mamba(ind + 1)
        if self.result is not None:
            body.append(IND * (ind + 1) + (("return " if (self.ret_stmt and self.ret) else "") + self.result.mamba()))
        if not body:
            body = [IND * (ind + 1) + "pass"]
        return out + body

    def coq(self):
        return (f"{{| fd_name := {cs(self.name)}; fd_params := {clist(p.coq() for p in self.params)}; "
                f"fd_ret := {copt(self.ret.coq() if self.ret else None)}; fd_body := {clist(s.coq() for s in self.body)}; "
                f"fd_result := {copt(self.result.coq() if self.result is not None else None)} |}}")


class CDef:
    """fields: [(name, Ty)] = constructor arguments `def name: T`; parent: None or (name, [args])"""
    def __init__(self, name, fields, methods, parent=None):
        self.name, self.fields, self.methods, self.parent = name, list(fields), list(methods), parent

    def mamba(self, ind=0):
        head = f"class {self.name}"
        if self.fields:
            head += "(" + ", ".join(f"def {f}: {t.mamba()}" for f, t in self.fields) + ")"
        if self.parent:
            head += f": {self.parent[0]}({', '.join(a.mamba() for a in self.parent[1])})"
        out = [IND * ind + head]
        for m in self.methods:
            out += m.mamba(ind + 1, True)
        return out

    def coq(self):
        par = "None" if not self.parent else f"(Some ({cs(self.parent[0])}, {clist(a.coq() for a in self.parent[1])}))"
        return (f"{{| cd_name := {cs(self.name)}; cd_parent := {par}; "
                f"cd_fields := {clist('(' + cs(f) + ', ' + t.coq() + ')' for f, t in self.fields)}; "
                f"cd_methods := {clist(m.coq() for m in self.methods)} |}}")


class Program:
    """pre: top-level statements written BEFORE the function definitions (an outer variable that a later parameter or
    local of the same name shadows); for the model and the specification they are the first statements of main"""
    def __init__(self, classes, funs, main, pre=()):
        self.classes, self.funs, self.main, self.pre = list(classes), list(funs), list(main), list(pre)

    def mamba(self):
        out = []
        for c in self.classes:
            out += c.mamba() + [""]
        for s in self.pre:
            out += s.mamba(0)
        if self.pre:
            out.append("")
        for f in self.funs:
            out += f.mamba(0) + [""]
        for s in self.main:
            out += s.mamba(0)
        return "\n".join(out) + "\n"

    def coq(self):
        return (f"{{| p_classes := {clist(c.coq() for c in self.classes)}; p_funs := {clist(f.coq() for f in self.funs)}; "
                f"p_main := {clist(s.coq() for s in self.pre + self.main)} |}}")


# ------------------------------------------------------------------------------------------------
# the declarative specification, computed here (independent of the Coq development)
# ------------------------------------------------------------------------------------------------
class NonConforming(Exception):
    pass


BUILTIN_PARENTS = {"Int": ["Float"], "Float": ["Complex"], "Complex": [], "Str": [], "Bool": [], "None": [],
                   "Exception": [], "Any": []}


def load_stub_sigs():
    """(class, method) -> ([(pname, [Ty]|None, has_default)], [Ty]|None) read from coq/gen/StubSigs.v's source of
    truth, i.e. re-parsed from the stub files by the translator module (so that the spec does not depend on Coq)."""
    import importlib.util
    from .common import VERIF, REPO
    spec = importlib.util.spec_from_file_location("stub_sigs_tr", os.path.join(VERIF, "translate", "stub_sigs.py"))
    m = importlib.util.module_from_spec(spec)
    spec.loader.exec_module(m)
    table, _, _ = m.stubs_tr.name_table(REPO)
    rows = {}
    for d in ("primitive", "std"):
        dd = os.path.join(REPO, m.RES, d)
        for f in sorted(os.listdir(dd)):
            p = os.path.join(dd, f)
            if os.path.isfile(p):
                rs, _ = m.rows_of(table, open(p).read().replace("\r\n", "\n"), f)
                for cls, name, params, ret in rs:
                    def conv(n):
                        return None if n is None else [Ty(t[1], t[0] == "true") for t in n]
                    rows.setdefault((cls, name), ([(pn, conv(t), dflt) for pn, t, dflt in params], conv(ret)))
    return rows


class Spec:
    """`conforms` of model/Typing.v (the rules of the repaired checker), as a recursive function."""

    def __init__(self, prog, stub_sigs):
        self.p = prog
        self.parents = dict(BUILTIN_PARENTS)
        self.sigs = dict(stub_sigs)
        self.funs, self.fields = {}, {}
        for c in prog.classes:
            self.parents[c.name] = [c.parent[0]] if c.parent else []
            for m in c.methods:
                self.sigs[(c.name, m.name)] = ([("self", [Ty(c.name)], False)] +
                                               [(p.name, [p.ty], p.default is not None) for p in m.params],
                                               [m.ret] if m.ret else None)
            for f, t in c.fields:
                self.fields[(c.name, f)] = t
        # find_fun: functions first, then user constructors, then built-in constructors
        for (cls, name), (params, ret) in stub_sigs.items():
            if name == "__init__":
                self.funs[cls] = (params[1:], [Ty(cls)])
        for c in reversed(prog.classes):
            self.funs[c.name] = ([(f, [t], False) for f, t in c.fields], [Ty(c.name)])
        for f in reversed(prog.funs):
            self.funs[f.name] = ([(p.name, [p.ty], p.default is not None) for p in f.params], [f.ret] if f.ret else None)

    # -- subtyping: Name::is_superset_of on the non-generic universe (C20) --------------------------
    def anc(self, a, c, fuel=50):
        if a == c:
            return True
        if fuel == 0 or c not in self.parents:
            return False
        return any(self.anc(a, p, fuel - 1) for p in self.parents[c])

    def tsup(self, s, o):
        if s.c not in self.parents or o.c not in self.parents:
            return False
        if s.n and o.c == "None":
            return True
        if not (s.n or not o.n):
            return False
        return s.c == "Any" or self.anc(s.c, o.c)

    def sub(self, T, t):
        return any(self.tsup(s, t) for s in T)

    def req(self, cond, why):
        if not cond:
            raise NonConforming(why)

    def find_method(self, c, m, fuel=50):
        if (c, m) in self.sigs:
            return self.sigs[(c, m)]
        if fuel == 0:
            return None
        for p in self.parents.get(c, []):
            r = self.find_method(p, m, fuel - 1)
            if r:
                return r
        return None

    def find_field(self, c, f, fuel=50):
        if (c, f) in self.fields:
            return self.fields[(c, f)]
        if fuel == 0:
            return None
        for p in self.parents.get(c, []):
            r = self.find_field(p, f, fuel - 1)
            if r:
                return r
        return None

    def args_ok(self, params, ts, what):
        i = 0
        for i, (pn, T, dflt) in enumerate(params):
            if i < len(ts):
                self.req(T is not None, f"{what}: parameter {pn} has no type")
                self.req(self.sub(T, ts[i]), f"{what}: argument {i} of type {ts[i]} is not a {T}")
            else:
                self.req(dflt, f"{what}: no argument for {pn}")
        self.req(len(ts) <= len(params), f"{what}: too many arguments")

    @staticmethod
    def single(ret):
        return ret[0] if ret and len(ret) == 1 else UNIT

    def meth(self, recv, m, ts):
        sg = self.find_method(recv.c, m)
        self.req(sg is not None, f"{recv.c} does not define {m}")
        self.args_ok(sg[0], [recv] + ts, f"{recv.c}.{m}")
        return self.single(sg[1])

    def join(self, a, b):
        if a.c == "None":
            return b if b.c == "None" else b.opt()
        if b.c == "None":
            return a.opt()
        n = a.n or b.n
        if self.tsup(Ty(a.c), Ty(b.c)):
            return Ty(a.c, n)
        if self.tsup(Ty(b.c), Ty(a.c)):
            return Ty(b.c, n)
        return None

    def ty(self, env, e):
        if isinstance(e, EInt): return INT
        if isinstance(e, EFloat): return FLOAT
        if isinstance(e, EStr): return STR
        if isinstance(e, EBool): return BOOL
        if isinstance(e, ENone): return NONE
        if isinstance(e, EVar):
            self.req(e.x in env, f"undefined {e.x}")
            return env[e.x][0]
        if isinstance(e, EOp):
            tl, tr = self.ty(env, e.l), self.ty(env, e.r)
            return self.meth(tl, OPS[e.op], [tr])
        if isinstance(e, ENot):
            self.meth(self.ty(env, e.e), "__bool__", [])
            return BOOL
        if isinstance(e, EBoolOp):
            tl, tr = self.ty(env, e.l), self.ty(env, e.r)
            self.meth(tl, "__bool__", []); self.meth(tr, "__bool__", [])
            return BOOL
        if isinstance(e, ECall):
            self.req(e.f in self.funs, f"undefined function {e.f}")
            ts = [self.ty(env, a) for a in e.args]
            self.args_ok(self.funs[e.f][0], ts, e.f)
            return self.single(self.funs[e.f][1])
        if isinstance(e, EMeth):
            tb = self.ty(env, e.o)
            ts = [self.ty(env, a) for a in e.args]
            return self.meth(tb, e.m, ts)
        if isinstance(e, EField):
            tb = self.ty(env, e.o)
            self.req(not tb.n and tb.c != "None", f"field access on {tb}")
            ft = self.find_field(tb.c, e.f)
            self.req(ft is not None, f"{tb.c} has no field {e.f}")
            return ft
        if isinstance(e, EQuest):
            tx, td = self.ty(env, e.x), self.ty(env, e.d)
            self.req(self.sub([tx], NONE), f"left of ? is {tx}")
            j = self.join(tx.strip(), td)
            self.req(j is not None, "alternatives of ? unrelated")
            return j
        if isinstance(e, EIf):
            self.meth(self.ty(env, e.c), "__bool__", [])
            j = self.join(self.ty(env, e.t), self.ty(env, e.e))
            self.req(j is not None, "branches unrelated")
            return j
        if isinstance(e, EFmt):
            for x in e.exprs():
                self.meth(self.ty(env, x), "__str__", [])
            return STR
        raise NonConforming("unknown expression")

    def block(self, R, env, b):
        env = dict(env)
        for s in b:
            self.stmt(R, env, s)
        return env

    def stmt(self, R, env, s):
        if isinstance(s, SDef):
            t = self.ty(env, s.e)
            if s.ann:
                self.req(self.sub([s.ann], t), f"initialiser {t} of {s.x}: {s.ann}")
                env[s.x] = (s.ann, s.mut)
            else:
                env[s.x] = (t, s.mut)
        elif isinstance(s, SAug):
            self.stmt(R, env, s.desugar())
        elif isinstance(s, SAssign):
            self.req(s.x in env and env[s.x][1], f"cannot assign {s.x}")
            t = self.ty(env, s.e)
            self.req(self.sub([env[s.x][0]], t), f"new value {t} of {s.x}: {env[s.x][0]}")
        elif isinstance(s, SSetField):
            tb = self.ty(env, s.o)
            self.req(not tb.n and tb.c != "None", f"field assignment on {tb}")
            ft = self.find_field(tb.c, s.f)
            self.req(ft is not None, "no such field")
            t = self.ty(env, s.e)
            self.req(self.sub([ft], t), f"new value {t} of field {s.f}: {ft}")
        elif isinstance(s, SExpr):
            self.ty(env, s.e)
        elif isinstance(s, SPrint):
            self.meth(self.ty(env, s.e), "__str__", [])
        elif isinstance(s, SIf):
            self.meth(self.ty(env, s.c), "__bool__", [])
            self.block(R, env, s.t); self.block(R, env, s.e)
        elif isinstance(s, SWhile):
            self.meth(self.ty(env, s.c), "__bool__", [])
            self.block(R, env, s.b)
        elif isinstance(s, SFor):
            for b in (s.lo, s.hi):
                t = self.ty(env, b)
                self.req(self.sub([INT], t), f"range bound {t}")
            inner = dict(env); inner[s.x] = (INT, False)
            self.block(R, inner, s.b)
        elif isinstance(s, SMatch):
            self.ty(env, s.e)
            for _, b in s.arms:
                self.block(R, env, b)
        elif isinstance(s, SHandle):
            t = self.ty(env, s.call)
            target = t
            if s.bd and s.bd[2]:
                self.req(self.sub([s.bd[2]], t), f"initialiser {t} of {s.bd[0]}: {s.bd[2]}")
                target = s.bd[2]
            for a in s.arms:
                inner = dict(env); inner[a.var] = (Ty(a.exc), False)
                e1 = self.block(R, inner, a.body)
                if a.val is not None:
                    tv = self.ty(e1, a.val)
                    self.req(self.sub([target], tv), f"handle arm value {tv} for {target}")
                else:
                    self.req(s.bd is None, "handle arm without value")
            if s.bd:
                env[s.bd[0]] = (target, s.bd[1])
        elif isinstance(s, SReturn):
            self.req(R is not None, "return without return type")
            t = self.ty(env, s.e)
            self.req(self.sub([R], t), f"returned {t} for {R}")
        elif isinstance(s, SRaise):
            self.ty(env, ECall(s.exc, s.args))
        else:
            raise NonConforming("unknown statement")

    @staticmethod
    def returns(b):
        def rs(s):
            if isinstance(s, (SReturn, SRaise)):
                return True
            if isinstance(s, SIf):
                return any(rs(x) for x in s.t) and any(rs(x) for x in s.e)
            return False
        return any(rs(s) for s in b)

    def fun(self, self_ty, f):
        env = {}
        if self_ty:
            env["self"] = (Ty(self_ty), False)
        for p in f.params:
            if p.default is not None:
                t = self.ty({}, p.default)
                self.req(self.sub([p.ty], t), f"default {t} of {p.name}: {p.ty}")
        for p in f.params:
            env[p.name] = (p.ty, False)
        e1 = self.block(f.ret, env, f.body)
        if f.ret and f.result is not None:
            t = self.ty(e1, f.result)
            self.req(self.sub([f.ret], t), f"result {t} of {f.name} -> {f.ret}")
        elif f.ret:
            self.req(self.returns(f.body), f"{f.name} can fall off its end")
        elif f.result is not None:
            self.ty(e1, f.result)

    def conforms(self):
        try:
            for c in self.p.classes:
                for m in c.methods:
                    self.fun(c.name, m)
                if c.parent:
                    self.req(c.parent[0] in self.funs, "unknown parent")
                    env = {f: (t, False) for f, t in c.fields}
                    ts = [self.ty(env, a) for a in c.parent[1]]
                    self.args_ok(self.funs[c.parent[0]][0], ts, "parent constructor")
            for f in self.p.funs:
                self.fun(None, f)
            self.block(None, {}, self.p.pre + self.p.main)
            return True, ""
        except NonConforming as e:
            return False, str(e)


# ------------------------------------------------------------------------------------------------
# generator of conforming programs; every typed use is recorded as a mutation site
# ------------------------------------------------------------------------------------------------
class Site:
    """A position that consumes a typed value.  `holder`/`key` locate the expression (getattr or index)."""
    def __init__(self, kind, pos, expected, holder, key, scope, nested=False, extra=None):
        self.kind, self.pos, self.expected = kind, pos, expected
        self.holder, self.key, self.scope, self.nested, self.extra = holder, key, scope, nested, extra

    def get(self):
        return self.holder[self.key] if isinstance(self.key, int) else getattr(self.holder, self.key)

    def put(self, e):
        if isinstance(self.key, int):
            self.holder[self.key] = e
        else:
            setattr(self.holder, self.key, e)

    def position(self):
        return self.pos + ("/nested-arg" if self.nested else "")


class Gen:
    """Conforming programs of the fragment the implementation accepts (found empirically, see c05.py's notes)."""

    def __init__(self, rng, profile="mixed"):
        self.r, self.profile = rng, profile
        self.n = 0
        self.sites = []
        self.classes, self.funs, self.excs = [], [], []
        self.cinfo = {}        # class -> dict(fields=[(f,Ty)], methods=[(name, [Param], ret)], parent)
        self.finfo = []        # (name, [Param], ret, raises)
        self.nullable_p = 0.35 if profile == "null" else 0.15
        self.field_mode = {}
        self.results = {}
        self.arm_base = None

    def fresh(self, p):
        self.n += 1
        return f"{p}{self.n}"

    # ---- types -----------------------------------------------------------------------------------
    def core_ty(self):
        return self.r.choice([INT, INT, STR, BOOL, FLOAT])

    def any_ty(self, allow_class=True):
        r = self.r.random()
        if allow_class and self.cinfo and r < 0.2:
            return Ty(self.r.choice(list(self.cinfo)))
        return self.core_ty()

    def maybe_null(self, t):
        return t.opt() if self.r.random() < self.nullable_p else t

    def is_sub(self, T, t):
        """t assignable to T, on the generator's own view of the hierarchy"""
        if t.c == "None":
            return T.n or T.c == "None"
        if t.n and not T.n:
            return False
        c = t.c
        chain = {"Int": ["Int", "Float", "Complex"], "Float": ["Float", "Complex"]}
        if c in chain:
            return T.c in chain[c]
        while c is not None:
            if c == T.c:
                return True
            c = self.cinfo.get(c, {}).get("parent")
        return False

    # ---- expressions -----------------------------------------------------------------------------
    def lit(self, t):
        r = self.r
        if t.c == "Int": return EInt(r.choice([0, 1, 2, 3, 5, 7, 10]))
        if t.c == "Float": return EFloat(r.choice(["0.5", "1.5", "2.25", "10.0"]))
        if t.c == "Str": return EStr(r.choice(["a", "bc", "x y", "mamba"]))
        if t.c == "Bool": return EBool(r.random() < 0.5)
        return None

    def vars_of(self, env, pred):
        return [x for x, (t, m) in env.items() if pred(t)]

    def expr(self, T, env, depth, scope, pos, typed_site=False, nested=False):
        """an expression whose type is assignable to T.  A field read is only offered at its own type: the
        implementation refuses `x: Float := o.int_field` in several positions (finding)."""
        for _ in range(6):
            mark = len(self.sites)
            e = self.expr1(T, env, depth, scope, pos, typed_site, nested)
            if not isinstance(e, EField) or self.field_type_of(env, e) == T:
                return e
            del self.sites[mark:]
        return self.expr1(T, env, 0, scope, pos, False, nested)

    def field_type_of(self, env, e):
        if isinstance(e.o, EVar) and e.o.x in env:
            for f, ft in self.fields_of(env[e.o.x][0].c):
                if f == e.f:
                    return ft
        return None

    def expr1(self, T, env, depth, scope, pos, typed_site=False, nested=False):
        r = self.r
        if T.n:
            k = r.random()
            if k < 0.3:
                return ENone()
            nv = self.vars_of(env, lambda t: t == T)
            if nv and k < 0.6:
                return EVar(r.choice(nv))
            return self.expr1(T.strip(), env, depth, scope, pos, typed_site, nested)
        # `x ? d` only where a declared type is waiting for it (elsewhere the implementation cannot infer it)
        if typed_site and depth > 0 and r.random() < (0.3 if self.profile == "null" else 0.08):
            nv = self.vars_of(env, lambda t: t == T.opt())
            if nv:
                e = EQuest(EVar(r.choice(nv)), self.exact(T, env, depth - 1, scope, pos, nested))
                self.sites.append(Site("quest-default", pos, T, e, "d", scope, nested=nested))
                return e
        if T.c == "Float" and r.random() < 0.35:
            return self.exact(INT, env, depth, scope, pos, nested)
        if T.c in self.cinfo:
            subs = [c for c in self.cinfo if self.is_sub(T, Ty(c))]
            c = r.choice(subs)
            return self.exact(Ty(c), env, depth, scope, pos, nested)
        return self.exact(T, env, depth, scope, pos, nested)

    def call_args(self, params, env, depth, scope, pos, holder_call, kind="arg"):
        """arguments for formals; optional trailing defaults are sometimes left out"""
        r = self.r
        n = len(params)
        while n > 0 and params[n - 1].default is not None and r.random() < 0.4:
            n -= 1
        args = []
        for p in params[:n]:
            ty = p.ty
            if kind == "funarg" and ty.n:
                ty = ty.strip()      # None / T? for a T? formal of a function is refused by the implementation (finding)
            args.append(self.expr(ty, env, depth - 1, scope, pos, typed_site=True, nested=True))
        holder_call.args = args
        for i, p in enumerate(params[:n]):
            self.sites.append(Site(kind, pos, p.ty, holder_call.args, i, scope, nested=True))
        self.sites.append(Site("arity", pos, None, holder_call, "args", scope, extra=params))
        return args

    def exact(self, T, env, depth, scope, pos, nested=False):
        """an expression of exactly the (non-nullable) class T.c"""
        r = self.r
        vs = self.vars_of(env, lambda t: t == T)
        choices = ["lit"] if self.lit(T) is not None else []
        if vs:
            choices += ["var"] * 3
        if depth > 0:
            fs = [f for f in self.finfo if f[2] == T and not f[3]]
            if fs: choices += ["call"] * 2
            ms = [(x, c, m) for x, (t, _) in env.items() if not t.n and t.c in self.cinfo
                  for c, m in self.methods_of(t.c) if m[2] == T]
            if ms: choices += ["meth"] * 2
            flds = [(x, f) for x, (t, _) in env.items() if not t.n and t.c in self.cinfo
                    for f, ft in self.fields_of(t.c) if ft == T]
            if flds: choices += ["field"] * 2
            if T.c in ("Int", "Float", "Str"): choices += ["op"] * 3
            if T.c == "Bool": choices += ["cmp"] * 3 + ["bool", "not"]
            if T.c == "Str": choices += ["fmt"]
            if T.c in self.cinfo: choices += ["new"] * 2
        if T.c in self.cinfo and not choices:
            choices = ["new"]
        k = r.choice(choices)
        if k == "lit": return self.lit(T)
        if k == "var": return EVar(r.choice(vs))
        if k == "call":
            f = r.choice(fs)
            e = ECall(f[0], [])
            self.call_args(f[1], env, depth, scope, pos, e, "funarg")
            return e
        if k == "meth":
            x, c, m = r.choice(ms)
            e = EMeth(EVar(x), m[0], [])
            self.call_args(m[1], env, depth, scope, pos, e, "arg")
            self.sites.append(Site("recv", pos, Ty(c), e, "o", scope, nested=nested, extra=m[0]))
            return e
        if k == "field":
            x, f = r.choice(flds)
            e = EField(EVar(x), f)
            self.sites.append(Site("field-recv", pos, Ty(env[x][0].c), e, "o", scope, nested=nested))
            return e
        if k == "new":
            e = ECall(T.c, [])
            params = [Param(f, t) for f, t in self.all_ctor_fields(T.c)]
            self.call_args(params, env, max(depth, 1), scope, pos, e, "funarg")
            return e
        if k == "op":
            if T.c == "Str":
                e = EOp("+", self.exact(STR, env, depth - 1, scope, pos, nested), self.exact(STR, env, depth - 1, scope, pos, nested))
                self.sites.append(Site("operand", pos, STR, e, "r", scope, nested=nested))
                self.sites.append(Site("op-recv", pos, STR, e, "l", scope, nested=nested))
                return e
            op = r.choice(["+", "-", "*"])
            l = self.exact(T, env, depth - 1, scope, pos, nested)
            if T.c == "Float":
                rr = self.exact(r.choice([INT, FLOAT]), env, depth - 1, scope, pos, nested)
            else:
                rr = self.exact(INT, env, depth - 1, scope, pos, nested)
            e = EOp(op, l, rr)
            self.sites.append(Site("operand", pos, T, e, "r", scope, nested=nested))
            self.sites.append(Site("op-recv", pos, T, e, "l", scope, nested=nested))
            return e
        if k == "cmp":
            which = r.random()
            if which < 0.7:
                op = r.choice(["<", ">", "<=", ">=", "="])
                e = EOp(op, self.exact(INT, env, depth - 1, scope, pos, nested), self.exact(INT, env, depth - 1, scope, pos, nested))
                self.sites.append(Site("operand", pos, INT, e, "r", scope, nested=nested))
            elif which < 0.85:
                e = EOp(r.choice(["=", "!="]), self.exact(STR, env, depth - 1, scope, pos, nested), self.exact(STR, env, depth - 1, scope, pos, nested))
                self.sites.append(Site("operand", pos, STR, e, "r", scope, nested=nested))
            else:
                e = EOp("<", self.exact(FLOAT, env, depth - 1, scope, pos, nested), self.exact(r.choice([INT, FLOAT]), env, depth - 1, scope, pos, nested))
                self.sites.append(Site("operand", pos, FLOAT, e, "r", scope, nested=nested))
            return e
        if k == "bool":
            e = EBoolOp(r.choice(["and", "or"]), self.exact(BOOL, env, depth - 1, scope, pos, nested), self.exact(BOOL, env, depth - 1, scope, pos, nested))
            self.sites.append(Site("bool-recv", pos, BOOL, e, "l", scope, nested=nested))
            return e
        if k == "not":
            e = ENot(self.exact(BOOL, env, depth - 1, scope, pos, nested))
            self.sites.append(Site("bool-recv", pos, BOOL, e, "e", scope, nested=nested))
            return e
        if k == "fmt":
            t = r.choice([INT, INT, BOOL, STR])
            if t == STR:     # no string literal inside the braces of an f-string
                svars = self.vars_of(env, lambda u: u == STR)
                if not svars:
                    t = INT
                else:
                    inner = EVar(r.choice(svars))
            if t != STR:
                inner = self.exact(t, env, 0, scope, pos, nested)
            e = EFmt([r.choice(["v=", "", "x "]), inner, r.choice(["", "!"])])
            self.sites.append(Site("str-recv", pos, t, e.parts, 1, scope, nested=nested))
            return e
        raise AssertionError(k)

    def methods_of(self, c):
        out = []
        while c is not None:
            out += [(c, m) for m in self.cinfo[c]["methods"]]
            c = self.cinfo[c]["parent"]
        return out

    def fields_of(self, c):
        out = []
        while c is not None:
            out += self.cinfo[c]["fields"]
            c = self.cinfo[c]["parent"]
        return out

    def all_ctor_fields(self, c):
        return self.cinfo[c]["fields"]

    # ---- statements ------------------------------------------------------------------------------
    ARM_MARKS = ("branch", "match-arm", "handle-arm")

    @staticmethod
    def in_arm(pos):
        return any(m in pos for m in Gen.ARM_MARKS)

    @staticmethod
    def branches(stmts):
        """does the statement list contain, at any depth, a statement that opens constraint sets (if with else, match,
        handle)?"""
        for s in stmts:
            if isinstance(s, (SMatch, SHandle)) or (isinstance(s, SIf) and s.e):
                return True
            if isinstance(s, SDef) and isinstance(s.e, EIf):      # an if-expression opens constraint sets as well
                return True
            if isinstance(s, SIf) and Gen.branches(s.t):
                return True
            if isinstance(s, (SWhile, SFor)) and Gen.branches(s.b):
                return True
        return False

    def block(self, env, depth, n, scope, pos, R=None, in_fun=False):
        """Inside a branch / match arm / handle arm, a variable defined in the arm cannot be used after a nested
        if-else / match / handle of the same arm: ConstrBuilder::reset_branches makes every later constraint of the arm
        go to ALL constraint sets, also those that never saw the definition (`Cannot infer type`, finding D90); such
        variables are withdrawn from the environment the generator draws from."""
        env = dict(env)
        out = []
        opened = False
        if self.in_arm(pos) and getattr(self, "arm_base", None) is None:
            self.arm_base, opened = set(env), True
        try:
            for _ in range(n):
                new = self.stmt(env, depth, scope, pos, R, in_fun)
                out += new
                if getattr(self, "arm_base", None) is not None and self.branches(new):
                    for k in [k for k in env if k not in self.arm_base]:
                        del env[k]
        finally:
            if opened:
                self.arm_base = None
        return out, env

    def stmt(self, env, depth, scope, pos, R, in_fun):
        r = self.r
        kinds = ["def"] * 4 + ["print"] * 2
        if any(m and not t.n for t, m in env.values()): kinds += ["assign"] * 2
        if any(t.n and m for t, m in env.values()): kinds += ["assign-null"]
        if any(m and not t.n and t.c in ("Int", "Float", "Str") for t, m in env.values()): kinds += ["aug"] * 2
        if any((not t.n) and t.c in self.cinfo for t, _ in env.values()): kinds += ["setfield", "callstmt"]
        if self.finfo: kinds += ["callstmt"]
        if depth > 0:
            kinds += ["if", "if", "while", "for", "match"]
            if any(f[3] for f in self.finfo) and "handle-arm" not in pos: kinds += ["handle"] * 2
            if R is not None: kinds += ["ifret"]
        k = r.choice(kinds)
        if k == "def":
            T = self.maybe_null(self.any_ty())
            x = self.fresh("v")
            ann = r.random() < (0.75 if T.n else 0.55)
            if T.n or ann:
                if not T.n and r.random() < 0.12 and depth > 0:
                    a, b = self.exact(T, env, 1, scope, pos), self.exact(T, env, 1, scope, pos)
                    e = EIf(self.exact(BOOL, env, 1, scope, pos), a, b)
                else:
                    e = self.expr(T, env, 2, scope, pos, typed_site=True)
                s = SDef(x, r.random() < 0.7, T, e)
                self.sites.append(Site("init", pos, T, s, "e", scope))
            else:
                s = SDef(x, r.random() < 0.7, None, self.exact(T, env, 2, scope, pos))
            env[x] = (T, s.mut)
            return [s]
        if k == "print":
            t = r.choice([INT, STR, BOOL, FLOAT])
            s = SPrint(self.exact(t, env, 2, scope, pos))
            self.sites.append(Site("str-recv", pos, t, s, "e", scope))
            return [s]
        if k == "aug":
            # compound assignment: `x op= e` is `x := x op e` (reassign_op), the result of the operator must fit x
            xs = [x for x, (t, m) in env.items() if m and not t.n and t.c in ("Int", "Float", "Str")]
            x = r.choice(xs)
            T = env[x][0]
            op = {"Int": ["+", "-", "*"], "Float": ["+", "-", "*", "/"], "Str": ["+"]}[T.c]
            ot = r.choice([INT, FLOAT]) if T.c == "Float" else T
            s = SAug(EVar(x), r.choice(op), self.exact(ot, env, 1, scope, pos))
            self.sites.append(Site("aug-operand", pos, T, s, "e", scope))
            self.sites.append(Site("aug-op", pos, T, s, "op", scope))
            return [s]
        if k in ("assign", "assign-null"):
            # the new value goes through a fresh variable of exactly the declared type: the implementation unifies the
            # assigned EXPRESSION (by its text, file-wide) with the variable, so `x := 3` for x: Float or x: Int?
            # makes every other `3` in the file a Float / Int? (finding)
            xs = [x for x, (t, m) in env.items() if m and (t.n == (k == "assign-null"))]
            x = r.choice(xs)
            T = env[x][0]
            tv = self.fresh("t")
            d = SDef(tv, False, T, self.expr(T, env, 2, scope, pos, typed_site=True))
            self.sites.append(Site("init", pos, T, d, "e", scope))
            s = SAssign(x, EVar(tv))
            self.sites.append(Site("assign", pos, T, s, "e", scope))
            env[tv] = (T, False)
            return [d, s]
        if k == "setfield":
            objs = [(x, f, ft) for x, (t, m) in env.items() if not t.n and t.c in self.cinfo and (m or x == "self")
                    for f, ft in self.fields_of(t.c)]
            if not objs:
                return self.stmt(env, 0, scope, pos, R, in_fun)
            x, f, ft = r.choice(objs)
            tv = self.fresh("t")
            d = SDef(tv, False, ft, self.expr(ft, env, 1, scope, pos, typed_site=True))
            self.sites.append(Site("init", pos, ft, d, "e", scope))
            s = SSetField(EVar(x), f, EVar(tv))
            self.sites.append(Site("setfield", pos, ft, s, "e", scope))
            self.sites.append(Site("field-recv", pos, Ty(env[x][0].c), s, "o", scope))
            env[tv] = (ft, False)
            return [d, s]
        if k == "callstmt":
            # a call whose value is dropped is refused when it ends a branch / arm (finding): procedures only
            cands = [("f", f) for f in self.finfo if not f[3] and f[2] is None]
            cands += [("m", (x, c, m)) for x, (t, _) in env.items() if not t.n and t.c in self.cinfo
                      for c, m in self.methods_of(t.c) if m[2] is None]
            if not cands:
                return self.stmt(env, 0, scope, pos, R, in_fun)
            which, f = r.choice(cands)
            if which == "f":
                e = ECall(f[0], [])
                self.call_args(f[1], env, 2, scope, pos, e, "funarg")
            else:
                x, c, m = f
                e = EMeth(EVar(x), m[0], [])
                self.call_args(m[1], env, 2, scope, pos, e, "arg")
                self.sites.append(Site("recv", pos, Ty(c), e, "o", scope, extra=m[0]))
            return [SExpr(e)]
        if k == "if":
            c = self.exact(BOOL, env, 2, scope, pos)
            t, _ = self.block(env, depth - 1, r.randint(1, 2), scope, pos + "/branch", R, in_fun)
            e, _ = self.block(env, depth - 1, r.randint(0, 2), scope, pos + "/branch", R, in_fun)
            s = SIf(c, t, e)
            self.sites.append(Site("bool-recv", pos, BOOL, s, "c", scope))
            return [s]
        if k == "ifret":
            c = self.exact(BOOL, env, 1, scope, pos)
            ret = SReturn(self.expr(R, env, 1, scope, pos + "/branch", typed_site=True))
            self.sites.append(Site("ret", pos + "/branch", R, ret, "e", scope))
            return [SIf(c, [ret], [])]
        if k == "while":
            w = self.fresh("w")
            d = SDef(w, True, None, EInt(0))
            inner = dict(env); inner[w] = (INT, False)   # the counter is not offered for reassignment
            # inside an arm the counter is incremented after the body: the body must not open constraint sets (D90)
            body, _ = self.block(inner, 0 if self.in_arm(pos) else depth - 1, r.randint(1, 2), scope, pos + "/loop", R, in_fun)
            body.append(SAssign(w, EOp("+", EVar(w), EInt(1))))
            env[w] = (INT, False)
            return [d, SWhile(EOp("<", EVar(w), EInt(r.randint(1, 3))), body)]
        if k == "for":
            i = self.fresh("i")
            inner = dict(env); inner[i] = (INT, False)
            body, _ = self.block(inner, depth - 1, r.randint(1, 2), scope, pos + "/loop", R, in_fun)
            lo = EInt(r.randint(0, 1))
            ivars = self.vars_of(env, lambda t: t == INT)
            hi = EVar(r.choice(ivars)) if ivars and r.random() < 0.4 else EInt(r.randint(2, 4))
            s = SFor(i, lo, hi, body)
            self.sites.append(Site("range", pos, INT, s, "hi", scope))
            return [s]
        if k == "match":
            sc = self.exact(INT, env, 1, scope, pos)
            arms = []
            for p in r.sample([0, 1, 2, 3, 5], r.randint(1, 2)):
                b, _ = self.block(env, depth - 1, 1, scope, pos + "/match-arm", R, in_fun)
                arms.append((p, b))
            b, _ = self.block(env, depth - 1, 1, scope, pos + "/match-arm", R, in_fun)
            arms.append((None, b))
            return [SMatch(sc, arms)]
        if k == "handle":
            f = r.choice([f for f in self.finfo if f[3]])
            call = ECall(f[0], [])
            self.call_args(f[1], env, 2, scope, pos, call, "funarg")
            arms = []
            bind = r.random() < 0.6
            x = self.fresh("h")
            ann = f[2]
            for exc in f[3]:
                ev = self.fresh("err")
                body, e1 = self.block(env, depth - 1, r.randint(1, 2), scope, pos + "/handle-arm", R, in_fun)
                val = None
                if bind:
                    val = self.expr(f[2], e1, 1, scope, pos + "/handle-arm")
                arm = HArm(exc, ev, body, val)
                if bind:
                    self.sites.append(Site("harm-val", pos + "/handle-arm", ann or f[2], arm, "val", scope))
                arms.append(arm)
            if bind:
                s = SHandle((x, True, ann), call, arms)   # (the bound variable is not used afterwards: "cannot infer")
                # a handle definition that ends a branch / arm is given the arm's type and refused (finding)
                return [s, SPrint(EStr("h"))]
            return [SHandle(None, call, arms)]
        raise AssertionError(k)

    # ---- definitions -----------------------------------------------------------------------------
    def gen_params(self, scope_name, allow_class=True):
        r = self.r
        ps = []
        n = r.randint(0, 3)
        seen_default = False
        for _ in range(n):
            t = self.maybe_null(self.any_ty(allow_class))
            d = None
            if (seen_default or r.random() < 0.25) and t.c in ("Int", "Str", "Bool", "Float"):
                d = ENone() if (t.n and r.random() < 0.5) else self.lit(t.strip())
                seen_default = True
            elif seen_default:
                break
            ps.append(Param(self.fresh("p"), t, d))
        return ps

    def gen_fun(self, self_cls=None, raises=()):
        r = self.r
        name = self.fresh("m" if self_cls else "f")
        params = self.gen_params(name)
        sh = getattr(self, "shadow", None)
        if sh and not self_cls and not any(p.name == sh[0] for f in self.funs for p in f.params):
            params.insert(0, Param(sh[0], sh[1]))      # same name as the outer nullable variable, non-nullable type
        ret = None if r.random() < 0.15 and not raises else self.maybe_null(self.any_ty())
        f = FDef(name, params, ret, [], None, raises, ret_stmt=True)
        env = {p.name: (p.ty, False) for p in params}
        if self_cls:
            env["self"] = (Ty(self_cls), False)
        for p in params:
            if p.default is not None:
                self.sites.append(Site("default", "method" if self_cls else "fun", p.ty, p, "default", f))
        pos = "method" if self_cls else "fun"
        body, e1 = self.block(env, 2, r.randint(0, 3) if not getattr(self, "small", False) else r.randint(0, 2), f, pos, ret, True)
        if raises:
            exc = raises[0]
            ivars = [p.name for p in params if p.ty == INT]
            cond = EOp(">", EVar(ivars[0]), EInt(r.randint(2, 6))) if ivars else EBool(False)
            body.append(SIf(cond, [SRaise(exc, [EStr("big")])], []))
        f.body = body
        if ret is not None and not raises and r.random() < 0.4:
            self.trailing_result(f, e1, pos, ret)
        elif ret is not None:
            for attempt in range(12):
                mark = len(self.sites)
                f.result = self.expr(ret, e1, 2 if attempt < 8 else 3, f, pos, typed_site=True)
                txt = f.result.mamba()
                # the same `return e` with another declared type elsewhere is refused (finding D69); `return self` in
                # two classes is the most frequent instance, so a bare `self` is never the result
                if txt != "self" and self.results.get(txt, ret) == ret:
                    self.results[txt] = ret
                    break
                del self.sites[mark:]
            else:
                f.result = self.exact(ret.strip(), e1, 0, f, pos) if ret.c not in self.cinfo else None
                if f.result is None:
                    f.result = ECall(ret.c, [])
                    self.call_args([Param(n, t) for n, t in self.all_ctor_fields(ret.c)], e1, 2, f, pos, f.result, "funarg")
                self.results.setdefault(f.result.mamba(), ret)
            self.sites.append(Site("ret", pos, ret, f, "result", f))
        return f

    def trailing_result(self, f, env, pos, ret):
        """an explicit `return` on some path (inside an if or a loop) and an IMPLICITLY returned trailing expression.
        The trailing expression is one whose text is unique and whose type is exactly the declared one - a parameter, a
        local variable, a call - so that the `fun body type` constraint, which precedes the body (D69), retypes
        nothing else."""
        r = self.r
        env = dict(env)
        early = SReturn(self.expr(ret, env, 1, f, pos + "/branch", typed_site=True))
        self.sites.append(Site("ret", pos + "/branch", ret, early, "e", f))
        guard = SIf(self.exact(BOOL, env, 1, f, pos), [early], [])
        if r.random() < 0.35:
            i = self.fresh("i")
            f.body.append(SFor(i, EInt(0), EInt(r.randint(1, 2)), [guard]))
        else:
            f.body.append(guard)
        # a trailing parameter that shadows an outer variable is judged with the OUTER variable's type (finding D100)
        shn = (getattr(self, "shadow", None) or (None,))[0]
        cands = [EVar(x) for x, (t, _) in env.items() if t == ret and x != "self" and x != shn]
        for g in self.finfo:
            if g[2] == ret and not g[3] and r.random() < 0.5:
                e = ECall(g[0], [])
                self.call_args(g[1], env, 2, f, pos, e, "funarg")
                cands.append(e)
                break
        if cands:
            f.result = r.choice(cands)
        else:
            tv = self.fresh("r")
            d = SDef(tv, False, ret, self.expr(ret, env, 2, f, pos, typed_site=True))
            self.sites.append(Site("init", pos, ret, d, "e", f))
            f.body.append(d)
            f.result = EVar(tv)
        f.ret_stmt = False
        self.results.setdefault(f.result.mamba(), ret)
        self.sites.append(Site("trail", pos, ret, f, "result", f))

    def gen_class(self, parent=None):
        r = self.r
        name = "C" + self.fresh("k")
        nf = r.randint(1, 3) if not getattr(self, "small", False) else r.randint(1, 2)
        fields = [(self.fresh("a"), self.maybe_null(self.core_ty())) for _ in range(nf)]
        if self.cinfo and r.random() < 0.4:
            # a field of an earlier class: stores of a child / parent instance into it are mutation sites
            fields.append((self.fresh("a"), Ty(r.choice(list(self.cinfo)))))
        info = {"fields": list(fields), "methods": [], "parent": None}
        par = None
        if parent:
            # class D(def x: .., ..): B(x..)  -- the parent's fields are initialised from the first arguments
            pf = self.cinfo[parent]["fields"]
            own = [(self.fresh("a"), t) for _, t in pf]
            fields = own + fields
            par = (parent, [EVar(x) for x, _ in own])
            info = {"fields": list(fields), "methods": [], "parent": parent}
        self.cinfo[name] = info
        c = CDef(name, fields, [], par)
        for _ in range(r.randint(1, 2) if not getattr(self, "small", False) else 1):
            m = self.gen_fun(self_cls=name)
            c.methods.append(m)
            info["methods"].append((m.name, m.params, m.ret))
        self.classes.append(c)
        return c

    def program(self, size=4, small=True):
        """small: one or two classes with one method each, two functions (the implementation's checker is
        superlinear: 70-line programs take seconds in a debug build)"""
        r = self.r
        self.small = small
        if r.random() < 0.7:
            e = "E" + self.fresh("x")
            self.cinfo_exc = e
            self.excs.append(e)
            self.classes.append(CDef(e, [("msg", STR)], [], ("Exception", [EVar("msg")])))
        ncls = r.randint(1, 2) if not small else (2 if r.random() < 0.5 else 1)
        for i in range(ncls):
            base = None
            if i == 1 and r.random() < 0.6:
                cands = [c for c in self.cinfo if all(not t.n for _, t in self.cinfo[c]["fields"])]
                base = cands[0] if cands else None
            self.gen_class(base)
        self.shadow = None
        if self.profile == "null" and r.random() < 0.6:
            self.shadow = ("s" + self.fresh("x"), r.choice([INT, STR, FLOAT]))
        for _ in range(r.randint(2, 4) if not small else 2):
            raises = [self.excs[0]] if self.excs and r.random() < 0.4 else []
            f = self.gen_fun(raises=raises)
            if raises and f.ret is None:
                f.raises = []
                f.body = [s for s in f.body if not (isinstance(s, SIf) and s.t and isinstance(s.t[0], SRaise))]
            self.funs.append(f)
            self.finfo.append((f.name, f.params, f.ret, list(f.raises)))
        env0, pre, tail = {}, [], []
        sh = getattr(self, "shadow", None)
        if sh:
            # (H) outer `def sx: T? := None` BEFORE the functions, a parameter / arm-local of the same name and a
            # non-nullable type in between, and a use of the OUTER variable afterwards
            sx, T = sh
            pre = [SDef(sx, False, T.opt(), ENone() if r.random() < 0.7 else self.lit(T))]
            env0[sx] = (T.opt(), False)
        main, e1 = self.block(env0, 2, size, None, "top", None, False)
        if sh:
            if r.random() < 0.6:
                main.append(SIf(self.exact(BOOL, {}, 1, None, "top"),
                                [SDef(sx, False, T, self.lit(T)), SPrint(EVar(sx))], []))
            y = self.fresh("y")
            use = SDef(y, False, T, EQuest(EVar(sx), self.lit(T)))
            main.append(use)
            self.sites.append(Site("shadow-use", "top", T, use, "e", None, extra=sx))
        p = Program(self.classes, self.funs, main, pre)
        return p, self.sites


# ------------------------------------------------------------------------------------------------
# single-point mutants
# ------------------------------------------------------------------------------------------------
WRONG = {"Int": [EStr("zz"), EBool(True), EFloat("2.5")], "Float": [EStr("zz"), EBool(False)],
         "Str": [EInt(4), EBool(True)], "Bool": [EInt(1), EStr("t")], "Complex": [EStr("zz")]}


def scope_block(prog, site):
    """the statement list at whose start a helper definition is visible from the site"""
    return site.scope.body if site.scope is not None else prog.main


REL_SITES = ("arg", "funarg", "init", "assign", "setfield", "ret", "trail", "operand", "aug-operand")


def related(prog, T):
    """(strict supertype, strict subtype) of the non-nullable class of T in the program's hierarchy, None if there is none"""
    sup = {"Int": "Float", "Float": "Complex"}.get(T.c)
    sub = {"Float": "Int", "Complex": "Float"}.get(T.c)
    for c in prog.classes:
        if c.name == T.c and c.parent and c.parent[0] != "Exception":
            sup = c.parent[0]
        if c.parent and c.parent[0] == T.c:
            sub = c.name
    return sup, sub


def default_value(prog, c):
    """an expression of exactly class c (literals and constructor calls only)"""
    lit = {"Int": EInt(7), "Float": EFloat("2.5"), "Str": EStr("dv"), "Bool": EBool(True)}
    if c in lit:
        return copy.deepcopy(lit[c])
    if c == "Complex":
        return ECall("Complex", [EInt(1), EInt(2)])
    cd = [x for x in prog.classes if x.name == c][0]
    return ECall(c, [default_value(prog, t.c) for _, t in cd.fields])


def mutant_candidates(sites, kinds, prog=None):
    """[(site index, mutation kind)] applicable at each site"""
    out = []
    stores = {}
    for site in sites:
        if site.kind == "setfield":
            stores[site.holder.f] = stores.get(site.holder.f, 0) + 1
    for idx, site in enumerate(sites):
        T = site.expected
        cands = []
        if site.kind == "arity":
            params, call = site.extra, site.holder
            if "missing-arg" in kinds and call.args and params[len(call.args) - 1].default is None:
                cands.append("missing-arg")
            if "extra-arg" in kinds and len(call.args) == len(params):
                cands.append("extra-arg")
        elif site.kind == "recv":
            if "wrong-recv" in kinds: cands.append("wrong-recv")
            if "nullable" in kinds: cands.append("nullable")
        elif site.kind == "field-recv":
            if "nullable" in kinds: cands.append("nullable")
        elif site.kind in ("str-recv", "bool-recv", "op-recv"):
            if "nullable" in kinds: cands.append("nullable")
            if "nullable-subtype" in kinds and prog is not None and site.kind == "op-recv" and related(prog, T)[1]:
                cands.append("nullable-subtype")
            if site.kind == "op-recv" and "none" in kinds: cands.append("none")
        elif site.kind == "shadow-use":
            if "unwrap" in kinds: cands.append("unwrap")
        elif site.kind == "aug-op":
            # the RESULT of the operator must fit the target: `/=` on an Int is a Float, Str has no `-`
            if "aug-result" in kinds and T.c in ("Int", "Str"): cands.append("aug-result")
        elif site.kind == "default":
            if "wrong-type" in kinds and T.c in WRONG: cands.append("wrong-type")
            if "none" in kinds and not T.n: cands.append("none")
        else:   # arg funarg init assign setfield ret trail operand range harm-val quest-default
            if "wrong-type" in kinds: cands.append("wrong-type")
            if not T.n:
                if "none" in kinds: cands.append("none")
                if "nullable" in kinds: cands.append("nullable")
            if prog is not None and site.kind in REL_SITES:
                sup, sub = related(prog, T)
                if "supertype" in kinds and sup: cands.append("supertype")
                # a second value of another exact type for one field is refused (D68): only single-store fields
                if "subtype" in kinds and sub and not (site.kind == "setfield" and stores.get(site.holder.f, 0) > 1):
                    if site.kind not in ("operand", "aug-operand"):
                        cands.append("subtype")
                if "nullable-subtype" in kinds and sub and not T.n:
                    cands.append("nullable-subtype")
            if "inferred-wrong" in kinds and site.kind in ("arg", "funarg", "operand", "aug-operand"):
                cands.append("inferred-wrong")
                if site.kind not in ("operand", "aug-operand"):
                    if "supertype-field" in kinds and T.c == "Int": cands.append("supertype-field")
                    if "subtype-field" in kinds and T.c == "Float" and not (site.kind == "setfield" and stores.get(site.holder.f, 0) > 1):
                        cands.append("subtype-field")
        out += [(idx, mk) for mk in cands]
    return out


def apply_mutant(prog, sites, idx, mk, rng):
    """(description, mutated deep copy of prog)"""
    pc, sc = copy.deepcopy((prog, sites))
    s = sc[idx]
    T = s.expected
    desc = {"site": s.kind, "position": s.position(), "mutation": mk, "expected": T.mamba() if T is not None else "-"}
    if mk == "missing-arg":
        s.holder.args.pop()
    elif mk == "extra-arg":
        s.holder.args.append(EInt(9))
    elif mk == "wrong-type":
        e = copy.deepcopy(rng.choice(WRONG[T.c])) if T.c in WRONG else EInt(3)   # else: a user class is expected
        desc["got"] = type(e).__name__[1:]
        s.put(e)
    elif mk == "none":
        s.put(ENone()); desc["got"] = "None"
    elif mk == "nullable":
        tn = Ty(T.c, True)
        scope_block(pc, s).insert(0, SDef("nq", True, tn, ENone()))
        s.put(EVar("nq")); desc["got"] = tn.mamba()
    elif mk == "wrong-recv":
        scope_block(pc, s).insert(0, SDef("wr", False, STR, EStr("w")))
        s.put(EVar("wr")); desc["got"] = "Str"
    elif mk == "unwrap":
        # the outer variable is still nullable after an inner parameter / local of the same name and another type
        s.put(EVar(s.extra)); desc["got"] = T.mamba() + "?"
    elif mk == "inferred-wrong":
        # (G) the wrong type arrives through an INFERRED local: `def iw := "zz"` (no annotation) then `d.fetch(iw)`
        e = copy.deepcopy(rng.choice(WRONG[T.c])) if T.c in WRONG else EInt(3)
        scope_block(pc, s).insert(0, SDef("iw", False, None, e))
        s.put(EVar("iw")); desc["got"] = "inferred " + type(e).__name__[1:]
    elif mk == "aug-result":
        s.put("/" if T.c == "Int" else "-"); desc["got"] = "Float" if T.c == "Int" else "no such operator"
    elif mk == "nullable-subtype":
        # None / S? where a strict SUPERtype T of S is declared: `def a: Int? := None` / `def b: Float := a`
        sub = related(pc, T)[1]
        scope_block(pc, s).insert(0, SDef("nq", True, Ty(sub, True), ENone()))
        s.put(EVar("nq")); desc["got"] = sub + "?"
    elif mk in ("supertype", "subtype"):
        # a value of a strictly wider (must be refused) / strictly narrower (must be accepted) type, held by a fresh
        # variable declared at that type
        sup, sub = related(pc, T)
        c = sup if mk == "supertype" else sub
        scope_block(pc, s).insert(0, SDef("rv", False, Ty(c), default_value(pc, c)))
        s.put(EVar("rv")); desc["got"] = c
    elif mk in ("supertype-field", "subtype-field"):
        # the same through a field READ: class Hq(def hf: Float, def hi: Int); hq.hf where an Int is declared, hq.hi
        # where a Float is declared
        pc.classes.insert(0, CDef("Hq", [("hf", FLOAT), ("hi", INT)], []))
        scope_block(pc, s).insert(0, SDef("hq", False, None, ECall("Hq", [EFloat("2.5"), EInt(3)])))
        fld = "hf" if mk == "supertype-field" else "hi"
        s.put(EField(EVar("hq"), fld)); desc["got"] = "Hq." + fld
    return desc, pc


def mutants(prog, sites, kinds, rng, per_site=1):
    """every applicable single-point mutant (thorough tier)"""
    for idx, mk in mutant_candidates(sites, kinds, prog):
        yield apply_mutant(prog, sites, idx, mk, rng)


def stratum(site, mk):
    pos = site.position()
    ctx = [c for c in ("top", "fun", "method") if pos.startswith(c)][0]
    inner = [c for c in ("loop", "branch", "match-arm", "handle-arm", "nested-arg") if c in pos]
    return (mk, site.kind, ctx, inner[-1] if inner else "-")


def case_text(desc, cause):
    return (f"CAUSE:{cause} POSITION:{desc.get('position', '-')} MUTATION:{desc.get('mutation', 'none')}"
            f"@{desc.get('site', '-')} EXPECTED:{desc.get('expected', '-')} GOT:{desc.get('got', '-')}")


def normalise_diag(msg):
    """first line of the implementation's diagnostic with identifiers and literals abstracted: the CAUSE of an
    over-rejection"""
    first = msg.strip().splitlines()[0] if msg.strip() else ""
    first = re.sub(r"`[^`]*`", "`_`", first)
    first = re.sub(r"'[^']*'", "'_'", first)
    first = re.sub(r"\b[vwihpfmka]\d+\b|\bC[k]\d+\b|\bEx\d+\b|\berr\d+\b", "_", first)
    first = re.sub(r"@\d+", "@", first)
    first = re.sub(r"\d+", "N", first)
    return first[:160]


# ------------------------------------------------------------------------------------------------
# runners
# ------------------------------------------------------------------------------------------------
def impl_verdicts(sources):
    """[(status, detail)] : ('OK', python_text) | ('ERR', stage + ': ' + message) | ('PANIC'|'CRASH'.., text)"""
    lines = [f"t{i}\ttranspile\t0\t{hexs(s)}" for i, s in enumerate(sources)]
    res = run_sharded(MH, lines, shards=max(1, min(NCPU, 12, len(lines) // 8 + 1)))
    out = []
    for i in range(len(sources)):
        r = res.get(f"t{i}", ["MISSING"])
        if r[0] == "OK":
            out.append(("OK", unhex(r[1])))
        elif r[0] == "ERR":
            out.append(("ERR", r[1] + ": " + unhex(r[2]).replace("\x1e", "\n")))
        else:
            out.append((r[0], " ".join(unhex(x) if re.fullmatch(r"[0-9a-f]*", x) and len(x) % 2 == 0 else x for x in r[1:])))
    return out


PRELUDE = ["model.Types", "model.TypingSig", "gen.Stubs", "gen.StubSigs", "model.Typing"]


def model_verdicts(programs, chunk=None):
    """[(check noq, check impl_quirks)] evaluated by vm_compute in coqc, in parallel chunks"""
    def one(ps):
        exprs = [f"(let p := ({p.coq()})%string in (check generated stub_sigs noq p, "
                 f"check generated stub_sigs (impl_quirks call_params_strip_nullable) p))" for p in ps]
        rs = coq_eval(PRELUDE, exprs, timeout=900)
        out = []
        for r in rs:
            m = re.fullmatch(r"\((true|false),\s*(true|false)\)", (r or "").strip())
            out.append((m.group(1) == "true", m.group(2) == "true") if m else None)
        return out
    chunk = chunk or max(10, len(programs) // 6 + 1)
    chunks = [programs[i:i + chunk] for i in range(0, len(programs), chunk)]
    out = []
    with ThreadPoolExecutor(max(1, min(NCPU, 8))) as ex:
        for r in ex.map(one, chunks):
            out += r
    return out


GOES_WRONG = ("TypeError", "AttributeError", "NameError", "UnboundLocalError")


def run_python(py_texts, timeout=5):
    """[(kind, last stderr line)] kind in GOES_WRONG | 'ok' | 'other:<Exc>' | 'timeout'"""
    d = tempfile.mkdtemp(prefix="py_", dir=CACHE)

    def one(iv):
        i, text = iv
        p = os.path.join(d, f"p{i}.py")
        open(p, "w").write(text)
        try:
            q = subprocess.run([sys.executable, "-I", p], stdout=subprocess.DEVNULL, stderr=subprocess.PIPE,
                               text=True, timeout=timeout, cwd=d)
        except subprocess.TimeoutExpired:
            return ("timeout", "")
        if q.returncode == 0:
            return ("ok", "")
        last = (q.stderr.strip().splitlines() or [""])[-1]
        m = re.match(r"(\w+)(:|$)", last)
        exc = m.group(1) if m else "?"
        return (exc if exc in GOES_WRONG else "other:" + exc, last[:200])
    try:
        with ThreadPoolExecutor(max(1, min(NCPU, 6))) as ex:
            res = list(ex.map(one, enumerate(py_texts)))
        # a timeout on a loaded machine is retried alone before it is discarded
        for i, r in enumerate(res):
            if r[0] == "timeout":
                res[i] = one((i, py_texts[i]))
        return res
    finally:
        import shutil
        shutil.rmtree(d, ignore_errors=True)


# ------------------------------------------------------------------------------------------------
# shrinking (delta debugging on the structured form)
# ------------------------------------------------------------------------------------------------
def _blocks(prog):
    """every statement list of the program (mutable references)"""
    out = [prog.main]

    def walk(b):
        for s in b:
            if isinstance(s, SIf):
                out.append(s.t); out.append(s.e); walk(s.t); walk(s.e)
            elif isinstance(s, (SWhile, SFor)):
                out.append(s.b); walk(s.b)
            elif isinstance(s, SMatch):
                for _, bb in s.arms:
                    out.append(bb); walk(bb)
            elif isinstance(s, SHandle):
                for a in s.arms:
                    out.append(a.body); walk(a.body)
    walk(prog.main)
    for f in prog.funs:
        out.append(f.body); walk(f.body)
    for c in prog.classes:
        for m in c.methods:
            out.append(m.body); walk(m.body)
    return out


def shrink(prog, still_fails, max_rounds=6):
    """greedy removal of statements / methods / functions / classes while `still_fails(candidate)` holds"""
    cur = copy.deepcopy(prog)
    for _ in range(max_rounds):
        changed = False
        # whole definitions
        for attr in ("funs", "classes"):
            i = 0
            while i < len(getattr(cur, attr)):
                cand = copy.deepcopy(cur)
                del getattr(cand, attr)[i]
                if still_fails(cand):
                    cur, changed = cand, True
                else:
                    i += 1
        for ci in range(len(cur.classes)):
            i = 0
            while i < len(cur.classes[ci].methods):
                cand = copy.deepcopy(cur)
                del cand.classes[ci].methods[i]
                if still_fails(cand):
                    cur, changed = cand, True
                else:
                    i += 1
        # statements
        bi = 0
        while True:
            bl = _blocks(cur)
            if bi >= len(bl):
                break
            i = 0
            while i < len(_blocks(cur)[bi]):
                cand = copy.deepcopy(cur)
                del _blocks(cand)[bi][i]
                if still_fails(cand):
                    cur, changed = cand, True
                else:
                    i += 1
            bi += 1
        if not changed:
            break
    return cur


# ------------------------------------------------------------------------------------------------
# the fixed corpus: one witness per known finding (and a few plain sanity cases)
# ------------------------------------------------------------------------------------------------
def _p(name, ty, d=None):
    return Param(name, ty, d)


def corpus():
    """[dict(name, prog | src, spec, props, desc, expect_wrong)]
    spec: 'conforming' | 'nonconforming' as the property judges the case (for `prog` cases this is re-derived by Spec
    and by the Coq model; for `src` cases -- constructs outside the model -- it is stated here with the reason)."""
    C = lambda fields, methods=(), parent=None, name="C": CDef(name, fields, list(methods), parent)
    exc = CDef("E1", [("msg", STR)], [], ("Exception", [EVar("msg")]))
    g = FDef("g", [_p("a", INT)], INT, [SIf(EOp(">", EVar("a"), EInt(3)), [SRaise("E1", [EStr("big")])], [])],
             EOp("*", EVar("a"), EInt(2)), raises=["E1"])
    m_add = FDef("m", [_p("q", INT)], INT, [], EOp("+", EField(EVar("self"), "a"), EVar("q")))
    out = []

    def add(name, spec, props, site, mutation, position, prog=None, src=None, wrong=None, note=""):
        out.append({"name": name, "spec": spec, "props": set(props.split()), "prog": prog, "src": src,
                    "desc": {"site": site, "mutation": mutation, "position": position, "expected": "-", "got": "-"},
                    "expect_wrong": wrong, "note": note})

    # ---- accepted although non-conforming (negative half of C05 / C06), most of them go wrong at run time (C04)
    add("field-of-nullable", "nonconforming", "C06 C04", "field-recv", "nullable", "top",
        Program([C([("a", INT)])], [], [SDef("d", False, Ty("C", True), ENone()), SPrint(EField(EVar("d"), "a"))]),
        wrong="AttributeError")
    add("quest-none-as-int", "nonconforming", "C06 C04", "quest-default", "none", "top",
        Program([], [], [SDef("x", False, INT.opt(), ENone()), SDef("y", False, INT, EQuest(EVar("x"), ENone())),
                         SPrint(EOp("+", EVar("y"), EInt(1)))]), wrong="TypeError")
    add("quest-int-as-str", "nonconforming", "C05 C04", "quest-default", "wrong-type", "top",
        Program([], [], [SDef("x", False, INT.opt(), EInt(3)), SDef("y", False, STR, EQuest(EVar("x"), EStr("s"))),
                         SPrint(EOp("+", EVar("y"), EStr("t")))]), wrong="TypeError")
    add("range-bound-nullable", "nonconforming", "C06 C04", "range", "nullable", "top",
        Program([], [], [SDef("n", False, INT.opt(), ENone()), SFor("i", EInt(0), EVar("n"), [SPrint(EVar("i"))])]),
        wrong="TypeError")
    add("range-bound-float-var", "nonconforming", "C05 C04", "range", "wrong-type", "top",
        Program([], [], [SDef("n", False, FLOAT, EFloat("2.5")), SFor("i", EInt(0), EVar("n"), [SPrint(EVar("i"))])]),
        wrong="TypeError")
    add("handle-arm-str-for-int", "nonconforming", "C05 C04", "harm-val", "wrong-type", "top/handle-arm",
        Program([exc], [g], [SHandle(("r", False, INT), ECall("g", [EInt(5)]), [HArm("E1", "err", [], EStr("s"))]),
                             SPrint(EOp("+", EVar("r"), EInt(1)))]), wrong="TypeError")
    add("handle-arm-none-for-int", "nonconforming", "C06 C04", "harm-val", "none", "top/handle-arm",
        Program([exc], [g], [SHandle(("r", False, INT), ECall("g", [EInt(5)]), [HArm("E1", "err", [], ENone())]),
                             SPrint(EOp("+", EVar("r"), EInt(1)))]), wrong="TypeError")
    add("body-falls-off-end", "nonconforming", "C05", "ret", "missing-return", "fun",
        Program([], [FDef("h", [_p("x", INT)], INT, [SIf(EOp("<", EVar("x"), EInt(0)), [SReturn(EInt(1))], [])], None)],
                [SPrint(EOp("+", ECall("h", [EInt(1)]), EInt(1)))]),
        note="the emitted Python is `return if ..:` (not valid Python: C02's subject), so C04's oracle cannot see the None")
    add("parent-ctor-arg", "nonconforming", "C05 C04", "parent-arg", "wrong-type", "class-header",
        Program([C([("a", INT)], [m_add], name="B"), C([("x", INT)], [], ("B", [EStr("z")]), name="D")], [],
                [SDef("d", False, None, ECall("D", [EInt(1)])), SPrint(EMeth(EVar("d"), "m", [EInt(1)]))]),
        wrong="TypeError")
    # ---- conforming by the stub signatures, but the stub row is wrong about Python (C04)
    add("str-plus-int", "conforming", "C04", "operand", "stub-row", "top",
        Program([], [], [SPrint(EOp("+", EStr("a"), EInt(1)))]), wrong="TypeError")
    add("int-pow-negative", "conforming", "C04", "operand", "stub-row", "top",
        Program([], [], [SDef("a", False, INT, EOp("^", EInt(2), EOp("-", EInt(0), EInt(1)))),
                         SFor("i", EInt(0), EVar("a"), [SPrint(EVar("i"))])]), wrong="TypeError")
    add("float-pow-fraction", "conforming", "C04", "operand", "stub-row", "top",
        Program([], [], [SDef("x", False, FLOAT, EOp("-", EFloat("0.0"), EFloat("8.0"))),
                         SDef("y", False, FLOAT, EOp("^", EVar("x"), EFloat("0.5"))),
                         SPrint(EOp("<", EVar("y"), EFloat("1.0")))]), wrong="TypeError")
    add("str-is-digit", "conforming", "C04", "recv", "stub-row", "top",
        Program([], [], [SDef("s", False, STR, EStr("12")), SPrint(EMeth(EVar("s"), "is_digit", []))]),
        wrong="AttributeError")
    add("complex-neg", "conforming", "C04", "recv", "stub-row", "top",
        Program([], [], [SDef("x", False, COMPLEX, ECall("Complex", [EInt(1), EInt(2)])),
                         SDef("y", False, FLOAT, EMeth(EVar("x"), "__neg__", [])),
                         SPrint(EOp("<", EVar("y"), EFloat("1.0")))]), wrong="TypeError")
    add("call-before-def", "conforming", "C04", "call", "use-before-def", "top",
        src="def f(x: Int) -> Int => x\nprint(f(1))\nprint(g(2))\ndef g(x: Int) -> Int => x\n", wrong="NameError",
        note="the model's function table is global as the implementation's; order of definition is C09's subject")
    # ---- refused although conforming (positive half)
    add("none-for-nullable-formal", "conforming", "C06", "funarg", "-", "top/nested-arg",
        Program([], [FDef("f", [_p("x", INT.opt())], INT, [], EInt(3))], [SPrint(ECall("f", [ENone()]))]))
    add("nullable-for-nullable-formal", "conforming", "C06", "funarg", "-", "top/nested-arg",
        Program([], [FDef("f", [_p("x", INT.opt())], INT, [], EInt(3))],
                [SDef("z", False, INT.opt(), ENone()), SPrint(ECall("f", [EVar("z")]))]))
    add("none-for-nullable-field-of-ctor", "conforming", "C06", "funarg", "-", "top/nested-arg",
        Program([C([("a", INT), ("b", STR.opt())])], [], [SDef("c", False, None, ECall("C", [EInt(1), ENone()]))]))
    add("assign-none-retypes-none", "conforming", "C06", "assign", "-", "top",
        Program([], [], [SDef("x", True, INT.opt(), EInt(1)), SAssign("x", ENone()), SDef("a", False, STR.opt(), ENone())]))
    add("assign-int-retypes-literal", "conforming", "C05", "assign", "-", "top",
        Program([], [], [SDef("x", True, FLOAT, EFloat("1.5")), SAssign("x", EInt(3)), SDef("a", False, INT, EInt(3))]))
    add("assign-value-to-nullable-retypes-literal", "conforming", "C06", "assign", "-", "top",
        Program([], [], [SDef("x", True, INT.opt(), ENone()), SAssign("x", EInt(3)), SDef("a", False, INT, EInt(3))]))
    add("bare-result-retypes-literal", "conforming", "C05", "ret", "-", "fun",
        Program([], [FDef("f", [], FLOAT, [], EInt(1), ret_stmt=False)], [SDef("a", False, INT, EInt(1))]))
    add("bare-none-result-retypes-none", "conforming", "C06", "ret", "-", "fun",
        Program([], [FDef("f", [], INT.opt(), [], ENone(), ret_stmt=False)], [SDef("a", False, STR.opt(), ENone())]))
    add("same-return-two-types", "conforming", "C05", "ret", "-", "fun",
        Program([], [FDef("f", [], FLOAT, [], EInt(1)), FDef("g", [], INT, [], EInt(1))], []))
    add("field-read-at-wider-type", "conforming", "C05", "assign", "-", "top",
        Program([C([("a", INT)])], [], [SDef("c", False, None, ECall("C", [EInt(1)])), SDef("v", True, FLOAT, EFloat("2.5")),
                                        SAssign("v", EField(EVar("c"), "a"))]))
    add("field-int-then-float", "conforming", "C05", "setfield", "-", "top",
        Program([C([("a", FLOAT)])], [], [SDef("c", True, None, ECall("C", [EFloat("1.5")])),
                                          SSetField(EVar("c"), "a", EOp("*", EInt(1), EInt(7))),
                                          SSetField(EVar("c"), "a", EFloat("2.25"))]))
    add("field-none-then-value", "conforming", "C06", "setfield", "-", "top",
        Program([C([("a", STR.opt())])], [], [SDef("c", True, None, ECall("C", [EStr("s")])),
                                              SSetField(EVar("c"), "a", ENone()),
                                              SSetField(EVar("c"), "a", EStr("x"))]))
    add("print-of-quest", "conforming", "C06", "str-recv", "-", "top",
        Program([], [], [SDef("x", False, INT.opt(), ENone()), SPrint(EQuest(EVar("x"), EInt(0)))]))
    add("operand-of-quest", "conforming", "C06", "op-recv", "-", "top",
        Program([], [], [SDef("x", False, STR.opt(), ENone()), SPrint(EOp("+", EQuest(EVar("x"), EStr("s")), EStr("t")))]))
    add("inferred-quest-then-print", "conforming", "C06", "str-recv", "-", "top",
        Program([], [], [SDef("x", False, INT.opt(), ENone()), SDef("y", False, None, EQuest(EVar("x"), EInt(3))),
                         SPrint(EVar("y"))]))
    add("quest-on-call-result", "conforming", "C06", "init", "-", "top",
        Program([], [FDef("f", [_p("x", INT)], INT.opt(), [], EVar("x"))],
                [SDef("r", False, INT, EQuest(ECall("f", [EInt(1)]), EInt(0)))]))
    add("value-call-ends-arm", "conforming", "C05", "arm", "-", "top/match-arm",
        Program([], [FDef("f", [_p("x", INT)], STR, [], EStr("a"))],
                [SDef("v", False, INT, EInt(1)),
                 SMatch(EInt(1), [(5, [SMatch(EInt(10), [(3, []), (2, [SExpr(ECall("f", [EVar("v")]))]), (None, [])])]),
                                  (None, [SPrint(EVar("v"))])])]))
    add("handle-def-ends-arm", "conforming", "C05", "arm", "-", "top/match-arm",
        Program([exc], [g], [SMatch(EInt(1), [(0, [SHandle(("h", True, INT), ECall("g", [EInt(1)]),
                                                            [HArm("E1", "err", [], EInt(2))])]),
                                              (None, [SPrint(EInt(3))])])]))
    add("arm-local-after-nested-branch", "conforming", "C05", "str-recv", "-", "top/match-arm",
        Program([], [], [SDef("x", False, None, EInt(3)),
                         SMatch(EVar("x"), [(1, [SDef("v", False, BOOL, EOp("<", EInt(10), EInt(3))),
                                                 SIf(EBool(True), [SPrint(EInt(1))], [SPrint(EFloat("10.0"))]),
                                                 SPrint(EFmt(["v=", EVar("v")]))]),
                                            (None, [SPrint(EInt(2))])])]))
    add("pass-arm-in-function", "conforming", "C05", "arm", "-", "fun/handle-arm",
        Program([exc], [g, FDef("k", [_p("a", INT)], INT, [SHandle(None, ECall("g", [EVar("a")]), [HArm("E1", "err", [], None)])],
                                EVar("a"))], []))
    add("int-not-equal", "conforming", "C05", "operand", "-", "top",
        src="def x := 1\nprint(x != 2)\n", note="python's int has __ne__; the stub of Int does not declare it")
    add("unary-minus-printed", "conforming", "C05", "str-recv", "-", "top",
        src="def x := 7\nprint(-x)\n", note="no constraint is generated for the unary minus node")
    add("if-expression-printed", "conforming", "C05", "str-recv", "-", "top",
        src="def x := 7\nprint(if x > 1 then 2 else 3)\n", note="if-expression as argument of print")
    # ---- (A) explicit early return on one path + implicitly returned trailing expression
    def early(fname, params, ret, trailing, extra=()):
        return FDef(fname, params, ret, list(extra) + [SIf(EOp(">", EVar("x"), EInt(0)), [SReturn(EVar("x"))], [])],
                    trailing, ret_stmt=False)
    idf = FDef("idf", [_p("a", INT)], INT, [], EVar("a"))
    add("trail-after-return-ok", "conforming", "C05", "trail", "-", "fun",
        Program([], [early("f", [_p("x", INT)], INT, EVar("x"))], [SPrint(ECall("f", [EInt(1)]))]))
    add("trail-after-return-str", "nonconforming", "C05", "trail", "wrong-type", "fun",
        Program([], [early("f", [_p("x", INT)], INT, EStr("negative"))], []))
    add("trail-after-return-param-str", "nonconforming", "C05", "trail", "wrong-type", "fun",
        Program([], [early("f", [_p("x", INT), _p("s", STR)], INT, EVar("s"))], []))
    add("trail-after-return-call-ok", "conforming", "C05", "trail", "-", "fun/nested-arg",
        Program([], [idf, early("f", [_p("x", INT)], INT, ECall("idf", [EVar("x")]))], []))
    add("trail-after-return-call-str", "nonconforming", "C05", "trail", "wrong-type", "fun",
        Program([], [FDef("sf", [_p("a", INT)], STR, [], EStr("s")), early("f", [_p("x", INT)], INT, ECall("sf", [EVar("x")]))], []))
    add("trail-after-loop-return-none", "nonconforming", "C05", "trail", "none", "fun/loop",
        Program([], [FDef("f", [_p("x", INT), _p("n", INT.opt())], INT,
                          [SFor("i", EInt(0), EInt(3), [SIf(EOp(">", EVar("i"), EVar("x")), [SReturn(EVar("i"))], [])])],
                          EVar("n"), ret_stmt=False)], []))
    add("trail-after-return-method-ok", "conforming", "C05", "trail", "-", "method",
        Program([C([("a", INT)], [FDef("m", [_p("x", INT)], INT, [SIf(EOp(">", EVar("x"), EInt(0)), [SReturn(EVar("x"))], [])],
                                       EVar("x"), ret_stmt=False)])], [], []))
    add("trail-after-return-method-str", "nonconforming", "C05", "trail", "wrong-type", "method",
        Program([C([("a", INT)], [FDef("m", [_p("x", INT), _p("s", STR)], INT,
                                       [SIf(EOp(">", EVar("x"), EInt(0)), [SReturn(EVar("x"))], [])], EVar("s"), ret_stmt=False)])], [], []))
    add("trail-wider-variable", "nonconforming", "C05 C04", "trail", "supertype", "fun",
        Program([], [early("f", [_p("x", INT)], INT, EVar("w"), extra=[SDef("w", False, FLOAT, EFloat("2.5"))])],
                [SFor("i", EInt(0), ECall("f", [EInt(0)]), [SPrint(EVar("i"))])]), wrong="TypeError")
    add("trail-wider-field", "nonconforming", "C05", "trail", "supertype-field", "method",
        Program([C([("hf", FLOAT)], [FDef("m", [_p("x", INT)], INT,
                                          [SIf(EOp(">", EVar("x"), EInt(0)), [SReturn(EVar("x"))], [])],
                                          EField(EVar("self"), "hf"), ret_stmt=False)])], [], []))
    # ---- (B) values related by subtyping, both directions, stores and reads of fields
    H = C([("hf", FLOAT), ("hi", INT)], name="H")
    Bc = C([("a", INT)], name="B")
    Dc = C([("x", INT)], [], ("B", [EVar("x")]), name="D")
    Kc = C([("pb", Ty("B")), ("pd", Ty("D"))], name="K")
    mkh = SDef("h", True, None, ECall("H", [EFloat("2.5"), EInt(3)]))
    mkk = [SDef("b", False, None, ECall("B", [EInt(1)])), SDef("d", False, None, ECall("D", [EInt(2)])),
           SDef("k", True, None, ECall("K", [EVar("b"), EVar("d")]))]
    add("store-float-into-int-field", "nonconforming", "C05", "setfield", "supertype", "top",
        Program([H], [], [mkh, SDef("g", False, FLOAT, EFloat("1.5")), SSetField(EVar("h"), "hi", EVar("g"))]))
    add("store-int-into-float-field", "conforming", "C05", "setfield", "subtype", "top",
        Program([H], [], [mkh, SDef("g", False, INT, EInt(1)), SSetField(EVar("h"), "hf", EVar("g"))]))
    add("store-float-literal-into-int-field", "nonconforming", "C05", "setfield", "supertype", "top",
        Program([H], [], [mkh, SSetField(EVar("h"), "hi", EFloat("2.5"))]))
    add("store-wider-field-into-field", "nonconforming", "C05", "setfield", "supertype-field", "top",
        Program([H], [], [mkh, SSetField(EVar("h"), "hi", EField(EVar("h"), "hf"))]))
    add("store-narrower-field-into-field", "conforming", "C05", "setfield", "subtype-field", "top",
        Program([H], [], [mkh, SSetField(EVar("h"), "hf", EField(EVar("h"), "hi"))]))
    add("self-store-float-into-int-field", "nonconforming", "C05", "setfield", "supertype", "method",
        Program([C([("hf", FLOAT), ("hi", INT)], [FDef("put", [_p("v", FLOAT)], None, [SSetField(EVar("self"), "hi", EVar("v"))], None)],
                   name="H")], [], []))
    add("self-store-int-into-float-field", "conforming", "C05", "setfield", "subtype", "method",
        Program([C([("hf", FLOAT), ("hi", INT)], [FDef("put", [_p("v", INT)], None, [SSetField(EVar("self"), "hf", EVar("v"))], None)],
                   name="H")], [], []))
    add("store-parent-into-child-field", "nonconforming", "C05", "setfield", "supertype", "top",
        Program([Bc, Dc, Kc], [], mkk + [SSetField(EVar("k"), "pd", EVar("b"))]))
    add("store-child-into-parent-field", "conforming", "C05", "setfield", "subtype", "top",
        Program([Bc, Dc, Kc], [], mkk + [SSetField(EVar("k"), "pb", EVar("d"))]))
    add("self-store-parent-into-child-field", "nonconforming", "C05", "setfield", "supertype", "method",
        Program([Bc, Dc, C([("pb", Ty("B")), ("pd", Ty("D"))],
                           [FDef("sd", [_p("v", Ty("B"))], None, [SSetField(EVar("self"), "pd", EVar("v"))], None)], name="K")], [], []))
    add("self-store-child-into-parent-field", "conforming", "C05", "setfield", "subtype", "method",
        Program([Bc, Dc, C([("pb", Ty("B")), ("pd", Ty("D"))],
                           [FDef("sp", [_p("v", Ty("D"))], None, [SSetField(EVar("self"), "pb", EVar("v"))], None)], name="K")], [], []))
    add("arg-parent-for-child", "nonconforming", "C05", "funarg", "supertype", "top/nested-arg",
        Program([Bc, Dc], [FDef("fd", [_p("p", Ty("D"))], INT, [], EField(EVar("p"), "x"))], [SPrint(ECall("fd", [ECall("B", [EInt(1)])]))]))
    add("arg-child-for-parent", "conforming", "C05", "funarg", "subtype", "top/nested-arg",
        Program([Bc, Dc], [FDef("fb", [_p("p", Ty("B"))], INT, [], EField(EVar("p"), "a"))], [SPrint(ECall("fb", [ECall("D", [EInt(1)])]))]))
    add("init-parent-for-child", "nonconforming", "C05", "init", "supertype", "top",
        Program([Bc, Dc], [], [SDef("v", False, Ty("D"), ECall("B", [EInt(1)]))]))
    add("return-parent-for-child", "nonconforming", "C05", "ret", "supertype", "fun",
        Program([Bc, Dc], [FDef("mk", [_p("p", Ty("B"))], Ty("D"), [], EVar("p"))], []))
    add("read-wider-field-into-int", "nonconforming", "C05", "init", "supertype-field", "top",
        Program([H], [], [mkh, SDef("v", False, INT, EField(EVar("h"), "hf"))]))
    add("return-wider-field", "nonconforming", "C05", "ret", "supertype-field", "method",
        Program([C([("hf", FLOAT)], [FDef("m", [], INT, [], EField(EVar("self"), "hf"))], name="H")], [], []))
    add("return-narrower-field", "conforming", "C05", "ret", "subtype-field", "method",
        Program([C([("hi", INT)], [FDef("m", [], FLOAT, [], EField(EVar("self"), "hi"))], name="H")], [], []))
    add("assign-from-wider-field", "nonconforming", "C05 C04", "assign", "supertype-field", "top",
        Program([H], [], [mkh, SDef("v", True, INT, EInt(1)), SAssign("v", EField(EVar("h"), "hf")),
                          SFor("i", EInt(0), EVar("v"), [SPrint(EVar("i"))])]), wrong="TypeError")
    ctor = ("class K\n    def a: Int\n    def f: Float\n    def __init__(self, x: Int, y: Float) =>\n"
            "        self.a := %s\n        self.f := %s\n")
    add("ctor-store-ok", "conforming", "C05", "setfield", "-", "constructor", src=ctor % ("x", "y") + "def k := K(1, 2.5)\n",
        note="explicit constructors (__init__ with a body) are outside the model")
    add("ctor-store-float-into-int-field", "nonconforming", "C05", "setfield", "supertype", "constructor", src=ctor % ("y", "y"),
        note="a Float parameter stored into an Int field")
    add("ctor-store-int-into-float-field", "conforming", "C05", "setfield", "subtype", "constructor", src=ctor % ("x", "x"),
        note="an Int parameter stored into a Float field")
    ctor2 = ("class B(def a: Int)\nclass D(def x: Int): B(x)\nclass K\n    def pb: B\n    def pd: D\n"
             "    def __init__(self, b: B, d: D) =>\n        self.pb := %s\n        self.pd := %s\n")
    add("ctor-store-child-into-parent-field", "conforming", "C05", "setfield", "subtype", "constructor", src=ctor2 % ("d", "d"),
        note="a child instance stored into a parent-typed field")
    add("ctor-store-parent-into-child-field", "nonconforming", "C05", "setfield", "supertype", "constructor", src=ctor2 % ("b", "b"),
        note="a parent instance stored into a child-typed field")
    # ---- (C) compound assignment: the RESULT of the operator must fit the target
    use_x = SFor("i", EInt(0), EVar("x"), [SPrint(EVar("i"))])
    add("aug-int-controls", "conforming", "C05 C04", "aug-op", "-", "top",
        Program([], [], [SDef("x", True, INT, EInt(6)), SAug(EVar("x"), "+", EInt(2)), SAug(EVar("x"), "-", EInt(1)),
                         SAug(EVar("x"), "*", EInt(3)), use_x,
                         SDef("s", True, STR, EStr("a")), SAug(EVar("s"), "+", EStr("b")), SPrint(EVar("s")),
                         SDef("f", True, FLOAT, EFloat("6.0")), SAug(EVar("f"), "/", EInt(2)), SPrint(EVar("f"))]))
    add("aug-int-div", "nonconforming", "C05 C04", "aug-op", "aug-result", "top",
        Program([], [], [SDef("x", True, INT, EInt(6)), SDef("y", False, INT, EInt(4)), SAug(EVar("x"), "/", EVar("y")), use_x]),
        wrong="TypeError")
    add("aug-int-div-in-function", "nonconforming", "C05 C04", "aug-op", "aug-result", "fun/loop",
        Program([], [FDef("f", [_p("p", INT)], INT, [SDef("x", True, INT, EVar("p")),
                                                      SFor("j", EInt(0), EInt(2), [SAug(EVar("x"), "/", EInt(2))])], EVar("x"))],
                [SFor("i", EInt(0), ECall("f", [EInt(8)]), [SPrint(EVar("i"))])]), wrong="TypeError")
    add("aug-field-div-in-method", "nonconforming", "C05 C04", "aug-op", "aug-result", "method",
        Program([C([("a", INT)], [FDef("m", [_p("q", INT)], None, [SAug(EField(EVar("self"), "a"), "/", EVar("q"))], None)])], [],
                [SDef("c", False, None, ECall("C", [EInt(4)])), SExpr(EMeth(EVar("c"), "m", [EInt(2)])),
                 SFor("i", EInt(0), EField(EVar("c"), "a"), [SPrint(EVar("i"))])]), wrong="TypeError")
    add("aug-field-add-ok", "conforming", "C05 C04", "aug-op", "-", "top",
        Program([C([("a", INT)])], [], [SDef("c", True, None, ECall("C", [EInt(4)])), SAug(EField(EVar("c"), "a"), "+", EInt(1)),
                                        SPrint(EField(EVar("c"), "a"))]))
    add("aug-str-plus-int", "nonconforming", "C05", "aug-operand", "wrong-type", "top",
        Program([], [], [SDef("x", True, INT, EInt(6)), SAug(EVar("x"), "+", EStr("s"))]))
    vplus = lambda ret, res: C([("a", INT)], [FDef("__add__", [_p("other", Ty("V"))], ret, [], res)], name="V")
    add("aug-user-operator-result-int", "nonconforming", "C05 C04", "aug-op", "aug-result", "top",
        Program([vplus(INT, EOp("+", EField(EVar("self"), "a"), EField(EVar("other"), "a")))], [],
                [SDef("v", True, None, ECall("V", [EInt(1)])), SAug(EVar("v"), "+", ECall("V", [EInt(2)])),
                 SPrint(EField(EVar("v"), "a"))]), wrong="AttributeError")
    add("aug-user-operator-ok", "conforming", "C05 C04", "aug-op", "-", "top",
        Program([vplus(Ty("V"), ECall("V", [EOp("+", EField(EVar("self"), "a"), EField(EVar("other"), "a"))]))], [],
                [SDef("v", True, None, ECall("V", [EInt(1)])), SAug(EVar("v"), "+", ECall("V", [EInt(2)])),
                 SPrint(EField(EVar("v"), "a"))]))
    # ---- (D) None / S? where a strict SUPERtype of S is declared
    na = SDef("a", False, INT.opt(), ENone())
    add("nullable-int-into-float-init", "nonconforming", "C06 C04", "init", "nullable-subtype", "top",
        Program([], [], [na, SDef("b", False, FLOAT, EVar("a")), SPrint(EOp("+", EVar("b"), EFloat("1.5")))]), wrong="TypeError")
    add("nullable-int-into-float-arg", "nonconforming", "C06", "funarg", "nullable-subtype", "top/nested-arg",
        Program([], [FDef("f", [_p("x", FLOAT)], FLOAT, [], EVar("x"))], [na, SPrint(ECall("f", [EVar("a")]))]))
    add("nullable-int-into-float-method-arg", "nonconforming", "C06", "arg", "nullable-subtype", "top/nested-arg",
        Program([C([("k", INT)], [FDef("m", [_p("x", FLOAT)], FLOAT, [], EVar("x"))])], [],
                [na, SDef("c", False, None, ECall("C", [EInt(1)])), SPrint(EMeth(EVar("c"), "m", [EVar("a")]))]))
    add("nullable-int-into-float-return", "nonconforming", "C06", "ret", "nullable-subtype", "fun",
        Program([], [FDef("f", [_p("x", INT.opt())], FLOAT, [], EVar("x"))], []))
    add("nullable-int-into-float-operand", "nonconforming", "C06", "operand", "nullable-subtype", "top",
        Program([], [], [na, SPrint(EOp("+", EFloat("1.5"), EVar("a")))]))
    add("nullable-int-into-float-field", "nonconforming", "C06", "setfield", "nullable-subtype", "top",
        Program([C([("hf", FLOAT)])], [], [na, SDef("c", True, None, ECall("C", [EFloat("1.5")])), SSetField(EVar("c"), "hf", EVar("a"))]))
    add("nullable-int-into-float-assign", "nonconforming", "C06", "assign", "nullable-subtype", "top",
        Program([], [], [na, SDef("b", True, FLOAT, EFloat("1.5")), SAssign("b", EVar("a"))]))
    nd = SDef("d", False, Ty("D", True), ENone())
    add("nullable-child-into-parent-init", "nonconforming", "C06 C04", "init", "nullable-subtype", "top",
        Program([Bc, Dc], [], [nd, SDef("b", False, Ty("B"), EVar("d")), SPrint(EField(EVar("b"), "a"))]), wrong="AttributeError")
    add("nullable-child-into-parent-arg", "nonconforming", "C06", "funarg", "nullable-subtype", "top/nested-arg",
        Program([Bc, Dc], [FDef("fb", [_p("p", Ty("B"))], INT, [], EField(EVar("p"), "a"))], [nd, SPrint(ECall("fb", [EVar("d")]))]))
    add("nullable-child-into-parent-field", "nonconforming", "C06", "setfield", "nullable-subtype", "top",
        Program([Bc, Dc, Kc], [], mkk + [nd, SSetField(EVar("k"), "pb", EVar("d"))]))
    add("nullable-child-into-parent-return", "nonconforming", "C06", "ret", "nullable-subtype", "fun",
        Program([Bc, Dc], [FDef("up", [_p("p", Ty("D", True))], Ty("B"), [], EVar("p"))], []))
    # ---- (E) tuples with a nullable element
    add("tuple-nullable-element-none", "conforming", "C06", "init", "-", "top",
        src="def t: (Int, Int?) := (1, None)\n", note="None is an Int?; a tuple literal of the declared element types")
    add("tuple-nullable-element-value", "conforming", "C06", "init", "-", "top",
        src="def t: (Int, Int?) := (1, 2)\n", note="an Int is an Int?")
    # ---- (G) the argument's type flows through an INFERRED local
    Dcls = C([("k", INT)], [FDef("fetch", [_p("what", STR)], STR, [], EVar("what"))], name="Dd")
    mkd = SDef("d", False, None, ECall("Dd", [EInt(1)]))
    takes_str = FDef("takes", [_p("what", STR)], STR, [], EVar("what"))
    add("inferred-local-wrong-method-arg", "nonconforming", "C05", "arg", "inferred-wrong", "top/nested-arg",
        Program([Dcls], [], [mkd, SDef("thing", False, None, EInt(7)), SPrint(EMeth(EVar("d"), "fetch", [EVar("thing")]))]))
    add("annotated-local-wrong-method-arg", "nonconforming", "C05", "arg", "wrong-type", "top/nested-arg",
        Program([Dcls], [], [mkd, SDef("thing", False, INT, EInt(7)), SPrint(EMeth(EVar("d"), "fetch", [EVar("thing")]))]))
    add("inferred-local-ok-method-arg", "conforming", "C05", "arg", "-", "top/nested-arg",
        Program([Dcls], [], [mkd, SDef("thing", False, None, EStr("k")), SPrint(EMeth(EVar("d"), "fetch", [EVar("thing")]))]))
    add("inferred-local-wrong-function-arg", "nonconforming", "C05", "funarg", "inferred-wrong", "top/nested-arg",
        Program([], [takes_str], [SDef("thing", False, None, EInt(7)), SPrint(ECall("takes", [EVar("thing")]))]))
    add("inferred-local-wrong-operand", "nonconforming", "C05", "operand", "inferred-wrong", "top",
        Program([], [], [SDef("thing", False, None, EStr("z")), SPrint(EOp("+", EInt(1), EVar("thing")))]))
    nest = lambda val: FDef("walk", [_p("n", INT)], None,
                            [SDef("d", False, None, ECall("Dd", [EInt(1)])), SDef("thing", False, None, val),
                             SFor("i", EInt(0), EVar("n"), [SMatch(EVar("i"), [(1, [SPrint(EMeth(EVar("d"), "fetch", [EVar("thing")]))]),
                                                                              (None, [SPrint(EVar("i"))])])])], None)
    add("inferred-local-wrong-method-arg-nested", "nonconforming", "C05", "arg", "inferred-wrong", "fun/loop/match-arm/nested-arg",
        Program([Dcls], [nest(EInt(7))], [SExpr(ECall("walk", [EInt(2)]))]))
    add("inferred-local-ok-method-arg-nested", "conforming", "C05", "arg", "-", "fun/loop/match-arm/nested-arg",
        Program([Dcls], [nest(EStr("k"))], [SExpr(ECall("walk", [EInt(2)]))]))
    # ---- (H) an outer nullable variable, an inner parameter / local of the same name and a non-nullable type, outer use after
    outer = [SDef("x", False, INT.opt(), ENone())]
    fpar = FDef("f", [_p("x", INT)], INT, [], EOp("+", EVar("x"), EInt(1)))
    floc = FDef("g", [], INT, [SDef("x", False, INT, EInt(1))], EVar("x"))
    arm = SIf(EBool(True), [SDef("x", False, INT, EInt(1)), SPrint(EVar("x"))], [])
    for nm, funs, mid in (("param", [fpar], []), ("function-local", [floc], []), ("arm-local", [], [arm])):
        add(f"shadow-{nm}-outer-still-nullable", "nonconforming", "C06", "shadow-use", "unwrap", "top",
            Program([], funs, mid + [SDef("y", False, INT, EVar("x"))], pre=outer))
        add(f"shadow-{nm}-outer-with-default", "conforming", "C06 C04", "shadow-use", "-", "top",
            Program([], funs, mid + [SDef("y", False, INT, EQuest(EVar("x"), EInt(0))), SPrint(EVar("y"))], pre=outer))
    bare = lambda pty, ret: FDef("f", [_p("x", pty)], ret, [], EVar("x"), ret_stmt=False)
    add("shadow-trailing-param-wrong-type", "nonconforming", "C05 C04", "trail", "shadowed-param", "fun",
        Program([], [bare(STR, INT)], [SPrint(EOp("+", ECall("f", [EStr("a")]), EInt(1)))], pre=[SDef("x", False, INT, EInt(1))]),
        wrong="TypeError")
    add("shadow-trailing-param-nullable", "nonconforming", "C06 C04", "trail", "shadowed-param", "fun",
        Program([], [bare(INT.opt(), INT)], [SDef("n", False, INT.opt(), ENone()),
                                             SPrint(EOp("+", ECall("f", [EVar("n")]), EInt(1)))],
                pre=[SDef("x", False, INT, EInt(1))]), wrong="TypeError")
    add("shadow-trailing-param-over-rejected", "conforming", "C06", "trail", "shadowed-param", "fun",
        Program([], [bare(INT, INT)], [SPrint(ECall("f", [EInt(2)]))], pre=[SDef("x", False, INT.opt(), ENone())]))
    # ---- sanity: plain conforming / non-conforming cases on which everybody agrees
    add("sanity-accept", "conforming", "C05 C06 C04", "-", "-", "top",
        Program([C([("a", INT)], [m_add])], [FDef("f", [_p("x", FLOAT), _p("s", STR, EStr("d"))], FLOAT.opt(),
                                                 [SIf(EOp("<", EVar("x"), EFloat("1.0")), [SReturn(ENone())], [])],
                                                 EOp("*", EVar("x"), EInt(2)))],
                [SDef("o", True, None, ECall("C", [EInt(3)])), SDef("k", False, INT, EMeth(EVar("o"), "m", [EInt(2)])),
                 SDef("z", True, FLOAT.opt(), ECall("f", [EVar("k")])), SDef("w", False, FLOAT, EQuest(EVar("z"), EFloat("0.5"))),
                 SPrint(EVar("w"))]))
    add("sanity-reject-arg", "nonconforming", "C05", "funarg", "wrong-type", "top/nested-arg",
        Program([], [FDef("f", [_p("x", INT)], INT, [], EVar("x"))], [SPrint(ECall("f", [EStr("a")]))]))
    add("sanity-reject-none", "nonconforming", "C06", "init", "none", "top",
        Program([], [], [SDef("x", False, INT, ENone())]))
    return out


# ------------------------------------------------------------------------------------------------
# one run: base programs, stratified mutants, corpus; verdicts of implementation, model and specification
# ------------------------------------------------------------------------------------------------
class Rec:
    __slots__ = ("origin", "desc", "prog", "src", "spec", "spec_why", "impl", "model", "py", "corpus", "known")

    def __init__(self, origin, desc, prog, src, spec, why="", corpus=None):
        self.origin, self.desc, self.prog, self.src, self.spec, self.spec_why = origin, desc, prog, src, spec, why
        self.impl, self.model, self.py, self.corpus, self.known = None, None, None, corpus, False


def build_cases(rng, profile, kinds, n_base, budget, prop, all_mutants=False, log=print):
    """records for: every corpus case of `prop`, n_base conforming programs, and `budget` mutants chosen so that every
    (mutation, site kind, enclosing definition, innermost position) stratum that occurs is hit as evenly as possible"""
    sigs = load_stub_sigs()
    recs = []
    for c in corpus():
        if prop not in c["props"]:
            continue
        if c["prog"] is not None:
            ok, why = Spec(c["prog"], sigs).conforms()
            recs.append(Rec("corpus:" + c["name"], c["desc"], c["prog"], c["prog"].mamba(), ok, why, corpus=c))
        else:
            recs.append(Rec("corpus:" + c["name"], c["desc"], None, c["src"], c["spec"] == "conforming", c["note"], corpus=c))
    for c in generic_family():
        if prop in c["props"]:
            recs.append(Rec("corpus:" + c["name"], c["desc"], None, c["src"], c["spec"] == "conforming", c["note"], corpus=c))
    bases = []
    for b in range(n_base):
        g = Gen(rng, profile)
        p, sites = g.program(4)
        ok, why = Spec(p, sigs).conforms()
        recs.append(Rec(f"base:{b}", {"site": "-", "mutation": "none", "position": "-"}, p, p.mamba(), ok, why))
        bases.append((b, p, sites, mutant_candidates(sites, kinds, p)))
    # stratified choice
    pool = [(b, idx, mk, stratum(sites[idx], mk)) for b, p, sites, cands in bases for idx, mk in cands]
    rng.shuffle(pool)
    chosen, count = [], {}
    if all_mutants:
        chosen = pool
    else:
        by = {}
        for item in pool:
            by.setdefault(item[3], []).append(item)
        keys = sorted(by)
        while len(chosen) < budget and any(by[k] for k in keys):
            for k in keys:
                if by[k] and len(chosen) < budget:
                    chosen.append(by[k].pop())
    base_of = {b: (p, sites) for b, p, sites, _ in bases}
    for b, idx, mk, st in chosen:
        p, sites = base_of[b]
        desc, q = apply_mutant(p, sites, idx, mk, rng)
        ok, why = Spec(q, sigs).conforms()
        recs.append(Rec(f"mutant:{b}:{idx}:{mk}", desc, q, q.mamba(), ok, why))
    log(f"cases: {len(recs)} ({n_base} base programs, {len(chosen)} mutants out of {len(pool)} candidates in "
        f"{len(set(x[3] for x in pool))} strata, corpus {sum(1 for r in recs if r.corpus)})")
    return recs, {"candidates": len(pool), "strata": len(set(x[3] for x in pool)),
                  "strata_hit": len(set(x[3] for x in chosen))}


def evaluate(recs, with_model=True, with_python=False, log=print):
    import time
    t = time.time()
    vs = impl_verdicts([r.src for r in recs])
    for r, v in zip(recs, vs):
        r.impl = v
    log(f"implementation verdicts: {len(recs)} in {time.time() - t:.1f}s")
    if with_model:
        t = time.time()
        withp = [r for r in recs if r.prog is not None]
        ms = model_verdicts([r.prog for r in withp])
        for r, m in zip(withp, ms):
            r.model = m
        log(f"model verdicts: {len(withp)} in {time.time() - t:.1f}s")
    if with_python:
        t = time.time()
        acc = [r for r in recs if r.impl[0] == "OK"]
        for r, o in zip(acc, run_python([r.impl[1] for r in acc])):
            r.py = o
        log(f"python runs: {len(acc)} in {time.time() - t:.1f}s")


def canonical(r, cause):
    d = dict(r.desc)
    return case_text(d, cause) + (f" CASE:{r.corpus['name']}" if r.corpus else "")


def replay_payload(r, what):
    return {"what": what, "origin": r.origin, "mutation": r.desc, "source": r.src,
            "specification": {"conforms": r.spec, "why": r.spec_why},
            "implementation": {"status": r.impl[0], "detail": r.impl[1][:1500] if r.impl[0] != "OK" else "(python text omitted)"},
            "model": None if r.model is None else {"check_noq": r.model[0], "check_impl_quirks": r.model[1]},
            "python": r.py}


def judge_verdicts(ck, recs, prop):
    """direct oracle (implementation vs declarative specification), correspondence (implementation vs model with the
    implementation's quirks), self-consistency (python Spec vs Coq check noq).  Returns counters."""
    n = {"agree": 0, "accepted_nonconforming": 0, "rejected_conforming": 0, "corr_ok": 0, "corr_bad": 0,
         "spec_vs_coq_bad": 0, "not_type_stage": 0}
    corr_bad, self_bad = [], []
    for r in recs:
        acc = r.impl[0] == "OK"
        if r.impl[0] not in ("OK", "ERR"):
            p = ck.write_replay("crash", replay_payload(r, "the checker crashed"))
            ck.violation("implementation crashed: " + r.impl[0], p, canonical(r, "crash:" + r.impl[0]))
            continue
        if r.impl[0] == "ERR" and not r.impl[1].startswith("type"):
            n["not_type_stage"] += 1     # a generated program must at least parse: the generator is at fault
            corr_bad.append((r.origin, "rejected before the type stage: " + r.impl[1][:200]))
            continue
        explained = False
        if acc and not r.spec:
            n["accepted_nonconforming"] += 1
            p = ck.write_replay("accepted", replay_payload(r, "non-conforming use accepted"))
            explained = not ck.violation("non-conforming program accepted", p, canonical(r, "accepted-nonconforming"))
        elif (not acc) and r.spec:
            n["rejected_conforming"] += 1
            cause = "rejected-conforming:" + normalise_diag(r.impl[1].split(": ", 1)[-1])
            p = ck.write_replay("rejected", replay_payload(r, "conforming program rejected"))
            explained = not ck.violation("conforming program rejected", p, canonical(r, cause))
        else:
            n["agree"] += 1
        if r.model is not None:
            if r.model[0] != r.spec:
                n["spec_vs_coq_bad"] += 1
                self_bad.append((r.origin, f"python Spec says {r.spec} ({r.spec_why}), Coq check noq says {r.model[0]}"))
            if r.model[1] == acc:
                n["corr_ok"] += 1
            elif not explained:
                n["corr_bad"] += 1
                corr_bad.append((r.origin, f"implementation {'accepts' if acc else 'rejects'}, model (impl quirks) says {r.model[1]}",
                                 r.src[:600]))
            else:
                n["corr_known"] = n.get("corr_known", 0) + 1
    if corr_bad:
        ck.broken.append({"kind": "correspondence", "where": "transpile verdict vs Typing.check (impl_quirks)",
                          "count": len(corr_bad), "examples": [list(x) for x in corr_bad[:3]]})
    if self_bad:
        ck.broken.append({"kind": "specification", "where": "python Spec vs Coq check noq (= conforms, C05_check_iff)",
                          "count": len(self_bad), "examples": [list(x) for x in self_bad[:3]]})
    return n


def judge_runs(ck, recs):
    """C04 direct oracle: an accepted program whose emitted Python raises one of the four exceptions"""
    n = {"ran": 0, "ok": 0, "wrong": 0, "other": 0, "timeout": 0}
    for r in recs:
        if r.py is None:
            continue
        n["ran"] += 1
        k = r.py[0]
        if k in GOES_WRONG:
            n["wrong"] += 1
            p = ck.write_replay("wrong", replay_payload(r, f"accepted program raises {k}: {r.py[1]}"))
            r.known = not ck.violation(f"accepted program raises {k}", p, canonical(r, k))
        elif k == "ok":
            n["ok"] += 1
        elif k == "timeout":
            n["timeout"] += 1
        else:
            n["other"] += 1
    return n


# ------------------------------------------------------------------------------------------------
# the driver shared by c05.py, c06.py, c04.py
# ------------------------------------------------------------------------------------------------
TRUSTED = [
    "Coq 8.16.1 kernel; vm_compute for the finite lemmas (witness programs, stubs_sound on the regenerated table) and for "
    "evaluating Typing.check on the generated cases; no axioms (Print Assumptions: Closed under the global context)",
    "model/Types.v (C20's model of Name::is_superset_of) as the subtyping relation; its tie is C20's",
    "translators translate/stubs.py (class table) and translate/stub_sigs.py (method signatures, operator -> dunder "
    "table, the shape of call_parameters); python3's ast for the stub files",
    "model/Typing.v is a hand model of generate/{call,definition,statement,operation,expression,control_flow}.rs + "
    "unify/{function,ty}.rs restricted to the mini-language: it does NOT model the unifier's substitution of "
    "syntactically equal expressions (hence the over-rejection findings are outside it), ConstrBuilder's branch sets, "
    "raises (C08), definite assignment (C09), mutability (C07), Any, generics, unions of several classes",
    "lib/vlib/typing_common.py: generator, mutation operators, renderers (Mamba text / Gallina term) and the python "
    "implementation Spec of the declarative relation (cross-checked against Coq's check noq on every case)",
    "the Rust harness `transpile` endpoint; python3 as the reference for run-time behaviour",
]


def _explained_by_acceptance_finding(r):
    import re
    from .common import load_findings
    try:
        text = canonical(r, "accepted-nonconforming")
    except Exception:
        return False
    for prop in ("C05", "C06"):
        for f in load_findings(prop):
            if f.get("match") and re.search(f["match"], text):
                return True
    return False


def run_check(pid, tier, replay, theorems, targets, module, kinds, profile, with_python, extra=None):
    import json, time
    from .common import Check, build_harness, coq_make
    ck = Check(pid, tier)
    quick = tier == "quick"
    ck.proof(targets, module, theorems, translators=["stubs", "stub_sigs"])
    ok, bad, out = coq_make(["model/Typing.vo", "gen/Stubs.vo", "gen/StubSigs.vo", "model/PyOps.vo", "proofs/StubsSound.vo"], ck.log)
    if not ok:
        ck.broken.append({"kind": "proof", "where": str(bad), "log": out[-800:]})
    build_harness(ck.log)
    judge_spec = pid in ("C05", "C06")
    if replay:
        data = json.load(open(replay))
        origin = data.get("origin", "replay")
        r = Rec(origin, data.get("mutation", {}), None, data["source"], data["specification"]["conforms"],
                data["specification"].get("why", ""),
                corpus={"name": origin.split(":", 1)[1]} if origin.startswith("corpus:") else None)
        recs, strat = [r], {}
        evaluate(recs, with_model=False, with_python=with_python, log=ck.log)
    else:
        # thorough: a stratified sample thirty times the quick one (every mutant of 150 programs is ~35k cases,
        # more than an hour of type checking: measured, not feasible as a routine tier)
        n_base, budget = (10, 100) if quick else (60, 3000)
        if pid == "C04" and quick:
            n_base, budget = 30, 70        # what matters for C04 are ACCEPTED programs: more conforming bases
        if pid == "C05" and quick:
            n_base, budget = 14, 220       # eight mutation kinds x site kinds x positions: more strata to hit
        recs, strat = build_cases(ck.rng, profile, kinds, n_base, budget, pid, all_mutants=False, log=ck.log)
        evaluate(recs, with_model=True, with_python=with_python, log=ck.log)
    runs = judge_runs(ck, recs) if with_python else None
    if judge_spec:
        n = judge_verdicts(ck, recs, pid)
    else:
        n = {"corr_ok": 0, "corr_bad": 0}
        bad_corr = []
        for r in recs:
            if r.model is None or r.impl[0] not in ("OK", "ERR"):
                continue
            if r.model[1] == (r.impl[0] == "OK"):
                n["corr_ok"] += 1
            elif r.impl[0] == "ERR" and r.spec and r.model[0]:
                # a CONFORMING program the implementation refuses: an over-rejection is C05's / C06's subject (their
                # oracle reports it); for C04 it only leaves the premise "accepted" unsatisfied.  The direction that
                # matters here - the implementation accepting what the model refuses - stays a broken tie.
                n["over_rejected_conforming"] = n.get("over_rejected_conforming", 0) + 1
                n.setdefault("over_rejected_examples", []).append(
                    [r.origin, normalise_diag(r.impl[1].split(": ", 1)[-1])])
            elif r.impl[0] == "OK" and _explained_by_acceptance_finding(r):
                # accepted although the model (and the specification) refuse it, in a class that C05 / C06 already record
                # as an acceptance defect (same canonical case text, same patterns): not a new disagreement
                n["corr_known"] = n.get("corr_known", 0) + 1
            elif r.known:
                # accepted, refused by the model, and the run-time oracle has attributed the case to a known finding
                # (a place where the implementation does not check what the model's rule asks for: D93, D94 ..)
                n["corr_known"] = n.get("corr_known", 0) + 1
            else:
                n["corr_bad"] += 1
                bad_corr.append((r.origin, f"implementation {r.impl[0]}, model (impl quirks) {r.model[1]}", r.src[:600]))
        if bad_corr:
            ck.broken.append({"kind": "correspondence", "where": "transpile verdict vs Typing.check (impl_quirks)",
                              "count": len(bad_corr), "examples": [list(x) for x in bad_corr[:3]]})
    if extra and not replay:
        extra(ck)
    positions = {}
    for r in recs:
        if r.origin.startswith("mutant"):
            positions[r.desc["position"]] = positions.get(r.desc["position"], 0) + 1
    muts = {}
    for r in recs:
        if r.origin.startswith("mutant"):
            k = r.desc["mutation"] + "@" + r.desc["site"]
            muts[k] = muts.get(k, 0) + 1
    nontriv = len({r.src for r in recs if r.origin.startswith("mutant") and "/" in r.desc.get("position", "")})
    sample = next((r for r in recs if r.origin.startswith("mutant") and r.desc.get("position", "").count("/") >= 2), recs[0])
    ck.cov.update({
        "evaluations": len(recs) + (runs["ran"] if runs else 0),
        "distinct_nontrivial": nontriv,
        "rule": "fixed corpus (one witness per known finding + sanity cases) + generated conforming programs (classes with "
                "typed fields / methods / optional parent, functions with defaults and raise, nullable types, every "
                "statement form of the mini-language) + single-point mutants chosen evenly over the strata (mutation kind, "
                "site kind, enclosing definition, innermost position); thorough: 3000 mutants of 60 programs, stratified; distinct by "
                "source text; non-trivial = mutant at a nested position (loop / branch / match arm / handle arm / "
                "nested call argument inside function, method or top level)",
        "verdicts": n, "runs": runs, "strata": strat, "mutants_by_position": positions, "mutants_by_kind": muts,
        "traces_validated_against_impl": n.get("corr_ok", 0),
        "samples": [{"origin": sample.origin, "mutation": sample.desc, "source": sample.src[:1200],
                     "spec_conforms": sample.spec, "implementation": sample.impl[0],
                     "model(noq, impl)": sample.model}],
        "exhaustive": False,
        "trusted_base": TRUSTED,
    })
    ck.assumptions += [
        "the Mamba rendering of a generated AST parses to the construct the Gallina rendering names (checked indirectly: "
        "every generated program must pass the parser, and the three verdicts are compared on every case)",
    ]
    return ck.finish()


# ------------------------------------------------------------------------------------------------
# generic types (tuples, Dict): outside the Coq model; a deterministic family of raw programs that put a VARIABLE of a
# declared type at every consuming position, judged by the structural rule below
# ------------------------------------------------------------------------------------------------
class G:
    """tuple / dict / core type with a nullable flag"""
    def __init__(self, kind, args=(), n=False):
        self.kind, self.args, self.n = kind, list(args), n      # kind: class name | "tuple" | "dict"

    def mamba(self):
        if self.kind == "tuple":
            s = "(" + ", ".join(a.mamba() for a in self.args) + ")"
        elif self.kind == "dict":
            s = "Dict[" + ", ".join(a.mamba() for a in self.args) + "]"
        else:
            s = self.kind
        return s + ("?" if self.n else "")

    def lit(self):
        if self.kind == "tuple":
            return "(" + ", ".join(a.lit() for a in self.args) + ")"
        if self.kind == "dict":
            return "{ " + self.args[0].lit() + " => " + self.args[1].lit() + " }"
        return {"Int": "1", "Str": '"a"', "Bool": "True", "Float": "2.5"}[self.kind]

    def tag(self):
        inner = "".join(a.tag() for a in self.args)
        base = {"tuple": "T", "dict": "D"}.get(self.kind, self.kind[0])
        return base + (inner + "e" if self.args else "") + ("n" if self.n else "")


def g_assignable(T, t):
    """t may be used where T is declared: same constructor and arity, elements assignable; T? accepts T and None;
    Int <: Float for plain classes; Dict arguments must be equal"""
    if t.n and not T.n:
        return False
    if T.kind != t.kind or len(T.args) != len(t.args):
        return T.kind == "Float" and t.kind == "Int" and not T.args and not t.args
    if T.kind == "dict":
        return all(a.mamba() == b.mamba() for a, b in zip(T.args, t.args))
    return all(g_assignable(a, b) for a, b in zip(T.args, t.args))


def generic_family():
    """[(name, source, conforming, props, desc)]"""
    I, S = G("Int"), G("Str")
    tup = lambda *a, n=False: G("tuple", a, n)
    dic = lambda k, v: G("dict", [k, v])
    pairs = [  # (expected, actual, tag of the mutation, property)
        (tup(I, I), tup(I, I), "same", "C05"),
        (tup(I, I), tup(S, I), "elem-first", "C05"),
        (tup(I, I), tup(I, S), "elem-last", "C05"),
        (tup(I, I, I), tup(S, I, I), "elem-first", "C05"),
        (tup(I, I, I), tup(I, S, I), "elem-middle", "C05"),
        (tup(I, I, I), tup(I, I, S), "elem-last", "C05"),
        (tup(I, I), tup(I, I, I), "arity-more", "C05"),
        (tup(I, I, I), tup(I, I), "arity-less", "C05"),
        (dic(I, I), dic(I, I), "same", "C05"),
        (dic(I, I), dic(S, I), "elem-first", "C05"),
        (dic(I, I), dic(I, S), "elem-last", "C05"),
        (tup(I, I), tup(I, I, n=True), "nullable", "C06"),
        (tup(I, I, n=True), tup(I, I), "into-nullable", "C06"),
        (tup(S, I), tup(S, I, n=True), "nullable", "C06"),
        (tup(I, I), tup(I, G("Int", n=True)), "nullable-elem-last", "C06"),
        (tup(I, I), tup(G("Int", n=True), I), "nullable-elem-first", "C06"),
    ]
    out = []
    for T, t, tag, prop in pairs:
        ok = g_assignable(T, t)
        tv = f"def fin t: {t.mamba()} := " + ("None" if t.n else t.lit()) + "\n"
        progs = {
            "init": tv + f"def fin u: {T.mamba()} := t\n",
            "funarg": f"def f(p: {T.mamba()}) -> Int =>\n    return 1\n" + tv + "print(f(t))\n",
            "arg": f"class K(def a: Int)\n    def m(self, p: {T.mamba()}) -> Int =>\n        return self.a\n" + tv
                   + "def fin k := K(1)\nprint(k.m(t))\n",
            "ret": f"def g(p: {t.mamba()}) -> {T.mamba()} =>\n    return p\n",
            "assign": tv + f"def u: {T.mamba()} := " + ("None" if T.n else T.lit()) + "\nu := t\n",
            "setfield": f"class K(def f: {T.mamba()})\n" + tv + f"def k := K({T.lit()})\nk.f := t\n",
        }
        for pos, src in progs.items():
            if T.n and pos in ("funarg", "setfield"):
                continue      # a T? formal of a function / constructor is D67's subject
            name = f"generic-{pos}-{T.tag()}-from-{t.tag()}"
            out.append({"name": name, "spec": "conforming" if ok else "nonconforming", "props": {prop, "C04"} if ok else {prop},
                        "prog": None, "src": src,
                        "desc": {"site": pos, "mutation": "generic-" + tag, "position": "fun" if pos == "ret" else "top",
                                 "expected": T.mamba(), "got": t.mamba()},
                        "expect_wrong": None, "note": "generic types are outside the model; judged by g_assignable"})
    return out
