"""C15 - renaming user identifiers commutes with transpilation.

proof        : props/C15.v over model/Convert.v: conv/gen are equivariant under every injective renaming that
               fixes Rename.reserved (all node kinds, classes included); reserved is exact (C15_reserved_needed);
               refuted outside it: size (D14), built-in spellings, import capture (D20), union member order
tie          : names table regenerated; `gen` correspondence (typed AST -> Core) on the ORIGINAL and the RENAMED
               programs; and the statement of the theorem replayed on the implementation: typed AST of the renamed
               source == ren_ast(typed AST of the source), Core of the renamed source == ren_core(Core of the source)
direct oracle: metamorphic through `transpile` (both flags): source renamed at token level (identifier tokens
               outside strings/comments, inside {..} interpolations) by injective maps of the user-chosen names into
               (a) fresh ordinary names, (b) names the generator emits or special-cases; same verdict, and
               python-ast(out(renamed)) == rename(python-ast(out(original))); plus a static capture check: a name
               the generator introduced must not resolve to a user binding in the renamed output
"""
import ast, collections, glob, json, os, re

import time

from .common import Check, build_driver, build_harness, coq_eval, hexs, unhex, run_sharded, MH, REPO, COQ
from . import convcorr, gen

# names the generator emits, imports or special-cases (the pool of the property text, plus two more)
SPECIAL = ["size", "init", "super", "math", "typing", "Optional", "ABC", "Union", "list", "set", "range", "slice",
           "Any", "Tuple", "str", "int", "isinstance", "NewType"]
# names the language documents as special, or provides: never renamed, never a target
NEVER = {"self", "__init__", "_", "True", "False", "None", "print", "undefined"}


def coq_reserved():
    """The list Rename.reserved, evaluated by Coq on the regenerated name tables (cached by content)."""
    import hashlib
    from .common import CACHE
    h = hashlib.sha256()
    for f in ("gen/Names.v", "model/Rename.v", "model/Core.v"):
        h.update(open(os.path.join(COQ, f), "rb").read())
    cf = os.path.join(CACHE, "c15_reserved.json")
    try:
        d = json.load(open(cf))
        if d.get("key") == h.hexdigest():
            return d["reserved"]
    except (OSError, ValueError):
        pass
    r = coq_eval(["model.Rename"], ["reserved"])[0] or ""
    res = sorted(set(re.findall(r'"([^"]*)"', r)))
    json.dump({"key": h.hexdigest(), "reserved": res}, open(cf, "w"))
    return res


def builtin_type_names():
    """Mamba spellings of the built-in classes (first column of gen/Names.v py_names)."""
    txt = open(os.path.join(COQ, "gen", "Names.v")).read()
    m = re.search(r"Definition py_names.*?:=\s*\[(.*?)\]\.", txt, re.S)
    return set(re.findall(r'\("(\w+)",\s*"\w+"\)', m.group(1))) if m else set()


# ---------------------------------------------------------------------------------------------------
# Mamba tokens (mirrors src/parse/lex/tokenize.rs as far as renaming needs it)
# ---------------------------------------------------------------------------------------------------

def keywords():
    txt = open(os.path.join(REPO, "src/parse/lex/tokenize.rs"), encoding="utf-8").read()
    m = re.search(r"fn as_op_or_id\(.*?\n\}", txt, re.S)
    kws = set(re.findall(r'"(\w+)"\s*=>\s*Token::', m.group(0) if m else txt))
    return kws or {"def", "class", "if", "else", "then", "for", "in", "while", "do", "match", "return", "type",
                   "import", "from", "as", "with", "handle", "raise", "when", "pass", "fin", "pure", "and", "or",
                   "not", "is", "isa", "mod", "sqrt", "break", "continue", "forward", "vararg", "_and_", "_or_",
                   "_xor_", "_not_"}


_NUM = re.compile(r"[0-9]+(?:\.(?!\.)[0-9]*)?(?:E[0-9]*)?")
_ID = re.compile(r"[A-Za-z_][A-Za-z0-9_]*")


def tokens(src):
    """[(kind, text)] with kinds id, num, str, comment, nl, ws, op; concatenating the texts gives src back."""
    out, i, n = [], 0, len(src)
    while i < n:
        c = src[i]
        if c == "#":
            j = i
            while j < n and src[j] not in "\r\n":
                j += 1
            out.append(("comment", src[i:j])); i = j
        elif c == '"':
            j, depth, bs = i + 1, 0, False
            while j < n:
                d = src[j]
                if not bs and depth == 0 and d == '"':
                    break
                if not bs:
                    if d == "{":
                        depth += 1
                    elif d == "}":
                        depth -= 1
                bs = d == "\\"
                j += 1
            out.append(("str", src[i:j + 1])); i = j + 1
        elif c.isdigit():
            m = _NUM.match(src, i)
            out.append(("num", m.group(0))); i = m.end()
        elif c.isalpha() and c.isascii() or c == "_":
            m = _ID.match(src, i)
            out.append(("id", m.group(0))); i = m.end()
        elif c == "\n":
            out.append(("nl", c)); i += 1
        elif c in " \t\r":
            out.append(("ws", c)); i += 1
        else:
            out.append(("op", c)); i += 1
    return out


def rename_string(lit, m):
    """A string literal token (with its quotes): rename inside the {..} interpolations only."""
    body, closed = (lit[1:-1], True) if len(lit) >= 2 and lit.endswith('"') else (lit[1:], False)
    out, depth, bs, expr = [], 0, False, []
    for d in body:
        if not bs and d == "{":
            if depth == 0:
                out.append(d)
            else:
                expr.append(d)
            depth += 1
        elif not bs and d == "}":
            depth -= 1
            if depth == 0:
                out.append(rename_source("".join(expr), m)); expr = []
                out.append(d)
            elif depth > 0:
                expr.append(d)
            else:
                depth = 0
                out.append(d)
        elif depth > 0:
            expr.append(d)
        else:
            out.append(d)
        bs = d == "\\"
    out.append("".join(expr))
    return '"' + "".join(out) + ('"' if closed else "")


def rename_source(src, m):
    out = []
    for k, t in tokens(src):
        if k == "id":
            out.append(m.get(t, t))
        elif k == "str":
            out.append(rename_string(t, m))
        else:
            out.append(t)
    return "".join(out)


def source_ids(src):
    """Identifier tokens of a source, those inside interpolations included."""
    ids = set()
    for k, t in tokens(src):
        if k == "id":
            ids.add(t)
        elif k == "str":
            depth, bs, expr = 0, False, []
            for d in t[1:-1]:
                if not bs and d == "{":
                    depth += 1
                    if depth == 1:
                        continue
                elif not bs and d == "}":
                    depth -= 1
                    if depth == 0:
                        ids |= source_ids("".join(expr)); expr = []
                        continue
                if depth > 0:
                    expr.append(d)
                bs = d == "\\"
    return ids


_STUBS = None


def stub_members():
    """Names of methods, fields and functions of the built-in stub classes (never user-chosen)."""
    global _STUBS
    if _STUBS is None:
        names = set()
        for f in glob.glob(os.path.join(REPO, "src/check/resource/**/*.py"), recursive=True):
            try:
                for n in ast.walk(ast.parse(open(f).read())):
                    if isinstance(n, (ast.FunctionDef, ast.ClassDef)):
                        names.add(n.name)
                    elif isinstance(n, ast.AnnAssign) and isinstance(n.target, ast.Name):
                        names.add(n.target.id)
            except SyntaxError:
                pass
        _STUBS = names
    return _STUBS


def user_names(src, kws):
    """The user-chosen names of a program: names with a definition site (variables, parameters, functions,
    classes, fields, methods, loop/lambda/match/handle binders), minus imported names, documented-special names and
    names that are also members of built-in classes used through `.`."""
    toks = [(k, t) for k, t in tokens(src) if k not in ("ws", "comment")]
    defs, imported, dotted = set(), set(), set()
    n = len(toks)

    def is_id(j):
        return j < n and toks[j][0] == "id" and toks[j][1] not in kws

    def params(j):
        """toks[j] is '(' : parameter-like group; names are ids at depth 1 right after '(' or ',' (skipping
        def/fin/vararg).  Returns the index after the matching ')'."""
        depth, expect = 0, False
        while j < n:
            k, t = toks[j]
            if t in "([{" and k == "op":
                depth += 1
                expect = depth == 1 and t == "("
            elif t in ")]}" and k == "op":
                depth -= 1
                if depth == 0:
                    return j + 1
                expect = False
            elif depth == 1 and t == "," and k == "op":
                expect = True
            elif expect and k == "id" and t in ("def", "fin", "vararg"):
                pass
            elif expect and is_id(j):
                defs.add(t); expect = False
            elif k != "nl":
                expect = False
            j += 1
        return j

    line_start = True
    j = 0
    while j < n:
        k, t = toks[j]
        if k == "nl":
            line_start = True; j += 1; continue
        if line_start and k == "id" and t in ("import", "from"):
            while j < n and toks[j][0] != "nl":
                if is_id(j):
                    imported.add(toks[j][1])
                j += 1
            continue
        if k == "op" and t == "." and is_id(j + 1):
            dotted.add(toks[j + 1][1])
        if k == "id" and t == "def":
            q = j + 1
            while q < n and toks[q][1] in ("fin", "pure", "forward"):
                q += 1
            if is_id(q):
                defs.add(toks[q][1])
                if q + 1 < n and toks[q + 1] == ("op", "("):
                    params(q + 1)
            elif q < n and toks[q] == ("op", "("):
                params(q)
        elif k == "id" and t in ("class", "type") and is_id(j + 1):
            defs.add(toks[j + 1][1])
            if j + 2 < n and toks[j + 2] == ("op", "("):
                params(j + 2)
        elif k == "id" and t == "for":
            q = j + 1
            while q < n and toks[q][1] != "in" and toks[q][0] != "nl":
                if is_id(q):
                    defs.add(toks[q][1])
                q += 1
        elif k == "op" and t == "\\":
            q, expect = j + 1, True
            while q < n and not (toks[q][1] == "=" and q + 1 < n and toks[q + 1][1] == ">") and toks[q][0] != "nl":
                if expect and is_id(q):
                    defs.add(toks[q][1]); expect = False
                elif toks[q][1] == ",":
                    expect = True
                q += 1
        elif k == "id" and t == "as" and is_id(j + 1):
            defs.add(toks[j + 1][1])
        elif is_id(j) and j + 1 < n and toks[j + 1][1] == "in" and j > 0 and toks[j - 1][1] in ("|", ","):
            defs.add(t)
        elif line_start and is_id(j):
            # match arm `n => ..` and handle arm `err: E => ..`
            if j + 2 < n and toks[j + 1][1] == "=" and toks[j + 2][1] == ">":
                defs.add(t)
            elif j + 1 < n and toks[j + 1][1] == ":":
                q = j + 2
                while q < n and toks[q][0] != "nl" and not (toks[q][1] == "=" and q + 1 < n and toks[q + 1][1] == ">"):
                    if toks[q][1] == "=" and q > 0 and toks[q - 1][1] == ":":
                        break
                    q += 1
                if q + 1 < n and toks[q][1] == "=" and toks[q + 1][1] == ">" and not (toks[q - 1][1] == ":"):
                    defs.add(t)
        line_start = False
        j += 1
    amb = {d for d in defs if d in stub_members() and d in dotted}
    return sorted(d for d in defs - imported - NEVER - amb if not (d.startswith("__") and d.endswith("__")))


# ---------------------------------------------------------------------------------------------------
# Python side
# ---------------------------------------------------------------------------------------------------

class _PyRen(ast.NodeTransformer):
    def __init__(self, m):
        self.m = m

    def r(self, s):
        return self.m.get(s, s) if isinstance(s, str) else s

    def visit_Name(self, n):
        n.id = self.r(n.id); return n

    def visit_arg(self, n):
        self.generic_visit(n); n.arg = self.r(n.arg); return n

    def visit_FunctionDef(self, n):
        self.generic_visit(n); n.name = self.r(n.name); return n

    visit_AsyncFunctionDef = visit_FunctionDef

    def visit_ClassDef(self, n):
        self.generic_visit(n); n.name = self.r(n.name); return n

    def visit_Attribute(self, n):
        self.generic_visit(n); n.attr = self.r(n.attr); return n

    def visit_keyword(self, n):
        self.generic_visit(n); n.arg = self.r(n.arg); return n

    def visit_ExceptHandler(self, n):
        self.generic_visit(n); n.name = self.r(n.name); return n

    def visit_Global(self, n):
        n.names = [self.r(x) for x in n.names]; return n

    visit_Nonlocal = visit_Global

    def visit_MatchAs(self, n):
        self.generic_visit(n); n.name = self.r(n.name); return n

    def visit_MatchStar(self, n):
        n.name = self.r(n.name); return n

    def visit_MatchMapping(self, n):
        self.generic_visit(n); n.rest = self.r(n.rest); return n

    def visit_MatchClass(self, n):
        self.generic_visit(n); n.kwd_attrs = [self.r(x) for x in n.kwd_attrs]; return n

    def visit_Call(self, n):
        # the alias string of the generator's NewType("Name", T)
        if (isinstance(n.func, ast.Name) and n.func.id == "NewType" and n.args
                and isinstance(n.args[0], ast.Constant) and isinstance(n.args[0].value, str)):
            n.args[0] = ast.Constant(value=self.r(n.args[0].value))
        self.generic_visit(n); return n


def py_parse(text):
    try:
        return ast.parse(text)
    except (SyntaxError, ValueError, RecursionError):
        return None


def dump(t):
    return ast.dump(t, annotate_fields=False)


class _SortUnion(ast.NodeTransformer):
    """Union[..] arguments in a canonical order (typing.Union is order-insensitive).  With a renaming, the order is
    that of the RENAMED arguments (the tree itself is not renamed), so that the result lines up with the sorted
    output of the renamed program."""

    def __init__(self, m=None):
        self.m = m

    def key(self, e):
        if self.m:
            import copy
            return dump(_PyRen(self.m).visit(copy.deepcopy(e)))
        return dump(e)

    def visit_Subscript(self, n):
        self.generic_visit(n)
        if isinstance(n.value, ast.Name) and n.value.id == "Union" and isinstance(n.slice, ast.Tuple):
            n.slice.elts = sorted(n.slice.elts, key=self.key)
        return n


def py_ids(t):
    c = collections.Counter()
    for n in ast.walk(t):
        for f in ("id", "arg", "name", "attr"):
            v = getattr(n, f, None)
            if isinstance(v, str):
                c[v] += 1
    return c


# ---- static scopes of the emitted module (for the capture check) ---------------------------------------

class _Scope:
    def __init__(self, kind, parent):
        self.kind, self.parent, self.binds = kind, parent, collections.defaultdict(set)


def _targets(t, acc):
    if isinstance(t, ast.Name):
        acc.append(t.id)
    elif isinstance(t, (ast.Tuple, ast.List)):
        for e in t.elts:
            _targets(e, acc)
    elif isinstance(t, ast.Starred):
        _targets(t.value, acc)


def scopes(tree):
    """Returns [(Name node, scope)] in traversal order and the list of scopes."""
    occ, all_scopes = [], []

    def new(kind, parent):
        s = _Scope(kind, parent); all_scopes.append(s); return s

    def bind(s, name, kind):
        if isinstance(name, str):
            s.binds[name].add(kind)

    def visit(n, s):
        if isinstance(n, (ast.FunctionDef, ast.AsyncFunctionDef)):
            bind(s, n.name, "user")
            for d in n.decorator_list:
                visit(d, s)
            a = n.args
            for x in a.defaults + a.kw_defaults:
                if x is not None:
                    visit(x, s)
            for x in a.posonlyargs + a.args + a.kwonlyargs + [a.vararg, a.kwarg]:
                if x is not None and x.annotation is not None:
                    visit(x.annotation, s)
            if n.returns is not None:
                visit(n.returns, s)
            f = new("function", s)
            for x in a.posonlyargs + a.args + a.kwonlyargs + [a.vararg, a.kwarg]:
                if x is not None:
                    bind(f, x.arg, "user")
            for b in n.body:
                visit(b, f)
        elif isinstance(n, ast.Lambda):
            f = new("function", s)
            a = n.args
            for x in a.posonlyargs + a.args + a.kwonlyargs + [a.vararg, a.kwarg]:
                if x is not None:
                    bind(f, x.arg, "user")
            visit(n.body, f)
        elif isinstance(n, ast.ClassDef):
            bind(s, n.name, "user")
            for x in n.bases + [k.value for k in n.keywords] + n.decorator_list:
                visit(x, s)
            c = new("class", s)
            for b in n.body:
                visit(b, c)
        elif isinstance(n, (ast.ListComp, ast.SetComp, ast.GeneratorExp, ast.DictComp)):
            f = new("function", s)
            for g in n.generators:
                visit(g.iter, f)
                acc = []; _targets(g.target, acc)
                for x in acc:
                    bind(f, x, "user")
                visit(g.target, f)
                for c in g.ifs:
                    visit(c, f)
            for x in ([n.key, n.value] if isinstance(n, ast.DictComp) else [n.elt]):
                visit(x, f)
        elif isinstance(n, (ast.Import, ast.ImportFrom)):
            for al in n.names:
                bind(s, (al.asname or al.name).split(".")[0], "import")
        else:
            if isinstance(n, (ast.Assign, ast.AnnAssign, ast.AugAssign, ast.For, ast.AsyncFor, ast.NamedExpr)):
                ts = n.targets if isinstance(n, ast.Assign) else [n.target]
                acc = []
                for t in ts:
                    _targets(t, acc)
                for x in acc:
                    bind(s, x, "user")
            elif isinstance(n, (ast.With, ast.AsyncWith)):
                acc = []
                for it in n.items:
                    if it.optional_vars is not None:
                        _targets(it.optional_vars, acc)
                for x in acc:
                    bind(s, x, "user")
            elif isinstance(n, ast.ExceptHandler):
                bind(s, n.name, "user")
            elif isinstance(n, (ast.MatchAs, ast.MatchStar)):
                bind(s, n.name, "user")
            elif isinstance(n, ast.Name):
                occ.append((n, s))
            for ch in ast.iter_child_nodes(n):
                visit(ch, s)

    visit(tree, new("module", None))
    return occ, all_scopes


def resolve(name, s):
    """Binding kinds of the scope a name occurrence resolves to (None: builtin / unbound)."""
    first = True
    while s is not None:
        if (first or s.kind != "class") and name in s.binds:
            return s.binds[name]
        first = False
        s = s.parent
    return None


def captures(py_orig, py_ren, src_ids, m):
    """Names the generator introduced (not spelled in the source) that resolve to a user binding in the output of
    the renamed program but not in the output of the original; and generator imports clashing with user bindings."""
    o1, s1 = scopes(py_orig)
    o2, s2 = scopes(py_ren)
    caught = set()
    if len(o1) == len(o2):
        for (n1, sc1), (n2, sc2) in zip(o1, o2):
            if n1.id in m or n1.id in src_ids or n1.id != n2.id:
                continue
            k1, k2 = resolve(n1.id, sc1) or set(), resolve(n2.id, sc2) or set()
            if "user" in k2 and "user" not in k1:
                caught.add(n2.id)
    clash1 = {(i, nm) for i, s in enumerate(s1) for nm, k in s.binds.items() if {"user", "import"} <= k}
    for i, s in enumerate(s2):
        for nm, k in s.binds.items():
            if {"user", "import"} <= k and (i, nm) not in clash1 and nm in m.values():
                caught.add(nm)
    return caught


# ---------------------------------------------------------------------------------------------------
# renaming the S-expressions of the typed AST and of Core (mirrors Rename.ren_ast / Rename.ren_core)
# ---------------------------------------------------------------------------------------------------

def sx_parse(text):
    toks = re.findall(r"[()\[\]]|[^\s()\[\]]+", text)
    pos = 0

    def val():
        nonlocal pos
        t = toks[pos]; pos += 1
        if t == "(":
            items = []
            while toks[pos] != ")":
                items.append(val())
            pos += 1
            return ("N", items)
        if t == "[":
            items = []
            while toks[pos] != "]":
                items.append(val())
            pos += 1
            return ("L", items)
        return t
    v = val()
    return v


def sx_str(v):
    if isinstance(v, str):
        return v
    k, items = v
    inner = " ".join(sx_str(x) for x in items)
    return f"({inner})" if k == "N" else f"[{inner}]"


def _rs(tok, f):
    """apply f to a `s:<hex>` token"""
    if isinstance(tok, str) and tok.startswith("s:"):
        return "s:" + hexs(f(unhex(tok[2:])))
    return tok


def sx_ren_ast(v, m):
    rho = lambda s: m.get(s, s)
    if isinstance(v, str):
        return v
    k, items = v
    if k == "L":
        return ("L", [sx_ren_ast(x, m) for x in items])
    head = items[0] if items and isinstance(items[0], str) else None
    rest = items[1:]
    if head == "TN":
        return ("N", ["TN", rest[0], _rs(rest[1], rho)] + [sx_ren_ast(x, m) for x in rest[2:]])
    if head == "NM":
        mem = sx_ren_ast(rest[0], m)
        # the checker hands union members over in name order: sort again after renaming
        return ("N", ["NM", ("L", sorted(mem[1], key=lambda t: (unhex(t[1][2][2:]), sx_str(t))))])
    if head in ("NId", "NCall", "NClass", "NParent", "NTypeDef", "NTypeAlias"):
        return ("N", [head, _rs(rest[0], rho)] + [sx_ren_ast(x, m) for x in rest[1:]])
    if head == "NStr":
        if rest[1] == "T":
            return ("N", [head, _rs(rest[0], lambda s: rename_string('"' + s + '"', m)[1:-1]), rest[1]])
        return v
    if head == "NImport":
        return ("N", [head, rest[0]] + [sx_ren_ast(x, m) for x in rest[1:]])
    if head in ("NInt", "NReal", "NENum", "NDocStr"):
        return v
    return ("N", [head] + [sx_ren_ast(x, m) for x in rest]) if head is not None else ("N", [sx_ren_ast(x, m) for x in items])


def sx_ren_core(v, m):
    rho = lambda s: m.get(s, s)
    if isinstance(v, str):
        return v
    k, items = v
    if k == "L":
        return ("L", [sx_ren_core(x, m) for x in items])
    head = items[0] if items and isinstance(items[0], str) else None
    rest = items[1:]
    if head in ("Id", "Type"):
        return ("N", [head, _rs(rest[0], rho)] + [sx_ren_core(x, m) for x in rest[1:]])
    if head == "FunDef":
        return ("N", [head, rest[0], _rs(rest[1], rho)] + [sx_ren_core(x, m) for x in rest[2:]])
    if head == "Import":
        return ("N", [head, rest[0]] + [sx_ren_core(x, m) for x in rest[1:]])
    if head == "FStr":
        return ("N", [head, _rs(rest[0], lambda s: rename_string('"' + s + '"', m)[1:-1])])
    if head in ("Str", "Int", "Float", "ENum", "DocStr"):
        return v
    if head == "FunctionCall":
        f, args = rest[0], rest[1]
        if (sx_str(f) == f"(Id s:{hexs('NewType')})" and args[1] and not isinstance(args[1][0], str)
                and args[1][0][1][0] == "Str"):
            first = ("N", ["Str", _rs(args[1][0][1][1], rho)])
            return ("N", [head, sx_ren_core(f, m), ("L", [first] + [sx_ren_core(x, m) for x in args[1][1:]])])
    return ("N", [head] + [sx_ren_core(x, m) for x in rest]) if head is not None else ("N", [sx_ren_core(x, m) for x in items])


def sx_sort_unions(v):
    """Core tree with the arguments of Type Union sorted (for comparing modulo union member order)."""
    if isinstance(v, str):
        return v
    k, items = v
    items = [sx_sort_unions(x) for x in items]
    if k == "N" and items and items[0] == "Type" and items[1] == "s:" + hexs("Union") and len(items) > 2:
        items[2] = ("L", sorted(items[2][1], key=sx_str))
    return (k, items)


# ---------------------------------------------------------------------------------------------------
# programs and renamings
# ---------------------------------------------------------------------------------------------------

POOL = ["alpha", "beta", "gamma", "delta", "kappa", "omega", "item", "count", "total", "value", "left", "right",
        "node", "acc", "idx", "flag", "name", "text", "num", "res", "tmp", "cur", "nxt", "prev", "head", "tail"]

ROLES = {
    "var": "def {n} := 3\nprint({n} + 1)\n",
    "fun": "def {n}(x: Int) -> Int => x + 1\nprint({n}(2))\n",
    "class": "class {n}\n    def v: Int := 1\ndef o := {n}()\nprint(o.v)\n",
    "field": "class K(def {n}: Int)\n    def get(self) -> Int => self.{n}\ndef o := K(2)\nprint(o.get())\nprint(o.{n})\n",
    "method": "class K\n    def v: Int := 1\n    def {n}(self) -> Int => self.v\ndef o := K()\nprint(o.{n}())\n",
    "param": "def f({n}: Int) -> Int => {n} + 1\nprint(f(2))\n",
}
# statements that make the generator emit names of its own
CONTEXT = ("def cq: Int? := None\n"
           "def cl: List[Int] := [1, 2]\n"
           "def cs: Str := \"s{cl}\"\n"
           "for ci in 0 .. 2 do print(ci)\n"
           "print(sqrt 4)\n")
EXTRA = [
    "class Ab\n    def x: Int := 1\nclass Bc\n    def y: Int := 1\ndef v: {Ab, Bc} := Ab()\n",
    "type Meters: Int\ndef m: Meters := 3\n",
    "def size() -> Int => 3\nprint(size())\n",
    "class Kc\n    def n: Int := 0\n    def size(self) -> Int => self.n\ndef o := Kc()\nprint(o.size())\n",
    "def f(x: Int) -> Int => x\ndef g(x: Int) -> Int =>\n    def x := f(x) + 1\n    x\nprint(g(1))\n",
    "def total := 0\nfor idx in 0 .. 3 do total := total + idx\nprint(\"t={total}\")\n",
]
# names that resemble names the tool chain could coin itself (suffixes, prefixes, substrings of one another), next to
# shadowing, interpolation and constructor forwarding - the places where a name is taken apart or put together
def _name_shape_programs():
    out = []
    for b, sib in (("x", "x_1"), ("v", "v_2"), ("a", "a1"), ("n", "_n"), ("t", "t__1"), ("w", "w_0"), ("k", "k@".replace("@", "_1_"))):
        out.append(f"def {b} := 10\ndef {sib} := \"hello\"\ndef {b} := 2.5\ndef y: Str := {sib}\nprint({b})\nprint(y)\n")
        out.append(f"def f({b}: Int, {sib}: Str) -> Str =>\n    def {b} := \"s\"\n    def {b} := {sib}\n    {b}\nprint(f(1, \"q\"))\n")
    for short, long_ in (("name", "nickname"), ("id", "idx"), ("a", "ab"), ("tag", "tags")):
        out.append(f"class Base(def label: Str)\n    def show(self) -> Str => self.label\n"
                   f"class Item(def {short}: Str, def {long_}: Str): Base(\"<{{{long_}}}>\")\n"
                   f"def i := Item(\"p\", \"q\")\nprint(i.{short})\nprint(i.show())\n")
        out.append(f"def {short} := \"p\"\ndef {long_} := \"q\"\nprint(\"{{{long_}}} and {{{short}}}\")\n")
    return out


EXTRA += _name_shape_programs()


class Pair:
    __slots__ = ("src", "kind", "family", "map", "rsrc", "tag")

    def __init__(self, src, kind, family, m, tag=""):
        self.src, self.kind, self.family, self.map, self.tag = src, kind, family, m, tag
        self.rsrc = rename_source(src, m)


def fresh_map(names, rng, taken):
    out, used = {}, set(taken) | set(names)
    for i, nm in enumerate(names):
        base = rng.choice(["ren", "zq", "w", "my"]) + "_" + rng.choice(["a", "b", "kx", "val"])
        cand, k = f"{base}{i}", 0
        while cand in used:
            k += 1; cand = f"{base}{i}_{k}"
        if nm[:1].isupper():
            cand = cand.capitalize()
        used.add(cand); out[nm] = cand
    return out


def build_pairs(rng, kws, quick, replay=None):
    pairs = []
    if replay:
        d = json.load(open(replay))
        return [Pair(d["input"], "replay", d.get("family", "replay"), d.get("map", {}))]
    progs = []
    feats = gen.DEFAULT_FEATURES
    for i in range(24 if quick else 200):
        names = list(POOL); rng.shuffle(names)
        progs.append((gen.program(rng, size=rng.randint(2, 8), features=feats, names=names), "generated"))
    for i in range(4 if quick else 40):
        progs.append((gen.program(rng, size=rng.randint(2, 8), features=feats), "generated"))
    progs += [(s, "extra") for s in convcorr.EXTRA + EXTRA]
    progs += [(s, "sample") for s in convcorr.sample_sources()]
    for src, kind in progs:
        ids = source_ids(src)
        U = user_names(src, kws)
        if not U:
            continue
        pairs.append(Pair(src, kind, "fresh", fresh_map(U, rng, ids)))
        cands = [s for s in SPECIAL if s not in ids]
        if not cands:
            continue
        # (b1) one user name onto one special name, the rest untouched
        for _ in range((1 if (not quick or rng.random() < 0.5) else 0) if kind == "sample" else 2):
            u, t = rng.choice(U), rng.choice(cands)
            pairs.append(Pair(src, kind, "single", {u: t}))
        # (b2) as many names as possible onto distinct special names, the rest fresh
        if (kind != "sample" and (not quick or rng.random() < 0.5)) or (kind == "sample" and not quick and rng.random() < 0.5):
            us = list(U); rng.shuffle(us)
            ts = list(cands); rng.shuffle(ts)
            m = dict(zip(us, ts))
            m.update(fresh_map([u for u in us if u not in m], rng, ids | set(ts)))
            pairs.append(Pair(src, kind, "pool", m))
    # the matrix: every special name in every role, next to statements that make the generator emit its own names
    for role, tpl in ROLES.items():
        for t in SPECIAL:
            pairs.append(Pair(tpl.format(n="zz9") + CONTEXT, "matrix", "single", {"zz9": t}, tag=role))
    return pairs


def invalid_sources():
    out = []
    for f in sorted(glob.glob(os.path.join(REPO, "tests/resource/invalid/type/**/*.mamba"), recursive=True)):
        try:
            out.append(open(f, encoding="utf-8").read())
        except Exception:
            pass
    return out


# ---------------------------------------------------------------------------------------------------
# the check
# ---------------------------------------------------------------------------------------------------

def transpile_all(srcs):
    """{(src, ann): fields}"""
    uniq = sorted(set(srcs))
    res = {}
    for a in "01":
        r = run_sharded(MH, [f"t{i}\ttranspile\t{a}\t{hexs(s)}" for i, s in enumerate(uniq)])
        for i, s in enumerate(uniq):
            res[(s, a)] = r.get(f"t{i}", ["MISSING"])
    return res


def judge(p, tr, special_targets):
    """Compare the pair under both flags.  Returns a list of failures (kind, annotate, detail, names)."""
    fails = []
    src_ids = source_ids(p.src)
    for a in "01":
        r0, r1 = tr[(p.src, a)], tr[(p.rsrc, a)]
        ok0, ok1 = r0[0] == "OK", r1[0] == "OK"
        if r0[0] in ("PANIC", "CRASH", "MISSING") or r1[0] in ("PANIC", "CRASH", "MISSING"):
            if r0[0] != r1[0]:
                fails.append(("verdict", a, f"{r0[0]} -> {r1[0]}", set()))
            continue
        if ok0 != ok1:
            msg = unhex(r1[-1])[:160] if not ok1 else unhex(r0[-1])[:160]
            fails.append(("verdict", a, f"{'accepted' if ok0 else 'rejected:' + r0[1]} -> "
                                        f"{'accepted' if ok1 else 'rejected:' + r1[1]} | {msg}", set()))
            continue
        if not ok0:
            continue
        t0, t1 = py_parse(unhex(r0[1])), py_parse(unhex(r1[1]))
        if t0 is None or t1 is None:
            if (t0 is None) != (t1 is None):
                fails.append(("output", a, "one output parses as Python, the other does not", set()))
            continue
        d1 = dump(t1)
        t0r = _PyRen(p.map).visit(ast.parse(unhex(r0[1])))
        if dump(t0r) != d1:
            if dump(_SortUnion().visit(t0r)) == dump(_SortUnion().visit(ast.parse(unhex(r1[1])))):
                fails.append(("union-order", a, "Union[..] members in a different order", set()))
                # the two outputs correspond node by node once the members are put in one order: go on to the
                # capture check on the reordered trees
                t0, t1 = _SortUnion(p.map).visit(t0), _SortUnion().visit(t1)
            else:
                c0, c1 = py_ids(t0r), py_ids(t1)
                names = {k for k in set(c0) | set(c1) if c0[k] != c1[k]}
                fails.append(("output", a, "identifiers that differ: " + " ".join(sorted(names)), names))
                continue
        cap = captures(t0, t1, src_ids, p.map)
        if cap:
            fails.append(("capture", a, "generator-introduced name bound by the user: " + " ".join(sorted(cap)), cap))
    return fails


def selftest():
    """The oracle on hand-made good and bad outputs (so that a silent oracle is noticed)."""
    bad = []

    def expect(name, got, want):
        if got != want:
            bad.append(f"{name}: got {got!r}, expected {want!r}")

    m = {"a": "b"}
    expect("renamer", rename_source('def a := "x {a + 1} y a" # a\nprint(a.a)\n', m),
           'def b := "x {b + 1} y a" # a\nprint(b.b)\n')
    expect("user names", user_names("class K(def f: Int)\n    def m(self, q: Int) -> Int => q\ndef v := K(1)\n"
                                    "for i in 0 .. 2 do print(i)\n", keywords()), ["K", "f", "i", "m", "q", "v"])

    def kinds(src, mp, o0, o1):
        p = Pair(src, "selftest", "single", mp)
        ok = lambda o: ["OK", hexs(o)] if isinstance(o, str) else o
        tr = {(p.src, a): ok(o0) for a in "01"}
        tr.update({(p.rsrc, a): ok(o1) for a in "01"})
        return sorted({k for k, _, _, _ in judge(p, tr, SPECIAL)})

    s = "def a := 1\nprint(a)\n"
    expect("equal", kinds(s, m, "a = 1\nprint(a)\n", "b = 1\nprint(b)\n"), [])
    expect("output", kinds(s, m, "a = 1\nprint(a)\n", "b = 1\nprint(a)\n"), ["output"])
    expect("verdict", kinds(s, m, "a = 1\nprint(a)\n", ["ERR", "type", hexs("boom")]), ["verdict"])
    s2 = "def a := 5\nfor i in 0 .. 3 do print(i)\n"
    expect("capture", kinds(s2, {"a": "range"}, "a = 5\nfor i in range(0, 3, 1):\n    print(i)\n",
                            "range = 5\nfor i in range(0, 3, 1):\n    print(i)\n"), ["capture"])
    expect("no capture in another scope",
           kinds("def f(a: Int) -> Int => a\nfor i in 0 .. 3 do print(i)\n", {"a": "range"},
                 "def f(a):\n    return a\nfor i in range(0, 3, 1):\n    print(i)\n",
                 "def f(range):\n    return range\nfor i in range(0, 3, 1):\n    print(i)\n"), [])
    expect("import clash", kinds("def a := 3\nprint(sqrt 4)\n", {"a": "math"},
                                 "import math\na = 3\nprint(math.sqrt(4))\n",
                                 "import math\nmath = 3\nprint(math.sqrt(4))\n"), ["capture"])
    expect("union order", kinds("class Ab\nclass Bc\ndef v: {Ab, Bc} := Ab()\n", {"Ab": "Zb"},
                                "v: Union[Ab, Bc] = Ab()\n", "v: Union[Bc, Zb] = Zb()\n"), ["union-order"])
    expect("union order and capture", kinds("class Ab\nclass Bc\ndef v: {Ab, Bc} := Ab()\n", {"Ab": "int"},
                                            "class Ab:\n    x: int = 1\nclass Bc:\n    pass\nv: Union[Ab, Bc] = Ab()\n",
                                            "class int:\n    x: int = 1\nclass Bc:\n    pass\nv: Union[Bc, int] = int()\n"),
           ["capture", "union-order"])
    sx = "(A ~ (NCall s:%s [] [(A (NM [(TN F s:%s [])]) (NId s:%s))]))" % (hexs("f"), hexs("Int"), hexs("x"))
    expect("sx", sx_str(sx_ren_ast(sx_parse(sx), {"f": "g", "x": "y"})),
           "(A ~ (NCall s:%s [] [(A (NM [(TN F s:%s [])]) (NId s:%s))]))" % (hexs("g"), hexs("Int"), hexs("y")))
    return bad


def case_text(p, kind, detail, culprit):
    return (f"KIND:{kind}\nCULPRIT:{culprit}\nFAMILY:{p.family}\nDETAIL:{detail}\n"
            f"MAP:{','.join(f'{k}->{v}' for k, v in sorted(p.map.items()))}\nSRC:\n{p.src}")


def run(tier, replay=None):
    ck = Check("C15", tier)
    quick = tier == "quick"
    t0 = time.time()
    ck.proof(["props/C15.vo"], "props.C15",
             ["C15_conv_equivariant", "C15_conv_equivariant_value", "C15_imports_stay_fixed", "C15_gen_equivariant",
              "C15_verdict", "C15_reserved_needed", "C15_size_refuted", "C15_builtin_spelling_refuted",
              "C15_import_capture_refuted", "C15_union_order_refuted"], translators=["names"])
    build_driver(ck.log)
    build_harness(ck.log)
    reserved = set(coq_reserved())
    builtin_types = builtin_type_names()
    touchy = reserved | set(SPECIAL) | builtin_types
    ck.log(f"builds done after {time.time() - t0:.0f}s; reserved (from Coq): {len(reserved)} names")
    kws = keywords()
    st = selftest()
    if st:
        ck.broken.append({"kind": "oracle-selftest", "where": "lib/vlib/c15.py selftest", "examples": st[:5]})
    pairs = build_pairs(ck.rng, kws, quick, replay)
    inv = [] if replay else invalid_sources()
    inv_pairs = []
    for s in (inv[:40] if quick else inv):
        U = user_names(s, kws)
        if U:
            inv_pairs.append(Pair(s, "invalid-sample", "fresh", fresh_map(U, ck.rng, source_ids(s))))
    tr = transpile_all([p.src for p in pairs + inv_pairs] + [p.rsrc for p in pairs + inv_pairs])
    ck.log(f"{len(pairs)} renamings of {len(set(p.src for p in pairs))} programs, {len(inv_pairs)} rejected samples; "
           f"transpiled after {time.time() - t0:.0f}s")

    stats = collections.Counter()
    fail_classes = collections.Counter()
    failures = []          # (pair, kind, annotate, detail, names)
    nontrivial = set()

    def judge1(p):
        out, seen = [], set()
        for kind, a, detail, names in judge(p, tr, SPECIAL):
            if kind not in seen:      # one report per pair and kind (the two flags usually fail alike)
                seen.add(kind); out.append((p, kind, a, detail, names))
        return out

    for p in pairs + inv_pairs:
        stats["pairs:" + p.family] += 1
        if p.rsrc == p.src:
            stats["identity"] += 1
            continue
        if tr[(p.src, "1")][0] == "OK" and tr[(p.rsrc, "1")][0] == "OK":
            nontrivial.add((p.src, tuple(sorted(p.map.items()))))
            stats["accepted_pairs"] += 1
        elif tr[(p.src, "1")][0] == "ERR" and tr[(p.rsrc, "1")][0] == "ERR":
            stats["rejected_pairs"] += 1
        failures += judge1(p)

    # a failing renaming that moves several names is replaced by the failing renamings of ONE of its names
    # (the others untouched); if none of them fails it is reported as it is, as an interaction
    multi = [f for f in failures if len(f[0].map) > 1]
    singles = {}
    def implicated(p, kind, names):
        ent = [(u, t) for u, t in p.map.items() if u in touchy or t in touchy]
        if kind in ("output", "capture") and names:
            bare = {n.strip("_") for n in names} | set(names)
            hit = [(u, t) for u, t in ent if u in bare or t in bare]
            return hit or ent
        return ent

    for p, kind, a, detail, names in multi:
        for u, t in implicated(p, kind, names):
            singles[(p.src, u, t)] = Pair(p.src, p.kind, "single-of-" + p.family, {u: t})
    if singles:
        tr.update(transpile_all([q.rsrc for q in singles.values()]))
    final = [f for f in failures if len(f[0].map) <= 1]
    done = set()

    def minimise(p, kind):
        """Drop names from the renaming while a failure of this kind remains (no single name reproduced it)."""
        m, best = dict(p.map), None
        for u in sorted(p.map):
            if len(m) <= 1:
                break
            m2 = {k: v for k, v in m.items() if k != u}
            q = Pair(p.src, p.kind, "part-of-" + p.family, m2)
            if q.rsrc == p.src:
                continue
            tr.update(transpile_all([q.rsrc]))
            hit = [f for f in judge1(q) if f[1] == kind]
            if hit:
                m, best = m2, hit[0]
        return best

    for p, kind, a, detail, names in multi:
        found = False
        for u, t in p.map.items():
            q = singles.get((p.src, u, t))
            if q is None:
                continue
            for f in judge1(q):
                if f[1] == kind:
                    found = True
                    if (p.src, u, t, kind) not in done:
                        done.add((p.src, u, t, kind)); final.append(f)
        if not found:
            final.append(minimise(p, kind) or (p, kind, a, detail, names))
    ck.log(f"{len(failures)} failing pairs, {len(final)} after isolating single names; {time.time() - t0:.0f}s")

    def culprit_of(p, kind, names):
        """The reserved / special spellings the renaming touches; for output and capture failures those among them
        that are the identifiers that differ / are captured."""
        ent = {x for u, t in p.map.items() for x in (u, t) if x in touchy}
        if kind in ("output", "capture") and names:
            bare = {n.strip("_") for n in names} | set(names)
            ent = {x for x in ent if x in bare} or ent
        return " ".join(sorted(ent)) or "none"

    samples = []
    for p, kind, a, detail, names in final:
        culprit = culprit_of(p, kind, names)
        text = case_text(p, kind, detail, culprit)
        fail_classes[f"{kind}:{culprit}"] += 1
        o0, o1 = tr[(p.src, a)], tr[(p.rsrc, a)]
        rp = ck.write_replay(kind, {"input": p.src, "map": p.map, "family": p.family, "renamed": p.rsrc,
                                    "annotate": a, "what": kind, "detail": detail, "culprit": culprit,
                                    "out_original": unhex(o0[1]) if o0[0] == "OK" else o0[:2],
                                    "out_renamed": unhex(o1[1]) if o1[0] == "OK" else o1[:2]})
        new = ck.violation(f"{kind} changes under renaming ({culprit})", rp, text)
        if not new:
            try:
                os.remove(rp)     # known findings keep their witness in known_findings.json
            except OSError:
                pass
        elif len(samples) < 5:
            samples.append({"what": kind, "culprit": culprit, "detail": detail, "map": p.map, "source": p.src[:300]})

    # ---- the tie: model vs implementation on original and renamed programs; the theorem's equation on the
    #      implementation's own typed ASTs and Core trees
    corr_pairs = [p for p in pairs if (p.family in ("fresh", "single") or p.kind == "replay") and p.rsrc != p.src]
    if quick:
        corr_pairs = [p for k, p in enumerate(corr_pairs) if p.kind != "sample" or (p.family == "fresh" and k % 2 == 0)]
    cases = {}
    for p in corr_pairs:
        for s in (p.src, p.rsrc):
            if s not in cases:
                cases[s] = convcorr.Case(s, p.kind)
    convcorr.run(list(cases.values()))
    msum = convcorr.summary(list(cases.values()))
    # a user class spelled like a built-in class: astsx.py reads `has_abstract_parent` from a class table keyed by
    # name, which is then ambiguous; those programs are not compared (they are finding D45 anyway)
    shadow = {s for s in cases if set(user_names(s, kws)) & builtin_types}
    corr_bad = [(c.src, a, c.note.get(a, "")) for c in cases.values() for a in "01"
                if c.status.get(a) == "disagree" and c.src not in shadow]
    if corr_bad:
        ck.broken.append({"kind": "correspondence", "where": "gen endpoint: Convert.conv vs generate::convert "
                          "(original and renamed programs)", "count": len(corr_bad),
                          "examples": [list(map(str, x))[:3] for x in corr_bad[:2]]})
    eq = collections.Counter()
    eq_bad, ast_diff_examples = [], []
    for p in corr_pairs:
        c0, c1 = cases[p.src], cases[p.rsrc]
        hit = bool((set(p.map.values()) | set(p.map)) & touchy)
        fam = "touching_reserved" if hit else "avoiding_reserved"
        for a in "01":
            if (a not in c0.ast_sx or a not in c1.ast_sx or c0.impl.get(a, (None,))[0] is None
                    or c1.impl.get(a, (None,))[0] is None):
                continue
            ra = sx_str(sx_ren_ast(sx_parse(c0.ast_sx[a]), p.map))
            a1 = sx_str(sx_ren_ast(sx_parse(c1.ast_sx[a]), {}))       # same normal form (unions sorted)
            eq[f"typed_ast_checked:{fam}"] += 1
            ast_ok = ra == a1
            if not ast_ok:
                eq[f"typed_ast_differs:{fam}"] += 1
            rc = sx_ren_core(sx_parse(c0.impl[a][0]), p.map)
            k1 = sx_parse(c1.impl[a][0])
            eq[f"core_checked:{fam}"] += 1
            core_ok = sx_str(rc) == sx_str(k1)
            if not core_ok and sx_str(sx_sort_unions(rc)) == sx_str(sx_sort_unions(k1)):
                eq[f"core_differs_only_in_union_order:{fam}"] += 1
                core_ok = True
            if not core_ok:
                eq[f"core_differs:{fam}"] += 1
            # for renamings that avoid the reserved names the theorem predicts: equal typed ASTs => equal Core
            if not hit and ast_ok and not core_ok and len(eq_bad) < 5:
                eq_bad.append({"source": p.src[:300], "map": p.map, "annotate": a, "typed_ast_equal": ast_ok,
                               "core_equal": core_ok})
            if not ast_ok and len(ast_diff_examples) < 2:
                ast_diff_examples.append({"source": p.src[:200], "map": p.map, "annotate": a, "core_equal": core_ok})
    if eq_bad:
        ck.broken.append({"kind": "correspondence", "where": "theorem replayed on the implementation: typed AST / "
                          "Core of the renamed source vs ren_core of the original although the typed ASTs correspond "
                          "(renaming avoids reserved)",
                          "count": len(eq_bad), "examples": eq_bad[:2]})
    ck.log(f"correspondence done after {time.time() - t0:.0f}s")

    ck.cov.update({
        "evaluations": len(tr),
        "distinct_nontrivial": len(nontrivial),
        "rule": "a pair = (program, injective renaming of its user-chosen names), transpiled with annotate off and on; "
                "programs: generated (identifier pool or default names, classes included), hand-written, every "
                "repository sample, a matrix {special name} x {variable, function, class, field, method, parameter} next "
                "to statements that make the generator emit names of its own; renamings: all names to fresh names, one "
                "name to one special name, as many names as possible to special names; non-trivial = source changed and "
                "both versions accepted",
        "special_names": SPECIAL,
        "reserved_from_coq": sorted(reserved),
        "pairs": dict(stats),
        "failure_classes": dict(fail_classes),
        "traces_validated_against_impl": msum.get("agree", 0),
        "model_status_original_and_renamed": msum,
        "model_not_compared_user_class_spelled_like_builtin": len(shadow),
        "theorem_replayed_on_implementation": dict(eq),
        "typed_ast_differences_examples": ast_diff_examples,
        "samples": samples or [{"source": pairs[0].src[:200], "map": pairs[0].map, "renamed": pairs[0].rsrc[:200]}],
        "trusted_base": [
            "Coq 8.16.1 kernel; no axioms (Print Assumptions: Closed under the global context)",
            "hand model model/Convert.v of the generation stage, compared with the implementation on every original and "
            "renamed program (typed AST in, Core out); model/Rename.v defines what renaming a typed AST / a Core tree means",
            "NOT modelled: the checker. That it hands the generator ren_ast(typed AST) for the renamed source is observed, "
            "not proved (typed ASTs compared after re-sorting union members)",
            "translator translate/names.py (Mamba->Python name table, dunder names)",
            "lib/vlib/c15.py: token-level renamer of Mamba sources (mirrors the lexer's string/comment rules), collector of "
            "definition sites, python3 ast for comparing outputs and for the static scope resolution of the capture check",
            "rustdebug.py/astsx.py readers of the Debug dumps; extraction + driver.ml for the model side",
        ],
    })
    ck.assumptions += [
        "names counted as user-chosen are those with a definition site in the source text (def/class/type/parameter/"
        "for/lambda/with-as/match and handle binders); imported names, self, __init__, operator names, print/True/"
        "False/None are never renamed",
        "a capture is judged statically (scope resolution of the emitted module), not by running it",
    ]
    return ck.finish()
