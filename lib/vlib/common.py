"""Shared machinery of the /verif orchestrator: builds, runtimes, evidence, findings, verdicts."""
import hashlib, json, os, random, re, shutil, subprocess, sys, tempfile, time

VERIF = os.path.dirname(os.path.dirname(os.path.dirname(os.path.abspath(__file__))))
REPO = os.environ.get("VERIF_REPO", "/repo")
COQ = os.path.join(VERIF, "coq")
CACHE = os.path.join(VERIF, "cache")
HARNESS_DIR = os.path.join(VERIF, "harness")
HARNESS_TARGET = os.path.join(CACHE, "harness-target")
MH = os.path.join(HARNESS_TARGET, "debug", "mh")
DRIVER = os.path.join(COQ, "extract", "driver")
EVIDENCE = os.path.join(VERIF, "evidence")
REPLAYS = os.path.join(VERIF, "replays")
if REPO != "/repo":
    # experiments against a scratch copy of the repository (VERIF_REPO): a copy of the harness crate that depends
    # on that copy, its own build directory, and evidence kept away from the registered evidence files
    _tag = hashlib.sha256(REPO.encode()).hexdigest()[:8]
    HARNESS_SRC = HARNESS_DIR
    HARNESS_DIR = os.path.join(CACHE, "harness-alt-" + _tag)
    HARNESS_TARGET = os.path.join(CACHE, "harness-alt-target-" + _tag)
    MH = os.path.join(HARNESS_TARGET, "debug", "mh")
    EVIDENCE = os.path.join(CACHE, "alt-evidence-" + _tag)
    REPLAYS = os.path.join(CACHE, "alt-replays-" + _tag)
NCPU = os.cpu_count() or 4

FORBIDDEN = re.compile(r"\b(Admitted|admit|Axiom|Parameter|Conjecture|Unset Guard|bypass_check|Admit Obligations)\b|type-in-type|impredicative-set")
AXIOM_ALLOW = {
    # standard-library axioms that may appear through Program/Equations; none is needed so far
    "FunctionalExtensionality.functional_extensionality_dep",
    "Eqdep.Eq_rect_eq.eq_rect_eq",
}


def seed():
    try:
        return int(os.environ.get("VERIF_SEED", "20260923"))
    except ValueError:
        return 20260923


def hexs(s):
    return s.encode("utf-8").hex()


def unhex(h):
    return bytes.fromhex(h).decode("utf-8", errors="replace")


def sh(cmd, cwd=None, env=None, timeout=3600, input=None):
    e = dict(os.environ)
    e["CARGO_NET_OFFLINE"] = "true"
    if env:
        e.update(env)
    p = subprocess.run(cmd, cwd=cwd, env=e, stdout=subprocess.PIPE, stderr=subprocess.STDOUT,
                       text=True, timeout=timeout, input=input, shell=isinstance(cmd, str))
    return p.returncode, p.stdout


# --------------------------------------------------------------------------------------------
# builds
# --------------------------------------------------------------------------------------------

class BuildError(Exception):
    pass


def build_harness(log):
    """(Re)build the harness against /repo's current working tree with hooks enabled."""
    t = time.time()
    if REPO != "/repo":
        os.makedirs(HARNESS_DIR, exist_ok=True)
        shutil.copytree(os.path.join(HARNESS_SRC, "src"), os.path.join(HARNESS_DIR, "src"), dirs_exist_ok=True)
        toml = open(os.path.join(HARNESS_SRC, "Cargo.toml")).read().replace('path = "/repo"', f'path = "{REPO}"')
        tp = os.path.join(HARNESS_DIR, "Cargo.toml")
        if not os.path.exists(tp) or open(tp).read() != toml:
            open(tp, "w").write(toml)
    lock = os.path.join(HARNESS_DIR, "Cargo.lock")
    if not os.path.exists(lock):
        shutil.copy(os.path.join(REPO, "Cargo.lock"), lock)
    rc, out = sh(["cargo", "build", "--offline", "--quiet"], cwd=HARNESS_DIR,
                 env={"RUSTFLAGS": "--cfg mamba_verif", "CARGO_TARGET_DIR": HARNESS_TARGET}, timeout=1800)
    if rc != 0 and REPO != "/repo":
        pass
    if rc != 0:
        raise BuildError("harness build failed:\n" + out[-3000:])
    log(f"harness built in {time.time() - t:.1f}s")
    return MH


def run_translators(names, log):
    """Run translators; returns {name: 'same'|'changed'|'created'|'untranslatable: ..'}."""
    res = {}
    for n in names:
        rc, out = sh([sys.executable, os.path.join(VERIF, "translate", n + ".py")], timeout=120)
        res[n] = out.strip().splitlines()[-1] if out.strip() else f"rc={rc}"
        log(f"translator {n}: {res[n]}")
    return res


def coq_project():
    """_CoqProject is derived from the directory contents, so adding a .v file needs no shared edit."""
    files = []
    for d in ("model", "gen", "proofs", "props"):
        dd = os.path.join(COQ, d)
        if os.path.isdir(dd):
            files += sorted(f"{d}/{f}" for f in os.listdir(dd) if f.endswith(".v"))
    text = "-Q . MambaModel\n" + "\n".join(files) + "\n"
    proj = os.path.join(COQ, "_CoqProject")
    if not os.path.exists(proj) or open(proj).read() != text:
        open(proj, "w").write(text)
        return True
    return False


def coq_makefile():
    changed = coq_project()
    mk = os.path.join(COQ, "Makefile")
    if changed or not os.path.exists(mk):
        rc, out = sh(["coq_makefile", "-f", "_CoqProject", "-o", "Makefile"], cwd=COQ)
        if rc != 0:
            raise BuildError("coq_makefile failed: " + out)


def coq_eval(imports, exprs, timeout=600):
    """Evaluate closed Coq terms with vm_compute inside coqc; returns the printed normal forms (text).
    `imports` e.g. ["model.Diag"]; each expr must have a type whose printing fits on Coq's output."""
    body = "From Coq Require Import List String ZArith Ascii.\nImport ListNotations.\n"
    body += "".join(f"From MambaModel Require Import {i}.\n" for i in imports)
    body += "Set Printing Width 1000000.\nSet Printing Depth 1000000.\n"
    for k, e in enumerate(exprs):
        body += f'Eval vm_compute in ("@@{k}"%string, {e}).\n'
    d = tempfile.mkdtemp(prefix="ev_", dir=CACHE)
    try:
        p = os.path.join(d, "cases.v")
        open(p, "w").write(body)
        rc, out = sh(["coqc", "-noglob", "-Q", COQ, "MambaModel", p], timeout=timeout)
    finally:
        shutil.rmtree(d, ignore_errors=True)
    if rc != 0:
        raise BuildError("coq_eval failed:\n" + out[-2000:])
    res = {}
    for m in re.finditer(r'= \("@@(\d+)"%?(?:string)?, (.*?)\)\s*\n\s*: ', out, re.S):
        res[int(m.group(1))] = m.group(2).strip()
    return [res.get(k) for k in range(len(exprs))]


def coq_make(targets, log, timeout=1500):
    """make the given .vo targets; returns (ok, failing_file_or_None, log tail)."""
    coq_makefile()
    t = time.time()
    rc, out = sh(["make", "-j", str(NCPU)] + targets, cwd=COQ, timeout=timeout)
    log(f"coq make {' '.join(targets)}: rc={rc} in {time.time() - t:.1f}s")
    if rc == 0:
        return True, None, out[-2000:]
    m = re.search(r'File "\./([^"]+)", line (\d+)', out)
    return False, (m.group(1) + ":" + m.group(2) if m else "unknown"), out[-3000:]


def build_driver(log):
    """Extract the models and compile the OCaml driver (only when a source is newer)."""
    ex = os.path.join(COQ, "extract")
    ok, bad, out = coq_make(extract_deps(), log)
    if not ok:
        raise BuildError("model does not compile: " + str(bad) + "\n" + out)
    srcs = [os.path.join(COQ, d, f) for d in ("model", "gen") for f in os.listdir(os.path.join(COQ, d)) if f.endswith(".vo")]
    srcs += [os.path.join(ex, "Extract.v"), os.path.join(ex, "driver.ml")]
    if os.path.exists(DRIVER) and all(os.path.getmtime(s) <= os.path.getmtime(DRIVER) for s in srcs):
        return DRIVER
    t = time.time()
    rc, out = sh(["coqc", "-Q", "..", "MambaModel", "Extract.v"], cwd=ex, timeout=600)
    if rc != 0:
        raise BuildError("extraction failed:\n" + out[-2000:])
    rc, out = sh("ocamlfind ocamlopt -w -a model.mli model.ml driver.ml -o driver", cwd=ex, timeout=600)
    if rc != 0:
        raise BuildError("driver build failed:\n" + out[-2000:])
    log(f"driver built in {time.time() - t:.1f}s")
    return DRIVER


def extract_deps():
    """.vo files Extract.v requires (read from its imports)."""
    txt = open(os.path.join(COQ, "extract", "Extract.v")).read()
    deps = []
    txt = strip_coq_comments(txt)
    for m in re.finditer(r"\b(model|gen)\.([A-Z]\w+)", txt):
        deps.append(f"{m.group(1)}/{m.group(2)}.vo")
    return sorted(set(deps))


def grep_forbidden():
    """Admitted/Axiom/... anywhere in the Coq development (comments excluded)."""
    hits = []
    for root, _, files in os.walk(COQ):
        for f in files:
            if not f.endswith(".v"):
                continue
            p = os.path.join(root, f)
            txt = open(p).read()
            txt = strip_coq_comments(txt)
            for i, line in enumerate(txt.splitlines(), 1):
                if FORBIDDEN.search(line):
                    hits.append(f"{os.path.relpath(p, COQ)}:{i}: {line.strip()}")
    return hits


def strip_coq_comments(txt):
    out, depth, i = [], 0, 0
    while i < len(txt):
        if txt.startswith("(*", i):
            depth += 1; i += 2
        elif txt.startswith("*)", i) and depth:
            depth -= 1; i += 2
        else:
            if depth == 0:
                out.append(txt[i])
            elif txt[i] == "\n":
                out.append("\n")
            i += 1
    return "".join(out)


def print_assumptions(module, theorems, log):
    """Returns {theorem: [axioms]} by asking coqc; [] means closed under the global context."""
    body = f"From MambaModel Require Import {module}.\n" + "".join(
        f'Print Assumptions {t}.\n' for t in theorems)
    d = tempfile.mkdtemp(prefix="pa_", dir=CACHE if os.path.isdir(CACHE) else None)
    try:
        p = os.path.join(d, "pa.v")
        open(p, "w").write(body)
        rc, out = sh(["coqc", "-Q", COQ, "MambaModel", p], timeout=300)
    finally:
        shutil.rmtree(d, ignore_errors=True)
    if rc != 0:
        raise BuildError("Print Assumptions failed:\n" + out[-1500:])
    res, chunks = {}, re.split(r"(?=Closed under the global context|Axioms:)", out)
    chunks = [c for c in chunks if c.startswith("Closed") or c.startswith("Axioms:")]
    for t, c in zip(theorems, chunks):
        if c.startswith("Closed"):
            res[t] = []
        else:
            res[t] = re.findall(r"^([A-Za-z_][\w.']*)\s*:", c, re.M)
    if len(chunks) != len(theorems):
        raise BuildError("could not parse Print Assumptions output:\n" + out[-1500:])
    return res


# --------------------------------------------------------------------------------------------
# runtimes
# --------------------------------------------------------------------------------------------

def run_lines(binary, lines, timeout=600, crash_status="CRASH", per_line_timeout=None):
    """Feed `id\\t...` lines to a line-protocol process; returns {id: [fields]}.
    If the process dies (stack overflow, abort) the offending line gets status CRASH:<signal> and the
    rest is fed to a fresh process."""
    results = {}
    pending = list(lines)
    while pending:
        p = subprocess.run([binary], input="\n".join(pending) + "\n", stdout=subprocess.PIPE,
                           stderr=subprocess.PIPE, text=True, timeout=timeout)
        answered = 0
        for ln in p.stdout.splitlines():
            parts = ln.split("\t")
            if len(parts) >= 2:
                results[parts[0]] = parts[1:]
                answered += 1
        if p.returncode == 0 and answered >= len(pending):
            break
        if answered >= len(pending):
            break
        # the line after the last answered one killed the process
        bad = pending[answered]
        bid = bad.split("\t")[0]
        sig = -p.returncode if p.returncode < 0 else p.returncode
        results[bid] = [f"{crash_status}", str(sig), hexs(p.stderr[-300:])]
        pending = pending[answered + 1:]
    return results


def run_sharded(binary, lines, shards=None, timeout=900):
    """Run independent lines over several processes."""
    from concurrent.futures import ThreadPoolExecutor
    shards = shards or min(NCPU, max(1, len(lines) // 200))
    if shards <= 1:
        return run_lines(binary, lines, timeout)
    chunks = [lines[i::shards] for i in range(shards)]
    out = {}
    with ThreadPoolExecutor(shards) as ex:
        for r in ex.map(lambda c: run_lines(binary, c, timeout), chunks):
            out.update(r)
    return out


# --------------------------------------------------------------------------------------------
# findings, evidence, verdict
# --------------------------------------------------------------------------------------------

def load_findings(pid):
    p = os.path.join(VERIF, "known_findings.json")
    if not os.path.exists(p):
        return []
    data = json.load(open(p))
    return [f for f in data.get("findings", []) if f.get("property") == pid and f.get("status", "open") == "open"]


class Check:
    """One run of one property's check."""

    def __init__(self, pid, tier):
        self.pid, self.tier, self.t0 = pid, tier, time.time()
        self.seed = seed()
        self.rng = random.Random(self.seed ^ int(hashlib.sha256(pid.encode()).hexdigest()[:8], 16))
        self.logs, self.violations, self.known_hits = [], [], {}
        self.cov = {"evaluations": 0, "distinct_nontrivial": 0, "samples": [], "trusted_base": []}
        self.assumptions = []
        self.obligations, self.discharged = 0, 0
        self.broken = []          # broken proof obligations / correspondences (not yet violations)
        self.findings = load_findings(pid)
        os.makedirs(EVIDENCE, exist_ok=True)
        os.makedirs(REPLAYS, exist_ok=True)
        os.makedirs(CACHE, exist_ok=True)

    def log(self, msg):
        self.logs.append(msg)
        print(f"[{self.pid}] {msg}", flush=True)

    # ---- proof side -------------------------------------------------------------------------
    def proof(self, targets, module, theorems, translators=()):
        """Regenerate tables, build the property's proof targets, audit assumptions."""
        tr = run_translators(translators, self.log) if translators else {}
        self.cov["tables_regenerated"] = tr
        hits = grep_forbidden()
        if hits:
            self.broken.append({"kind": "forbidden-construct", "where": hits[:5]})
        ok, bad, out = coq_make(targets, self.log)
        self.obligations += len(theorems)
        self.cov["checker_cmd"] = (f"cd {COQ} && coq_makefile -f _CoqProject -o Makefile && make -j{NCPU} "
                                   + " ".join(targets) + " ; coqc Print Assumptions " + " ".join(theorems))
        if not ok:
            self.log(f"PROOF OBLIGATION BROKEN at {bad}")
            self.broken.append({"kind": "proof", "where": bad, "log": out[-1500:]})
            return False
        try:
            pa = print_assumptions(module, theorems, self.log)
        except BuildError as e:
            self.broken.append({"kind": "proof", "where": "Print Assumptions " + module, "log": str(e)[-800:]})
            return False
        good = 0
        for t, ax in pa.items():
            extra = [a for a in ax if a not in AXIOM_ALLOW]
            if extra:
                self.broken.append({"kind": "axiom", "where": t, "axioms": extra})
            else:
                good += 1
        self.discharged += good
        self.cov["axioms"] = {t: (ax or "Closed under the global context") for t, ax in pa.items()}
        return good == len(theorems) and not hits

    # ---- verdicts ---------------------------------------------------------------------------
    def match_finding(self, case):
        """A violating case is attributed to a known finding only if the finding's predicate
        matches it (substring / regex on the canonical input)."""
        for f in self.findings:
            pat = f.get("match")
            if pat and re.search(pat, case):
                return f
        return None

    def violation(self, what, replay, case_text=""):
        f = self.match_finding(case_text) if case_text else None
        if f is not None:
            self.known_hits.setdefault(f["id"], {"finding": f, "count": 0, "example": replay})
            self.known_hits[f["id"]]["count"] += 1
            return False
        self.violations.append({"what": what, "replay": replay})
        return True

    def write_replay(self, name, data):
        h = hashlib.sha256(json.dumps(data, sort_keys=True).encode()).hexdigest()[:10]
        p = os.path.join(REPLAYS, f"{self.pid}-{name}-{h}.json")
        data = dict(data, property=self.pid, seed=self.seed, tier=self.tier,
                    replay_cmd=f"bin/check {self.pid} --replay {p}")
        json.dump(data, open(p, "w"), indent=1)
        return p

    def finish(self, level="proof", extra_assumptions=()):
        lines = []
        for kid, h in sorted(self.known_hits.items()):
            lines.append(f"KNOWN-FINDING: property={self.pid} {h['finding']['what']} (id {kid}, {h['count']} case(s))")
        # broken ties with no concrete failing input still count as violations
        if self.broken and not self.violations:
            p = self.write_replay("broken", {"broken": self.broken,
                                             "note": "no failing input found by the direct oracle"})
            self.violations.append({"what": "proof obligation or correspondence no longer checks",
                                    "replay": p, "suffix": " no-failing-input-found"})
        cov = self.cov
        cov["obligations"], cov["discharged"] = self.obligations, self.discharged
        cov.setdefault("checker_cmd", "n/a")
        cov["known_findings_hit"] = {k: v["count"] for k, v in self.known_hits.items()}
        cov["broken"] = self.broken
        ev = {"property_id": self.pid, "tier": self.tier, "seed": self.seed, "level": level,
              "coverage": cov, "assumptions": list(self.assumptions) + list(extra_assumptions),
              "wall_s": round(time.time() - self.t0, 2), "violations": len(self.violations)}
        json.dump(ev, open(os.path.join(EVIDENCE, f"{self.pid}.json"), "w"), indent=1)
        for l in lines:
            print(l)
        for v in self.violations:
            print(f"VIOLATION property={self.pid} replay={v['replay']}{v.get('suffix', '')}")
        print(f"[{self.pid}] done in {ev['wall_s']}s: {len(self.violations)} violation(s), "
              f"{cov['evaluations']} evaluations, obligations {self.discharged}/{self.obligations}", flush=True)
        return 1 if self.violations else 0
