"""C10 - printed expressions keep their structure.

proof        : props/C10.v (round trip for every well-formed tree, table regenerated from to_py)
tie          : printer table translator + `print` correspondence (implementation text tokenised by
               python3 == model tokens) on the complete depth-2 set and random deeper trees
direct oracle: ast.parse(implementation text) == as_py(tree)
model of Python validated: pexp vs ast.parse on printed token lists with parentheses removed
end to end   : fully parenthesised Mamba source -> mamba_to_python -> ast.parse == generated tree
"""
import itertools, json

from .common import Check, build_driver, build_harness, hexs, unhex, run_sharded, DRIVER, MH
from . import pyast

BIN = ["Add", "Sub", "Mul", "Div", "FDiv", "Mod", "Pow", "BAnd", "BOr", "BXOr", "BLShift", "BRShift",
       "And", "Or", "Ge", "Geq", "Le", "Leq", "Eq", "Neq", "Is", "IsN", "In"]
UN = ["AddU", "SubU", "BOneCmpl", "Not"]


def S(s):
    return "s:" + hexs(s)


ATOMS = [f"(Id {S('a')})", f"(Id {S('b')})", f"(Int {S('1')})", f"(Float {S('2.5')})",
         f"(Str {S('s')})", "(Bool T)", "None", f"(ENum {S('1')} {S('3')})"]


def parents(children):
    """All one-level contexts: functions from a child expression to a tree, with the other slots atoms."""
    a, b, c = ATOMS[0], ATOMS[1], ATOMS[2]
    ps = []
    for o in BIN:
        ps.append((o + ".l", lambda x, o=o: f"({o} {x} {b})"))
        ps.append((o + ".r", lambda x, o=o: f"({o} {a} {x})"))
    for o in UN:
        ps.append((o, lambda x, o=o: f"({o} {x})"))
    ps += [
        ("IsA.l", lambda x: f"(IsA {x} {b})"), ("IsA.r", lambda x: f"(IsA {a} {x})"),
        ("Sqrt", lambda x: f"(Sqrt {x})"),
        ("Ternary.c", lambda x: f"(Ternary {x} {a} {b})"), ("Ternary.t", lambda x: f"(Ternary {a} {x} {b})"),
        ("Ternary.e", lambda x: f"(Ternary {a} {b} {x})"),
        ("Lambda", lambda x: f"(AnonFun [(Id {S('p')}) (Id {S('q')})] {x})"),
        ("Call.f", lambda x: f"(FunctionCall {x} [{a}])"), ("Call.a", lambda x: f"(FunctionCall {a} [{b} {x}])"),
        ("Index.i", lambda x: f"(Index {x} {c})"), ("Index.r", lambda x: f"(Index {a} {x})"),
        ("Prop.o", lambda x: f"(PropertyCall {x} (Id {S('f')}))"),
        ("Prop.oc", lambda x: f"(PropertyCall {x} (FunctionCall (Id {S('m')}) [{a}]))"),
        ("Tuple", lambda x: f"(Tuple [{a} {x}])"), ("List", lambda x: f"(List [{x} {b}])"),
        ("Set", lambda x: f"(Set [{x}])"),
    ]
    return ps


def depth1():
    """Every constructor once, over atoms."""
    a, b, c = ATOMS[0], ATOMS[1], ATOMS[2]
    out = list(ATOMS)
    out += [f"({o} {a} {b})" for o in BIN] + [f"({o} {a})" for o in UN]
    out += [f"(IsA {a} {b})", f"(Sqrt {a})", f"(Ternary {a} {b} {c})", f"(AnonFun [] {a})",
            f"(AnonFun [(Id {S('p')})] {a})", f"(FunctionCall {a} [])", f"(FunctionCall {a} [{b} {c}])",
            f"(Index {a} {c})", f"(PropertyCall {a} (Id {S('f')}))",
            f"(PropertyCall {a} (PropertyCall (FunctionCall (Id {S('m')}) [{b}]) (Index (Id {S('d')}) {c})))",
            "(Tuple [])", f"(Tuple [{a} {b}])", "(List [])", f"(List [{a}])", f"(Set [{a} {b}])"]
    return out


def random_tree(rng, depth):
    if depth <= 0 or rng.random() < 0.15:
        return rng.choice(ATOMS)
    name, ctx = rng.choice(PARENTS)
    x = random_tree(rng, depth - 1)
    t = ctx(x)
    # fill one more slot with a subtree now and then by wrapping again on another side
    if rng.random() < 0.5:
        name2, ctx2 = rng.choice(PARENTS)
        t = ctx2(t) if rng.random() < 0.5 else ctx(ctx2(random_tree(rng, depth - 2)))
    return t


PARENTS = parents(None)


# ---- end to end from Mamba text -----------------------------------------------------------------

M_BIN = {  # Mamba spelling, python ast name, kind
    "+": ("BinOp Add", "i"), "-": ("BinOp Sub", "i"), "*": ("BinOp Mult", "i"), "//": ("BinOp FloorDiv", "i"),
    "mod": ("BinOp Mod", "i"), "^": ("BinOp Pow", "i"),
    "_and_": ("BinOp BitAnd", "i"), "_or_": ("BinOp BitOr", "i"), "_xor_": ("BinOp BitXor", "i"),
    "<<": ("BinOp LShift", "i"), ">>": ("BinOp RShift", "i"),
}
M_CMP = {"<": "Lt", ">": "Gt", "<=": "LtE", ">=": "GtE", "=": "Eq", "!=": "NotEq"}


def mamba_int(rng, depth):
    """(mamba text fully parenthesised, expected python sx) of an Int-typed expression."""
    if depth <= 0 or rng.random() < 0.2:
        v = rng.choice(["a", "b", "c", "1", "2", "3"])
        if v.isdigit():
            return v, f"(Num {S(v)})"
        return v, f"(Name {S(v)})"
    r = rng.random()
    if r < 0.8:
        op = rng.choice(list(M_BIN))
        l, lx = mamba_int(rng, depth - 1)
        rr, rx = mamba_int(rng, depth - 1)
        return f"({l} {op} {rr})", f"({M_BIN[op][0]} {lx} {rx})"
    if r < 0.9:
        x, xx = mamba_int(rng, depth - 1)
        return f"(-{x})", f"(UnaryOp USub {xx})"
    c, cx = mamba_bool(rng, depth - 1)
    t, tx = mamba_int(rng, depth - 1)
    e, ex = mamba_int(rng, depth - 1)
    return f"(if {c} then {t} else {e})", f"(IfExp {cx} {tx} {ex})"


def mamba_bool(rng, depth):
    r = rng.random()
    if depth <= 0 or r < 0.5:
        op = rng.choice(list(M_CMP))
        l, lx = mamba_int(rng, depth - 1)
        rr, rx = mamba_int(rng, depth - 1)
        return f"({l} {op} {rr})", f"(Compare {lx} [({M_CMP[op]} {rx})])"
    if r < 0.85:
        op = rng.choice(["and", "or"])
        l, lx = mamba_bool(rng, depth - 1)
        rr, rx = mamba_bool(rng, depth - 1)
        return f"({l} {op} {rr})", f"(BoolOp {'And' if op == 'and' else 'Or'} [{lx} {rx}])"
    x, xx = mamba_bool(rng, depth - 1)
    return f"(not {x})", f"(UnaryOp Not {xx})"


def statement_form(out):
    """A definition from an if-expression may be emitted as an if STATEMENT that assigns in both branches
    (`if c: r = x` / `else: r = y`): valid Python with the same structure; rebuild the conditional expression
    it stands for and judge that."""
    import ast
    try:
        mod = ast.parse(out)
    except SyntaxError as e:
        return "SYNTAX", "emitted module does not parse: " + str(e)

    def val(stmts):
        if len(stmts) == 1 and isinstance(stmts[0], (ast.Assign, ast.AnnAssign)):
            t = stmts[0].targets[0] if isinstance(stmts[0], ast.Assign) else stmts[0].target
            if isinstance(t, ast.Name) and t.id == "r" and stmts[0].value is not None:
                return stmts[0].value
        if len(stmts) == 1 and isinstance(stmts[0], ast.If) and stmts[0].orelse:
            return stmts[0]
        return None

    def sx(node):
        if isinstance(node, ast.If):
            a, b = val(node.body), val(node.orelse)
            if a is None or b is None:
                raise pyast.Outside("if statement that does not assign r in both branches")
            return f"(IfExp {pyast.expr_sx(node.test, out)} {sx(a)} {sx(b)})"
        return pyast.expr_sx(node, out)
    for n in mod.body:
        if isinstance(n, ast.If) and n.orelse:
            try:
                return "OK", sx(n)
            except pyast.Outside as e:
                return "SYNTAX", "no r = line (" + str(e) + ")"
    return "SYNTAX", "no r = line"


def run(tier, replay=None):
    ck = Check("C10", tier)
    quick = tier == "quick"
    proved = ck.proof(["props/C10.vo"], "props.C10", ["C10_roundtrip", "C10_operand_is_unit"],
                      translators=["printer_table"])
    build_driver(ck.log)
    build_harness(ck.log)

    # ---- cases -------------------------------------------------------------------------------
    cases, kinds = [], {}
    if replay:
        data = json.load(open(replay))
        cases = [data["input"]] if "input" in data else []
    else:
        d1 = depth1()
        cases += d1
        for (pn, ctx), child in itertools.product(PARENTS, d1):
            cases.append(ctx(child))
        n_exh = len(cases)
        if not quick:
            # complete depth 3 over one representative per precedence class on both sides
            reps = [c for c in d1 if c not in ATOMS]
            for (pn, ctx), (qn, ctx2), child in itertools.product(PARENTS, PARENTS, reps[::3]):
                cases.append(ctx(ctx2(child)))
        for _ in range(3000 if quick else 60000):
            cases.append(random_tree(ck.rng, ck.rng.randint(2, 6)))
        ck.cov["exhaustive_depth2_cases"] = n_exh
    cases = list(dict.fromkeys(cases))
    ids = {f"c{i}": c for i, c in enumerate(cases)}
    impl = run_sharded(MH, [f"{i}\tprint\t{c}" for i, c in ids.items()])
    model = run_sharded(DRIVER, [f"{i}\tptoks\t{c}" for i, c in ids.items()])

    n_eval = n_nontriv = n_corr_ok = 0
    corr_bad, oracle_bad, outside = [], [], 0
    samples = []
    for i, c in ids.items():
        ir, mr = impl.get(i, ["MISSING"]), model.get(i, ["MISSING"])
        n_eval += 1
        if mr[0] == "OUTSIDE":
            outside += 1
            continue
        if ir[0] != "OK" or mr[0] != "OK":
            corr_bad.append((c, f"impl={ir[:2]} model={mr[:2]}"))
            continue
        text = unhex(ir[1]).rstrip("\n")
        wf = mr[1] == "T"
        mtoks = [unhex(h) for h in mr[2].split()] if len(mr) > 2 and mr[2] else []
        expected = mr[3] if len(mr) > 3 else ""
        if not wf:
            continue
        if c.count("(") >= 3:
            n_nontriv += 1
        try:
            itoks = pyast.py_tokens(text)
        except Exception as e:
            itoks = ["<tokenize error: %s>" % e]
        if itoks == mtoks:
            n_corr_ok += 1
        else:
            corr_bad.append((c, f"impl tokens {itoks} model tokens {mtoks}"))
        st, got = pyast.parse_expr_sx(text)
        if st != "OK" or got != expected:
            oracle_bad.append((c, text, expected, f"{st}: {got}"))
        if len(samples) < 4 and c.count("(") >= 4:
            samples.append({"core": c, "printed": text, "python_ast": got})

    # ---- validation of the Python grammar model against python3 ------------------------------
    pm_cases = []
    for i, c in list(ids.items()):
        mr = model.get(i, [""])
        if mr[0] == "OK" and len(mr) > 2 and mr[2]:
            toks = mr[2].split()
            pm_cases.append(toks)
            opens = [k for k, t in enumerate(toks) if t == hexs("(")]
            if opens and ck.rng.random() < 0.7:
                k = ck.rng.choice(opens)
                depth, j = 0, k
                while j < len(toks):
                    if toks[j] == hexs("("):
                        depth += 1
                    elif toks[j] == hexs(")"):
                        depth -= 1
                        if depth == 0:
                            break
                    j += 1
                pm_cases.append(toks[:k] + toks[k + 1:j] + toks[j + 1:])
        if len(pm_cases) > (4000 if quick else 60000):
            break
    pm_ids = {f"p{i}": t for i, t in enumerate(pm_cases)}
    pm = run_sharded(DRIVER, [f"{i}\tpyparse\t{' '.join(t)}" for i, t in pm_ids.items()])
    pm_ok, pm_bad, pm_narrow = 0, [], []
    for i, t in pm_ids.items():
        text = " ".join(unhex(h) for h in t)
        st, got = pyast.parse_expr_sx(text)
        r = pm.get(i, ["MISSING"])
        if st == "OUTSIDE":
            continue
        if (st == "OK" and r[0] == "OK" and r[1] == got) or (st == "SYNTAX" and r[0] == "NONE"):
            pm_ok += 1
        elif st == "OK" and r[0] == "NONE":
            # the model is a SUBSET of Python's expression grammar (it need only accept what the printer emits,
            # e.g. it has no unparenthesised tuple inside a subscript): rejecting valid text cannot make the
            # round-trip theorem say something false; counted, not an alarm
            pm_narrow.append(text)
        else:
            pm_bad.append((text, f"python {st}:{got}", f"model {r}"))
    ck.cov["python_model_validation"] = {"cases": len(pm_ids), "agree": pm_ok, "disagree": len(pm_bad),
                                         "valid_python_outside_the_model": len(pm_narrow),
                                         "examples": pm_bad[:3], "outside_examples": pm_narrow[:3]}
    if pm_bad:
        ck.broken.append({"kind": "python-model", "where": "PyExpr.pexp vs ast.parse", "examples": pm_bad[:3]})

    # ---- end to end from Mamba text -----------------------------------------------------------
    e2e, e2e_bad = [], []
    for k in range(150 if quick else 3000):
        m, sx = mamba_int(ck.rng, ck.rng.randint(1, 5))
        src = f"def a := 5\ndef b := 7\ndef c := 11\ndef r := {m}\n"
        e2e.append((f"e{k}", src, sx))
    # signed operands and literals in every operator slot (inputs the checker rejects today leave the premise
    # unsatisfied; they are judged as soon as they are accepted)
    k = len(e2e)
    neg = [("(-2)", f"(UnaryOp USub (Num {S('2')}))"), ("(-a)", f"(UnaryOp USub (Name {S('a')}))"),
           ("(+3)", f"(UnaryOp UAdd (Num {S('3')}))"), ("(-1.5)", f"(UnaryOp USub (Num {S('1.5')}))")]
    for op, (pyop, _) in M_BIN.items():
        for nt, nx in neg:
            for (l, lx), (r_, rx) in (((nt, nx), ("b", f"(Name {S('b')})")), (("b", f"(Name {S('b')})"), (nt, nx)),
                                      ((nt, nx), ("2", f"(Num {S('2')})"))):
                for decl in ("def r := ", "def r: Int := ", "def r: Float := "):
                    src = f"def a := 5\ndef b := 7\n{decl}{l} {op} {r_}\n"
                    e2e.append((f"e{k}", src, f"({pyop} {lx} {rx})"))
                    k += 1
    er = run_sharded(MH, [f"{i}\ttranspile\t0\t{hexs(s)}" for i, s, _ in e2e])
    e2e_ok = 0
    for i, src, sx in e2e:
        r = er.get(i, ["MISSING"])
        if r[0] != "OK":
            continue  # rejected inputs leave the premise unsatisfied
        out = unhex(r[1])
        line = [l for l in out.splitlines() if l.startswith("r = ") or l.startswith("r: ")]
        if line:
            st, got = pyast.parse_expr_sx(line[0].split(" = ", 1)[1])
        else:
            st, got = statement_form(out)
        if st == "OK" and got == sx:
            e2e_ok += 1
        else:
            e2e_bad.append((src, out, sx, f"{st}: {got}"))
    ck.cov["end_to_end"] = {"programs": len(e2e), "accepted_and_equal": e2e_ok, "different": len(e2e_bad)}

    # ---- verdict ----------------------------------------------------------------------------
    for c, text, expected, got in oracle_bad[:20]:
        p = ck.write_replay("oracle", {"input": c, "printed": text, "expected_tree": expected,
                                       "python_parse": got,
                                       "what": "python parses the printed text to a different tree"})
        ck.violation("printed text parses to a different tree", p, c)
    for src, out, sx, got in e2e_bad[:20]:
        p = ck.write_replay("e2e", {"mamba_source": src, "emitted": out, "expected_tree": sx,
                                    "python_parse": got})
        ck.violation("grouping of the Mamba source lost in the emitted Python", p, f"SRC:{src}\nOUT:{out}")
    if corr_bad:
        ck.broken.append({"kind": "correspondence", "where": "print endpoint: Printer model vs to_py",
                          "examples": [list(x) for x in corr_bad[:3]], "count": len(corr_bad)})
    ck.cov.update({
        "evaluations": n_eval + len(pm_ids) + len(e2e),
        "distinct_nontrivial": n_nontriv,
        "rule": "Core expression trees as S-expressions: every constructor over atoms, every "
                "(parent constructor, slot, child constructor) combination (depth 2 complete), random "
                "trees of depth <= 6 (thorough: depth 3 over representatives, 60k random); distinct by "
                "text; non-trivial = well-formed and at least one operator nested in another",
        "traces_validated_against_impl": n_corr_ok,
        "outside_model": outside,
        "samples": samples or [{"core": cases[0]}],
        "exhaustive": False,
        "trusted_base": [
            "Coq 8.16.1 kernel (vm_compute used for table_ok generated = true); no axioms "
            "(Print Assumptions: Closed under the global context)",
            "translator translate/printer_table.py (reads format! templates and operand() of src/generate/ast/mod.rs)",
            "model/PyExpr.v as the model of Python's expression grammar, validated here against python3 ast.parse",
            "python3 tokenize as the lexical layer between emitted text and the token-level theorem",
            "extraction: ExtrOcamlBasic, ExtrOcamlString; coq/extract/driver.ml (protocol only)",
            "wf excludes: one-element Core::Tuple, empty Core::Set, Int as attribute receiver, "
            "property positions that are not name/call/index chains",
        ],
    })
    ck.assumptions += ["identifiers, numbers and string contents are single Python tokens (lexical layer, checked per case by python3 tokenize)"]
    return ck.finish()
