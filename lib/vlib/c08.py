"""C08 - explicit error handling.

proof        : props/C08.v (the code = mode `restored`: refuted by method calls [D19]; sound for every program
               without raising method calls, where it coincides with the demanded rule set; handle_restores;
               only_exceptions_declared; has_parent_sound; the three leaks of the rule set before the repair
               c08_handle_restores [D50 D51 D52, fixed] kept as statements about mode `as_is`)
tie          : verdict of the model == verdict of mamba_to_python on the rendered skeleton: every function
               body up to a size bound over an alphabet of raises, calls, handles x declared sets x three
               hierarchies of depth <= 3, + random larger programs
direct oracle: (1) the lexical guard specification computed in python on the skeleton (accepted although a
               raise is unguarded / a non-exception is declared; rejected as unhandled although guarded);
               (2) the emitted try/except is executed: exactly the listed classes (and their descendants)
               are caught, by the first matching arm
"""
import itertools

from .common import Check, build_harness
from . import scope as S

THEOREMS = ["C08_sound_refuted", "C08_method_raises_unchecked", "C08_sound_outside_known",
            "C08_restored_is_repaired_outside_known", "C08_sound_strict", "C08_handle_restores",
            "C08_handle_restores_any_restoring_mode", "C08_only_exceptions_declared", "C08_has_parent_sound",
            "C08_old_leak_after_handle", "C08_old_arm_protected_by_own_handle",
            "C08_old_top_level_handle_leaks_into_functions", "C08_old_handle_restores_refuted"]


def bodies(quick, rng):
    """function bodies over: raise E2 | g() [raises E2] | o.m2() | handle<g()>{arm X: body} | if{body}"""
    k = ("const",)
    atoms = [("simple", ("raise", 2)), ("simple", ("expr", ("call", 1, []))),
             ("simple", ("expr", ("mcall", 50, 2, []))), ("simple", ("expr", ("print", [k]))),
             ("simple", ("def", True, [1], ("call", 3, [])))]
    comp = [(1, lambda b: ("handle", ("expr", ("call", 1, [])), [(1, None, b)])),
            (1, lambda b: ("handle", ("expr", ("call", 1, [])), [(3, (True, 90), b)])),
            (1, lambda b: ("handle", ("def", True, [1], ("call", 3, [])), [(2, None, b)])),
            (1, lambda b: ("handle", ("raise", 2), [(0, None, b)])),
            (1, lambda b: ("if", k, b)),
            (1, lambda b: ("while", k, b)),
            (1, lambda b: ("match", k, [(None, b)]))]
    memo, out = {}, []
    for n in (1, 2, 3):
        out += S.enum_blocks(atoms, comp, n, memo)
    if not quick:
        out += S.enum_blocks(atoms, comp, 4, memo)
    return out


def cases_for(ck, quick):
    cases = []
    bs = bodies(quick, ck.rng)
    decls = [[], [2], [1], [3], [0]]
    hier = [S.Tables(h) for h in S.HIERARCHIES]
    combos = [(b, d, tb) for b in bs for d in decls for tb in hier]
    if quick:
        small = [c for c in combos if S.size(c[0]) <= 2 and c[2] is hier[0]]          # complete for one hierarchy
        combos = small + ck.rng.sample(combos, min(len(combos), 1300 - len(small)))
    for b, d, tb in combos:
        p = [("simple", ("def", True, [50], S.NEW)),
             ("fun", 1, [], [2], False, [("simple", ("raise", 2))]),                        # g raises E2
             ("fun", 3, [], [2], True, [("simple", ("return", ("const",)))]),              # h() -> Int raises E2
             ("fun", 2, [], list(d), False, list(b))]
        cases.append((p, tb))
    n_ex = len(cases)
    # top-level handle before a function (leak into later definitions), declared non-exceptions
    for tb in hier:
        for d in ([], [4], [1, 4], [5]):
            cases.append(([("fun", 1, [], [2], False, [("simple", ("raise", 2))]),
                           ("handle", ("expr", ("call", 1, [])), [(1, None, [("simple", ("pass",))])]),
                           ("fun", 2, [], list(d), False, [("simple", ("raise", 2))])], tb))
    # every class x every candidate ancestor as the only protection (hierarchies up to depth 4); raise lists
    # with a non-exception / undefined name in every position
    anc = S.ancestor_corpus()
    rl = S.raise_list_corpus()
    cases += anc + (rl if not quick else rl[::2])
    feats = {"raise", "handle", "fun", "call", "obj", "loops", "match"}
    cases += S.random_cases(ck.rng, 500 if quick else 12000, size=(4, 14), features=feats, p_bad=0.02)
    return cases, n_ex


def catch_tests(ck, quick):
    """(source, expected stdout marker): a raise of R under arms A1..An, at top level."""
    out = []
    for h in S.HIERARCHIES:
        tb = S.Tables(h)
        excs = [c for c in tb.ct if tb.is_exc(c)]
        arm_sets = [list(a) for n in (1, 2) for a in itertools.permutations(excs, n)]
        if quick:
            arm_sets = ck.rng.sample(arm_sets, min(len(arm_sets), 14))
        for R in [c for c in excs if c != 0]:
            for arms in arm_sets:
                def summ(v, n):                       # v + v + .. (n reads): arm j prints j + 2
                    e = ("read", v)
                    for _ in range(n - 1):
                        e = ("bin", e, ("read", v))
                    return e
                p = [("fun", 1, [], [R], False, [("simple", ("raise", R))]),
                     ("handle", ("expr", ("call", 1, [])),
                      [(c, (True, 90), [("simple", ("def", True, [j + 1], ("const",))),
                                         ("simple", ("expr", ("print", [summ(j + 1, j + 2)])))])
                       for j, c in enumerate(arms)])]
                anc = tb.ancestors(R)
                first = next((j for j, c in enumerate(arms) if c in anc), None)
                out.append((p, tb, R, arms, first))
    return out


def run(tier, replay=None):
    ck = Check("C08", tier)
    quick = tier == "quick"
    ck.proof(["props/C08.vo"], "props.C08", THEOREMS)
    build_harness(ck.log)
    if replay:
        cases, n_ex = S.load_replay(replay), 0
    else:
        cases, n_ex = cases_for(ck, quick)
    recs = S.evaluate(cases, ck.log)
    st = S.correspondence(ck, recs, f"Scope verdict (mode {S.IMPL_MODE}) vs mamba_to_python (C08 stream)",
                          need_discriminating=0 if replay else 50)

    bad = S.oracle_selftest()
    if bad:
        ck.broken.append({"kind": "oracle-selftest", "where": "lib/vlib/scope.py judge_*", "examples": bad[:5]})
    rep = S.Reporter(ck)
    n_sound = n_over = n_strict_diff = 0
    for r in recs:
        mine = [i for i in r.issues if i.prop == "C08"]
        if r.model == "VAccept" and r.strict != "VAccept":
            n_strict_diff += 1
        for what, cause in S.judge_c08(r):
            if r.impl == "VAccept":
                n_sound += 1
            else:
                n_over += 1
            rep.report(what, cause, r)
        # the python specification and the repaired threading of the model are two renderings of the same
        # demand: they must agree on which accepted programs are in the known class
        if r.impl == "VAccept" and r.model == "VAccept" and (r.strict == "VAccept") != (not mine):
            ck.broken.append({"kind": "specification", "where": "python guard specification vs Scope.verdict_strict",
                              "examples": [r.case_json()]})

    # ---- direct oracle 2: the emitted try/except catches exactly the listed classes ---------------------
    n_catch = n_catch_bad = 0
    if not replay:
        tests = catch_tests(ck, quick)
        srcs = [S.render(p, tb) for p, tb, _, _, _ in tests]
        resp = S.transpile_all(srcs)
        py, keep = [], []
        for t, rsp in zip(tests, resp):
            if rsp[0] == "OK":
                py.append(S.unhex(rsp[1]).split("\x1e")[0])
                keep.append(t)
        res = S.run_python(py)
        for (p, tb, R, arms, first), src, (status, msg, out) in zip(keep, py, res):
            n_catch += 1
            if first is None:
                ok = status == S.cname(R)                     # propagates out of the script
            else:
                ok = status == "ok" and out.strip() == str(first + 2)    # arm j prints j + 2
            if not ok:
                n_catch_bad += 1
                r = S.Rec()
                r.p, r.tb, r.src, r.impl, r.msg, r.model, r.strict, r.restored, r.issues = \
                    p, tb, S.render(p, tb), "VAccept", "", "", "", "", []
                rep.report(f"raise of {S.cname(R)} under arms {[S.cname(c) for c in arms]}: python gave "
                           f"{status} {msg} {out!r}", "emitted-handler-catches-wrong-set", r, {"emitted": src})
        ck.cov["catch_tests"] = {"run": n_catch, "wrong": n_catch_bad, "not_accepted": len(tests) - len(keep)}
    # ---- lambdas as a call position (specification + emitted Python only, no model) ----------------------
    if not replay:
        seen_l = {}

        def rep_lambda(what, cause, text, data):
            seen_l[cause] = seen_l.get(cause, 0) + 1
            known = ck.match_finding(text) is not None
            if seen_l[cause] <= 3:
                seen_l[cause + "/replay"] = ck.write_replay("lambda", dict(data, what=what, cause=cause, case_text=text))
            if known or seen_l[cause] <= 3:
                ck.violation(what, seen_l[cause + "/replay"], text)

        ck.cov["lambda_call_positions"] = S.run_lambda_family(ck, rep_lambda, quick)
        ck.cov["lambda_call_positions"]["causes"] = {k: v for k, v in seen_l.items() if not k.endswith("/replay")}
    ck.cov["direct_oracle"] = {"accepted_but_spec_forbids": n_sound, "rejected_but_spec_allows": n_over,
                               "accepted_by_code_rejected_by_repaired_threading": n_strict_diff,
                               "causes": rep.summary()}
    samples = [{"mamba": r.src.split("m3(self)", 1)[-1].split("\n", 1)[-1], "implementation": r.impl,
                "model": r.model, "model_repaired": r.strict} for r in recs if S.size(r.p) >= 6][:3]
    S.finish_cov(ck, recs, st,
                 f"{n_ex} programs = function bodies of <= 3 nodes (thorough: 4) over 5 simple statements (raise, call "
                 "of a raising function as statement and as initialiser, method call, print) and 7 compound forms (4 "
                 "handles with ancestor / unrelated / exact / Exception arms, if, while, match) x 5 declared sets x 3 "
                 "hierarchies of depth <= 3 (quick: a sample), fixed programs for top-level handles and non-exception "
                 "declarations; the ancestor matrix (every exception class R x every exception class A as the ONLY "
                 "protection: declared raise [A] or single arm A, for raise / call / initialiser / inside branch and "
                 "loop, 4 hierarchies up to depth 4); raise lists with a plain or undefined class in every position "
                 "among Exception and real exception classes, with bodies raising it and arms for it at the call, and "
                 "all-valid controls (quick: every second one); random programs of 4..14 nodes; and - outside the model - lambdas as a "
                 "call position: a call of a raising function inside a lambda body at 8 positions (argument, "
                 "initialiser, nested lambda, arithmetic, branch, method, loop, top level) x protection (none, "
                 "declared raise [A], handled by A, handled only at the outer call) x every class R x every A x 4 "
                 "hierarchies (quick: all unprotected + a sample); distinct by skeleton and tables",
                 samples,
                 extra_eval=n_catch + ck.cov.get("lambda_call_positions", {}).get("programs", 0)
                 + ck.cov.get("lambda_call_positions", {}).get("python_runs", 0))
    return ck.finish()
