"""Parser for Rust `{:?}` output of derive(Debug) values (structs, enums, Vec, HashSet, Option, strings)."""


class Node:
    """`Name { f: v, .. }` (fields dict), `Name(v, ..)` (args list) or bare `Name`."""
    __slots__ = ("name", "fields", "args")

    def __init__(self, name, fields=None, args=None):
        self.name, self.fields, self.args = name, fields, args

    def __getitem__(self, k):
        return self.fields[k] if isinstance(k, str) else self.args[k]

    def __repr__(self):
        if self.fields is not None:
            return f"{self.name}{{{', '.join(f'{k}: {v!r}' for k, v in self.fields.items())}}}"
        if self.args is not None:
            return f"{self.name}({', '.join(map(repr, self.args))})"
        return self.name


class Set(list):
    pass


def parse(text):
    p = _P(text)
    v = p.value()
    p.ws()
    if p.i != len(text):
        raise ValueError(f"trailing text at {p.i}: {text[p.i:p.i + 40]!r}")
    return v


class _P:
    def __init__(self, t):
        self.t, self.i = t, 0

    def ws(self):
        while self.i < len(self.t) and self.t[self.i] in " \n\t":
            self.i += 1

    def peek(self):
        self.ws()
        return self.t[self.i] if self.i < len(self.t) else ""

    def eat(self, c):
        self.ws()
        if not self.t.startswith(c, self.i):
            raise ValueError(f"expected {c!r} at {self.i}: {self.t[self.i:self.i + 40]!r}")
        self.i += len(c)

    def seq(self, close):
        out = []
        while self.peek() != close:
            out.append(self.value())
            if self.peek() == ",":
                self.eat(",")
        self.eat(close)
        return out

    def string(self):
        self.eat('"')
        out = []
        while True:
            c = self.t[self.i]
            if c == '"':
                self.i += 1
                return "".join(out)
            if c == "\\":
                n = self.t[self.i + 1]
                if n == "u":
                    j = self.t.index("}", self.i)
                    out.append(chr(int(self.t[self.i + 3:j], 16)))
                    self.i = j + 1
                    continue
                out.append({"n": "\n", "r": "\r", "t": "\t", "\\": "\\", '"': '"', "'": "'", "0": "\0"}[n])
                self.i += 2
            else:
                out.append(c)
                self.i += 1

    def value(self):
        c = self.peek()
        if c == '"':
            return self.string()
        if c == "[":
            self.eat("[")
            return self.seq("]")
        if c == "{":
            self.eat("{")
            return Set(self.seq("}"))
        if c == "(":
            self.eat("(")
            return tuple(self.seq(")"))
        if c.isdigit() or c == "-":
            j = self.i
            while j < len(self.t) and (self.t[j].isdigit() or self.t[j] in "-."):
                j += 1
            s = self.t[self.i:j]
            self.i = j
            return int(s) if s.lstrip("-").isdigit() else float(s)
        j = self.i
        while j < len(self.t) and (self.t[j].isalnum() or self.t[j] == "_"):
            j += 1
        name = self.t[self.i:j]
        if not name:
            raise ValueError(f"unexpected {c!r} at {self.i}")
        self.i = j
        if name == "true":
            return True
        if name == "false":
            return False
        n = self.peek()
        if n == "{":
            self.eat("{")
            fields = {}
            while self.peek() != "}":
                k = self.i
                self.ws()
                k = self.i
                while self.t[self.i].isalnum() or self.t[self.i] == "_":
                    self.i += 1
                key = self.t[k:self.i]
                self.eat(":")
                fields[key] = self.value()
                if self.peek() == ",":
                    self.eat(",")
            self.eat("}")
            return Node(name, fields=fields)
        if n == "(":
            self.eat("(")
            return Node(name, args=self.seq(")"))
        return Node(name)
