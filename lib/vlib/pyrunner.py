"""Run emitted Python programs and report what is observable: printed lines and the class of an
uncaught exception.  stdin: one JSON object per line {"id":..,"text":..}; stdout: {"id":..,"out":[..],"exc":..}.
Each program runs in a fresh namespace with a step budget (trace hook) instead of a wall-clock limit,
so that the answer does not depend on machine load."""
import io, json, sys, contextlib

BUDGET = 200000


class Budget(Exception):
    pass


def run(text):
    buf = io.StringIO()
    steps = [0]

    def tracer(frame, event, arg):
        steps[0] += 1
        if steps[0] > BUDGET:
            raise Budget()
        return tracer

    exc = None
    try:
        code = compile(text, "<emitted>", "exec")
    except SyntaxError as e:
        return [], "SyntaxError!compile"
    ns = {"__name__": "__main__"}
    old = sys.gettrace()
    try:
        with contextlib.redirect_stdout(buf):
            sys.settrace(tracer)
            try:
                exec(code, ns)
            finally:
                sys.settrace(old)
    except Budget:
        exc = "!budget"
    except RecursionError:
        exc = "!recursion"
    except BaseException as e:  # noqa
        exc = type(e).__name__
    out = buf.getvalue()
    lines = out.split("\n")
    if lines and lines[-1] == "":
        lines = lines[:-1]
    return lines, exc


def main():
    for line in sys.stdin:
        line = line.strip()
        if not line:
            continue
        d = json.loads(line)
        out, exc = run(d["text"])
        sys.stdout.write(json.dumps({"id": d["id"], "out": out, "exc": exc}) + "\n")
        sys.stdout.flush()


if __name__ == "__main__":
    main()
