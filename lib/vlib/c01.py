"""C01 - accepted programs keep their meaning when run as the emitted Python.

proof        : props/C01.v - (a) the statement-level desugarings append_ret / append_assign preserve meaning
               for every statement tree and every expression semantics (PySemProps); (b) the operator table,
               ranges and `?` against the reference semantics (MEvalProps), with the refuted cases proved as such
tie          : (1) Convert.gen vs the implementation's Core (as C11); (2) the model of Python, PyEval.run_py,
               on the implementation's Core tree vs python3 executing the implementation's text
direct oracle: the reference semantics of Mamba, MEval.run_mamba, on the implementation's typed AST vs
               python3 executing the emitted text - printed lines and class of an uncaught exception, for
               both annotate settings
classes      : both evaluators interpret classes (objects in a heap, constructors with parent calls, fields,
               methods, user exception classes); gen01 generates them in about 40% of the programs
"""
import json, os, re, subprocess, sys
from concurrent.futures import ThreadPoolExecutor

from .common import Check, build_driver, build_harness, hexs, unhex, run_sharded, MH, DRIVER, NCPU
from . import convcorr, gen01

RUNNER = os.path.join(os.path.dirname(os.path.abspath(__file__)), "pyrunner.py")


def run_python(texts):
    """{id: text} -> {id: (lines, exc)}"""
    items = list(texts.items())
    if not items:
        return {}
    shards = min(NCPU, max(1, len(items) // 50))
    chunks = [items[i::shards] for i in range(shards)]

    def one(chunk):
        inp = "\n".join(json.dumps({"id": k, "text": t}) for k, t in chunk) + "\n"
        try:
            p = subprocess.run([sys.executable, RUNNER], input=inp, stdout=subprocess.PIPE, stderr=subprocess.PIPE,
                               text=True, timeout=900 if len(chunk) > 1 else 120)
            stdout = p.stdout
        except subprocess.TimeoutExpired:
            # one program stalls the interpreter inside a single step (e.g. arithmetic on astronomically long
            # integers): run the programs of the chunk one by one and mark the offender; it is not compared
            if len(chunk) == 1:
                return {chunk[0][0]: ([], "!timeout")}
            out = {}
            for item in chunk:
                out.update(one([item]))
            return out
        out = {}
        for ln in stdout.splitlines():
            try:
                d = json.loads(ln)
                out[d["id"]] = (d["out"], d["exc"])
            except ValueError:
                pass
        return out
    res = {}
    with ThreadPoolExecutor(shards) as ex:
        for r in ex.map(one, chunks):
            res.update(r)
    return res


def parse_run(fields):
    """driver answer -> (status, lines) ; status in done / uncaught:<cls> / unsupported / fuel / outside / bad"""
    if not fields or fields[0] == "MISSING":
        return "bad", []
    if fields[0] == "OUTSIDE":
        return "outside", []
    if fields[0] != "OK":
        return "bad:" + " ".join(fields)[:60], []
    lines = [unhex(h[1:]) for h in (fields[2].split(" ") if len(fields) > 2 and fields[2] else [])]
    return fields[1], lines


def py_status(exc):
    return "done" if exc is None else "uncaught:" + exc


ADVERSARIAL = [
    # known classes (findings) and boundary shapes
    ("def a: Int? := 0\ndef b: Int := a ? 5\nprint(b)\ndef c: Int? := None\ndef d: Int := c ? 5\nprint(d)\n", "question-falsy"),
    ("for i in 5 ..= 1 .. (-2) do print(i)\n", "incl-neg-step"),
    ("for i in 0 ..= 6 .. 3 do print(i)\n", "incl-pos-step"),
    ("for i in 3 .. 3 do print(i)\nprint(\"end\")\n", "empty-range"),
    ("def f(x: Int) -> Int =>\n    if x > 1 then\n        x * 2\n    else\n        match x\n            0 => 10\n            _ => 20\nprint(f(0))\nprint(f(1))\nprint(f(2))\n", "nested-implicit-return"),
    ("def g(x: Int) -> Int raise [Exception] =>\n    if x > 2 then raise Exception(\"big\")\n    x\ndef a := g(3) handle\n    err: Exception =>\n        print(err)\n        0\nprint(a)\nprint(g(1))\nprint(g(7))\n", "handle-and-uncaught"),
    ("def x := 10\nx += 2\nx -= 1\nx *= 3\nprint(x)\nprint(7 // 2, (0 - 7) // 2, 7 mod 3, (0 - 7) mod 3)\nprint(1 // 0)\n", "arith-and-zero-division"),
    ("def l := [3, 4, 5]\nprint(l[0], l[-1])\nprint(4 in l, 9 in l)\nprint(l[7])\n", "index-error"),
    ("def w := 0\nwhile w < 5 do\n    w := w + 1\n    print(w)\nprint(w)\n", "while"),
    ("print(10 - 2 + 3)\nprint(100 // 10 // 5)\nprint(2 + 3 * 4)\nprint(2 ^ 3 ^ 2)\nprint(1 < 2 and 2 < 3)\n", "precedence"),
    ("def (p, q) := (1, 2)\nprint(p + q)\nprint((p, q))\nprint([p, q, 3])\n", "tuple"),
    ("def f(n: Int) -> Int => if n <= 1 then 1 else n * f(n - 1)\nprint(f(6))\n", "recursion"),
    ("def a := 3\nprint((-2) ^ 2)\nprint(-2 ^ 2)\nprint((-a) * 2)\nprint(2 - (-a))\nprint((-2) mod 3, (-7) // 2)\n", "signed-operands"),
    ("def n: Int := -3\nprint(n)\nprint(n ^ 2)\ndef f(x: Int) -> Int => -x\nprint(f(4) + f(-1))\n", "signed-literals"),
    ("def t := True\ndef u := False\nprint(t and u, t or u, not t)\nprint(\"a\" + \"b\" = \"ab\")\n", "bool-ops"),
    # classes: constructor arguments, parent with arguments, body field, field update, method chain through the parent
    ("class Point(def x: Int, def y: Int)\n    def z: Int := 5\n\n    def sum(self) -> Int => self.x + self.y + self.z\n\n"
     "    def move(self, d: Int) =>\n        self.x := self.x + d\n\n"
     "class P3(def a: Int, def b: Int, def c: Int): Point(a, b)\n    def total(self) -> Int => self.sum() + self.c\n\n"
     "def p := Point(1, 2)\nprint(p.sum())\np.move(3)\nprint(p.x)\ndef q := P3(1, 2, 3)\nprint(q.total())\nq.move(10)\nprint(q.x, q.y, q.c, q.z)\n",
     "class-parent-arguments"),
    # user exception classes: handled through the parent class, through Exception, and uncaught
    ("class Base(def m: Str): Exception(m)\nclass Der(def n: Str): Base(n)\n"
     "def f(x: Int) -> Int raise [Der] =>\n    if x > 0 then raise Der(\"neg\")\n    x\n"
     "def a := f(1) handle\n    err: Base =>\n        print(err)\n        3\nprint(a)\n"
     "def b := f(1) handle\n    err: Exception =>\n        print(\"exc\")\n        4\nprint(b)\nprint(f(0))\nprint(f(2))\n",
     "class-exception-hierarchy"),
    # an exception with a field next to the message; a constant message; a message that is not a string
    ("class E(def code: Int, def msg: Str): Exception(msg)\ndef f() -> Int raise [E] => raise E(7, \"seven\")\n"
     "def a := f() handle\n    err: E =>\n        print(err)\n        err.code\nprint(a)\n"
     "class F(def code: Int): Exception(\"fixed\")\ndef g() -> Int raise [F] => raise F(3)\n"
     "def b := g() handle\n    err: F =>\n        print(err)\n        err.code + 1\nprint(b)\n"
     "class N(def v: Int): Exception(v)\ndef h() -> Int raise [N] => raise N(5)\n"
     "def c := h() handle\n    err: N =>\n        print(err)\n        0\nprint(c)\n",
     "class-exception-field-and-message"),
    # two references to one object, an object passed to a function and returned from one, a nested field path
    ("class Cnt(def n: Int)\n    def inc(self) => self.n += 1\n    def get(self) -> Int => self.n\n"
     "class Box(def c: Cnt)\n    def peek(self) -> Int => self.c.n\n"
     "def bump(c: Cnt) => c.inc()\ndef mk(k: Int) -> Cnt => Cnt(k)\n"
     "def a := Cnt(0)\ndef b := a\nbump(a)\nb.inc()\nprint(a.get(), b.n)\n"
     "def x := Box(mk(10))\nx.c.n := x.c.n * 2\nprint(x.peek(), x.c.get())\nx.c.inc()\nprint(x.peek())\n",
     "class-aliasing-and-paths"),
    # dynamic dispatch through self, an overriding method, fields of the body per object, several parents
    ("class Animal(def name: Str)\n    def legs: Int := 4\n    def sound(self) -> Str => \"...\"\n"
     "    def speak(self) => print(self.name + \" says \" + self.sound())\n"
     "class Dog(def n: Str): Animal(n)\n    def sound(self) -> Str => \"woof\"\n"
     "class Tag(def label: Str)\n    def show(self) => print(self.label)\n"
     "class Pet(def n: Str, def l: Str): Dog(n), Tag(l)\n"
     "def a := Animal(\"cat\")\ndef d := Dog(\"rex\")\na.speak()\nd.speak()\nd.legs := 3\nprint(a.legs, d.legs, d.name)\n"
     "def p := Pet(\"bo\", \"t1\")\np.speak()\np.show()\nprint(p.legs)\n",
     "class-dispatch-and-several-parents"),
    # state changed before a raise inside a method stays changed; handled, then uncaught
    ("class Oops(def msg: Str): Exception(msg)\nclass Acc(def total: Int)\n"
     "    def add(self, n: Int) raise [Oops] =>\n        self.total := self.total + 1\n"
     "        if n < 0 then raise Oops(\"negative\")\n        self.total := self.total + n\n"
     "def a := Acc(0)\na.add(5)\na.add(0 - 1) handle\n    err: Oops => print(\"caught\", err)\na.add(7)\nprint(a.total)\n"
     "a.add(0 - 3)\nprint(\"unreachable\")\n",
     "class-raise-in-method"),
    # an argument passed on to the parent is not a field under its own name (outside the reference semantics;
    # the emitted constructor does not assign it: AttributeError)
    ("class Point(def x: Int, def y: Int)\nclass P3(def a: Int, def b: Int): Point(a, b)\n    def geta(self) -> Int => self.a\n"
     "def q := P3(1, 2)\nprint(q.x)\nprint(q.geta())\n",
     "class-passed-on-argument-read"),
]


def run(tier, replay=None):
    ck = Check("C01", tier)
    quick = tier == "quick"
    ck.proof(["props/C01.vo"], "props.C01",
             ["C01_implicit_return_partial", "C01_assign_in_branches_partial", "C01_operator_table",
              "C01_range_positive_step", "C01_question_refuted", "C01_inclusive_negative_step_refuted",
              "C01_pure_expressions_partial", "C01_pure_expressions_convert",
              "C01_simple_statements_partial"],
             translators=["names"])
    build_driver(ck.log)
    build_harness(ck.log)
    rng = ck.rng
    tags, twin_of = {}, {}
    if replay:
        d = json.load(open(replay))
        cases = [convcorr.Case(d["input"], "replay")]
        tags[0] = d.get("tags", [])
    else:
        cases = []
        for i in range(400 if quick else 2500):
            src, tg, twin = gen01.program(rng, size=rng.randint(2, 8))
            cases.append(convcorr.Case(src, "generated"))
            tags[len(cases) - 1] = tg
            if twin is not None:
                # the same program with the fewest parentheses the parser's levels allow
                cases.append(convcorr.Case(twin, "twin"))
                tags[len(cases) - 1] = tg
                twin_of[len(cases) - 1] = len(cases) - 2
        for src, name in ADVERSARIAL:
            cases.append(convcorr.Case(src, "adversarial"))
            tags[len(cases) - 1] = [name]
        for s in convcorr.EXTRA:
            cases.append(convcorr.Case(s, "extra"))
            tags[len(cases) - 1] = []
    convcorr.run(cases)

    # the three executions
    texts, mreq, preq = {}, [], []
    for i, c in enumerate(cases):
        for a in "01":
            if a not in c.impl:
                continue
            core_sx, text = c.impl[a]
            key = f"r{i}_{a}"
            texts[key] = text
            if core_sx is not None:
                preq.append(f"{key}\tpyrun\t{core_sx}")
            if a in c.ast_sx and a == "0":
                mreq.append(f"r{i}\tmrun\t{c.ast_sx[a]}")
    pyres = run_python(texts)
    mres = run_sharded(DRIVER, mreq) if mreq else {}
    pres = run_sharded(DRIVER, preq) if preq else {}

    # disagreements are attributed to a recorded deviation only when the reference semantics WITH that
    # deviation switched on reproduces python3's behaviour exactly
    def attribute(i, got):
        sx = cases[i].ast_sx.get("0")
        if sx is None:
            return "other"
        r = run_sharded(DRIVER, [f"d{fl}\tmrundev\t{fl}\t{sx}" for fl in ("10", "01", "11")])
        for fl, name in (("10", "question-operator"), ("01", "inclusive-range-negative-step"),
                         ("11", "question-operator+inclusive-range-negative-step")):
            if parse_run(r.get(f"d{fl}")) == got:
                return name
        return "other"

    n_cmp = n_agree = n_unsup = n_rej = n_budget = 0
    twin_cmp = 0
    model_cmp = model_agree = 0
    ann_cmp = 0
    tag_count, status_count = {}, {}
    model_bad = []
    samples = []
    for i, c in enumerate(cases):
        if "0" not in c.impl and "1" not in c.impl:
            n_rej += 1
            continue
        ms, ml = parse_run(mres.get(f"r{i}"))
        runs = {}
        for a in "01":
            key = f"r{i}_{a}"
            if key in pyres:
                out, exc = pyres[key]
                if exc is not None and exc.startswith("!"):
                    # the runner's own limits (step budget, recursion depth, stall), not behaviour of the program
                    n_budget += 1
                    continue
                runs[a] = (py_status(exc), out)
            # validation of the model of Python against python3
            if key in pres and key in pyres:
                ps, pl = parse_run(pres[key])
                if ps in ("done",) or ps.startswith("uncaught:"):
                    model_cmp += 1
                    if (ps, pl) == runs[a]:
                        model_agree += 1
                    else:
                        model_bad.append((c.src, a, f"{ps} {pl}"[:300], f"{runs[a]}"[:300]))
        # both settings of annotate behave identically
        if "0" in runs and "1" in runs:
            ann_cmp += 1
            if runs["0"] != runs["1"]:
                p = ck.write_replay("oracle", {"input": c.src, "tags": tags.get(i, []), "annotate_off": runs["0"], "annotate_on": runs["1"]})
                ck.violation("emitted Python behaves differently with annotate on and off", p,
                             f"CAUSE:annotate TAGS:{','.join(tags.get(i, []))}\nSRC:{c.src}")
        # reference semantics vs python3
        if not (ms == "done" or ms.startswith("uncaught:")):
            n_unsup += 1
            status_count[ms] = status_count.get(ms, 0) + 1
            continue
        for a, got in runs.items():
            n_cmp += 1
            if got == (ms, ml):
                n_agree += 1
                for t in tags.get(i, []):
                    tag_count[t] = tag_count.get(t, 0) + 1
                if len(samples) < 3 and len(ml) > 2 and c.kind == "generated":
                    samples.append({"source": c.src[:300], "printed": ml[:6], "status": ms})
            else:
                cause = attribute(i, got)
                p = ck.write_replay("oracle", {"input": c.src, "annotate": a, "tags": tags.get(i, []),
                                                "reference": [ms, ml], "python": list(got),
                                                "emitted": c.impl[a][1]})
                ck.violation(f"emitted Python prints/raises {got[0]} {got[1][:4]}, the program means {ms} {ml[:4]}", p,
                             f"CAUSE:{cause} TAGS:{','.join(tags.get(i, []))}\nSRC:{c.src}")
    # precedence twins: same behaviour as the fully parenthesised program
    for j, i in twin_of.items():
        a_, b_ = pyres.get(f"r{i}_0"), pyres.get(f"r{j}_0")
        if a_ is None or b_ is None:
            continue
        twin_cmp += 1
        if a_ != b_:
            p = ck.write_replay("oracle", {"input": cases[j].src, "parenthesised": cases[i].src,
                                            "python_parenthesised": a_, "python_minimal": b_})
            ck.violation("operator precedence/associativity: the program without redundant parentheses behaves differently", p,
                         f"CAUSE:precedence\nSRC:{cases[j].src}")
    if model_bad:
        ck.broken.append({"kind": "correspondence", "where": "PyEval.run_py vs python3 on the emitted text",
                          "count": len(model_bad), "examples": [list(x) for x in model_bad[:3]]})
    conv = convcorr.summary(cases)
    if conv.get("disagree"):
        ck.broken.append({"kind": "correspondence", "where": "Convert.gen vs implementation Core", "count": conv["disagree"],
                          "examples": [c.src[:200] for c in cases if "disagree" in c.status.values()][:3]})
    ck.cov.update({
        "evaluations": n_cmp, "distinct_nontrivial": n_agree,
        "rule": "generated executable programs (operators, ranges with step, if/match/while/for as statements and "
                "values, functions with implicit/explicit return, raise/handle, tuples, lists, ?; in about 40% of the "
                "programs classes: constructor arguments, parents with arguments, body fields, methods reading and "
                "updating fields, objects, user exception classes raised and handled through the hierarchy), adversarial "
                "programs for the known classes, hand-written programs; both annotate settings; non-trivial = the "
                "reference semantics is defined on the program and python3 agrees with it",
        "traces_validated_against_impl": model_agree, "python_model_compared": model_cmp,
        "annotate_pairs_compared": ann_cmp, "precedence_twins_compared": twin_cmp,
        "python_runner_limit_hit": n_budget, "outside_reference_semantics": n_unsup, "outside_reasons": status_count, "rejected_by_transpiler": n_rej,
        "constructs_in_agreeing_runs": tag_count, "model_status": conv,
        "samples": samples or [{"source": cases[0].src[:200]}],
        "trusted_base": [
            "Coq 8.16.1 kernel; no axioms",
            "reference semantics of Mamba model/MEval.v (hand-written from docs/; the specification; for classes the "
            "assumed rule: constructor arguments not passed on to a parent become fields)",
            "model of Python model/PyEval.v + model/PySem.v, compared with python3 on every emitted text",
            "hand model model/Convert.v of the desugaring, compared with the implementation's Core on every input",
            "python3 as executor of the emitted text (lib/vlib/pyrunner.py, step budget instead of wall clock)",
            "extraction (ExtrOcamlBasic, ExtrOcamlString) and extract/driver.ml",
        ],
    })
    return ck.finish()
