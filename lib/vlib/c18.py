"""C18 - token positions are exact and indentation tokens are balanced.

proof        : props/C18.v over model/Lex.v (scanner consumption = spelling, position tracking,
               indentation balance, single Eof); keyword/spelling tables regenerated from the Rust source
tie          : `lex` correspondence (hook mamba::parse::verif_lex vs extracted Lex.tokenize), byte for byte
direct oracle: slice the source at every recorded span; order; balance; Eof
"""
import glob, itertools, json, os, re

from .common import Check, build_driver, build_harness, hexs, unhex, run_sharded, DRIVER, MH, REPO
from . import gen

VOCAB = ["from", "type", "class", "pure", "as", "import", "forward", "vararg", "def", "fin", "and", "or", "not",
         "is", "isa", "mod", "sqrt", "while", "for", "_and_", "_or_", "_xor_", "_not_", "if", "else", "match",
         "continue", "break", "return", "then", "do", "with", "in", "raise", "handle", "when", "pass", "_",
         ",", ":", "::", "::=", ":=", "(", ")", "[", "]", "{", "}", "|", ".", "..", "..=", "<", "<<", "<<=", "<=",
         ">", ">>", ">>=", ">=", "+", "+=", "-", "-=", "->", "*", "*=", "/", "/=", "//", "\\", "^", "^=", "=", "=>",
         "!=", "?", "x", "ab_1", "X", "0", "12", "1.5", "2.", "3E4", "1.5E2", '"s"', '""', '"a{x}b"', "#c"]
SYNTH = {"NL", "Indent", "Dedent", "Eof"}


def parse_lex(fields):
    """harness/driver answer -> ('OK', [(kind, lexeme, sl, sc, el, ec)]) | ('ERR', (l, c, msg)) | (other, raw)"""
    if fields[0] == "OK":
        toks = []
        if len(fields) > 1 and fields[1]:
            for t in fields[1].split(";"):
                k, lx, sl, sc, el, ec = t.split(",")
                toks.append((k, bytes.fromhex(lx), int(sl), int(sc), int(el), int(ec)))
        return "OK", toks
    if fields[0] == "ERR":
        return "ERR", (int(fields[1]), int(fields[2]), unhex(fields[3]))
    return fields[0], fields[1:]


def oracle(src, toks):
    """Judge the implementation's token list against the property. Yields (cause, detail)."""
    data = src.encode("utf-8")
    lines = data.split(b"\n")
    top = [t for t in toks if not t[0].startswith("Str.")]
    # single Eof at the end
    eofs = [i for i, t in enumerate(top) if t[0] == "Eof"]
    if eofs != [len(top) - 1]:
        yield "eof", f"Eof positions {eofs} of {len(top)} tokens"
    # balance
    ni, nd = sum(t[0] == "Indent" for t in top), sum(t[0] == "Dedent" for t in top)
    if ni != nd:
        yield "unbalanced", f"{ni} Indent vs {nd} Dedent"
    prev = None
    ml_line = None   # last line of the most recent string token that contains a newline
    for t in top:
        k, lx, sl, sc, el, ec = t
        if k in SYNTH:
            if k == "Indent":
                # strict reading: an Indent covers four characters of indentation
                seg = lines[sl - 1][sc - 1:ec - 1] if 1 <= sl <= len(lines) else None
                if seg != b"    ":
                    yield "indent-stamped", f"Indent at {sl}:{sc}-{ec} covers {seg!r}"
            continue
        # known class D27: a token that really sits on the last line of a multi-line string, with drifted columns
        core = lx[:-1] if k == "Str" and lx.endswith(b'"') else lx      # an unterminated literal has no closing quote
        after_ml = ml_line is not None and sl == ml_line and 1 <= sl <= len(lines) and core in lines[sl - 1]
        # span covers exactly the token's characters
        if not (1 <= sl <= len(lines)):
            yield "line-out-of-range", f"{k} at line {sl} of {len(lines)}"
            continue
        if sl == el:
            seg = lines[sl - 1][sc - 1:ec - 1]
            expect = lx
            if k == "DocStr":
                expect = b'"""' + lx[2:] + b'"""'
            if seg != expect or ec - sc != len(expect):
                if after_ml:
                    cause = "after-multiline-string"
                elif k == "DocStr":
                    cause = "docstring-span"
                elif k == "Str" and seg + b'"' == expect and lines[sl - 1][sc - 1:] == seg and sl == len(lines):
                    cause = "unterminated-string"
                else:
                    cause = "span"
                yield cause, f"{k} {lx!r} at {sl}:{sc}-{ec} covers {seg!r}"
        else:
            yield ("multiline-string-span" if k in ("Str", "DocStr") else "span"), f"{k} spans lines {sl}-{el}"
        # ordered, non overlapping (source tokens)
        if prev is not None:
            pk, _, _, _, pel, pec = prev
            if (sl, sc) < (pel, pec):
                yield ("after-multiline-string" if after_ml else "after-docstring" if pk == "DocStr" else "order"), \
                    f"{k} at {sl}:{sc} starts before end {pel}:{pec} of previous {pk}"
        if k in ("Str", "DocStr") and (sl != el or b"\n" in lx):
            ml_line = el
        prev = t
    # NL tokens in stream order (strict reading)
    nls = [(t[2], t[3]) for t in top if t[0] == "NL"]
    if nls != sorted(nls):
        yield "nl-order", "NL tokens are not in position order"


def mutate(rng, text):
    toks = re.findall(r"\s+|[A-Za-z_0-9]+|\"[^\"\n]*\"|.", text)
    if not toks:
        return text
    k = rng.choice(["del", "dup", "swap", "ins", "rep"])
    i = rng.randrange(len(toks))
    if k == "del":
        del toks[i]
    elif k == "dup":
        toks.insert(i, toks[i])
    elif k == "swap" and len(toks) > 1:
        j = rng.randrange(len(toks)); toks[i], toks[j] = toks[j], toks[i]
    elif k == "ins":
        toks.insert(i, rng.choice(VOCAB + [" ", "\n", "    ", '"', "{", "}", "\r\n", "  "]))
    else:
        toks[i] = rng.choice(VOCAB)
    return "".join(toks)


STRINGS = ['"a"', '""', '"a{x}"', '"{x + 1} and {y}"', '"{"', '"}"', '"a\\"b"', '"\\\\"', '"{{x}}"', '"{}"',
           '"a\nb"', '"a\n"', '"""doc"""', '"""two\nlines"""', '"{"q"}"', '"{f("s")}"', '"unterminated',
           '"{a} {b} {c}"', '"}{"', '"é"', '"{x!}"', '"\\{x}"', '"a\\\nb"', '"""doc \\\nmore"""', '"x\\\n\\\ny"']


def cases(ck, quick):
    rng = ck.rng
    out = []
    # adjacent pairs, with and without a space
    for a, b in itertools.product(VOCAB, VOCAB):
        out.append(("pair", a + b))
        out.append(("pair", a + " " + b))
    # strings in context
    for s in STRINGS:
        out += [("string", f"def a := {s}\ndef b := 1\n"), ("string", f"print({s}) # c\nx\n"),
                ("string", f"if c then\n    def a := {s}\n    b\nd\n")]
    # indentation shapes
    for widths in itertools.product([0, 2, 4, 6, 8, 12], repeat=3):
        out.append(("indent", "".join(" " * w + f"t{i}\n" for i, w in enumerate(widths))))
    out += [("layout", "a\n\n\nb\n"), ("layout", "a\r\nb\r\n    c\r\n"), ("layout", "a\n    b\n\n\nc"),
            ("layout", "a\n    # c\nb"), ("layout", ""), ("layout", "\n"), ("layout", "   "), ("layout", "a\rb")]
    # generated programs and mutants
    n = 150 if quick else 3000
    for _ in range(n):
        p = gen.program(rng, size=rng.randint(2, 8))
        out.append(("program", p))
        out.append(("mutant", mutate(rng, p)))
        if rng.random() < 0.3:
            out.append(("crlf", p.replace("\n", "\r\n")))
    samples = sorted(glob.glob(os.path.join(REPO, "tests/resource/**/*.mamba"), recursive=True))
    for f in samples if not quick else samples[::3]:
        try:
            t = open(f, encoding="utf-8").read()
        except Exception:
            continue
        out.append(("sample", t))
        for _ in range(1 if quick else 6):
            out.append(("sample-mutant", mutate(rng, t)))
    # alphabet soup
    alpha = list("abz_09 \n\"{}()[]:=<>+-*/.,#!?\\|^") + ["    ", "def ", "if ", " then\n"]
    for _ in range(300 if quick else 20000):
        out.append(("soup", "".join(rng.choice(alpha) for _ in range(rng.randint(1, 40)))))
    seen, uniq = set(), []
    for k, s in out:
        if s not in seen:
            seen.add(s); uniq.append((k, s))
    return uniq


def run(tier, replay=None):
    ck = Check("C18", tier)
    quick = tier == "quick"
    ck.proof(["props/C18.vo"], "props.C18",
             ["C18_scan_exact", "C18_positions_track", "C18_balanced", "C18_single_eof"],
             translators=["lex_tables"])
    build_driver(ck.log)
    build_harness(ck.log)
    cs = [("replay", json.load(open(replay))["input"])] if replay else cases(ck, quick)
    ids = {f"l{i}": c for i, c in enumerate(cs)}
    impl = run_sharded(MH, [f"{i}\tlex\t{hexs(s)}" for i, (_, s) in ids.items()])
    model = run_sharded(DRIVER, [f"{i}\tlex\t{hexs(s)}" for i, (_, s) in ids.items()])

    agree, corr_bad, dist, accepted, nontriv = 0, [], {}, 0, 0
    oracle_bad = []
    samples = []
    for i, (kind, src) in ids.items():
        dist[kind] = dist.get(kind, 0) + 1
        ir, mr = impl.get(i, ["MISSING"]), model.get(i, ["MISSING"])
        ascii_only = all(ord(ch) < 128 for ch in src)
        if ascii_only:
            if ir == mr:
                agree += 1
            else:
                corr_bad.append((src, "\t".join(ir)[:300], "\t".join(mr)[:300]))
        st, toks = parse_lex(ir)
        if st == "OK":
            accepted += 1
            if len(toks) > 3:
                nontriv += 1
            for cause, detail in oracle(src, toks):
                oracle_bad.append((cause, src, detail))
            if len(samples) < 3 and kind == "program":
                samples.append({"source": src[:200], "tokens": [f"{t[0]}@{t[2]}:{t[3]}-{t[4]}:{t[5]}" for t in toks[:12]]})
        elif st not in ("ERR",):
            oracle_bad.append(("crash", src, str(ir)[:200]))

    seen_causes = {}
    for cause, src, detail in oracle_bad:
        seen_causes[cause] = seen_causes.get(cause, 0) + 1
        case_text = f"CAUSE:{cause}\nSRC:{src}"
        f = ck.match_finding(case_text)
        if f is None and seen_causes[cause] > 5:
            continue
        p = None
        if f is None:
            p = ck.write_replay("oracle", {"input": src, "cause": cause, "detail": detail})
        ck.violation(f"{cause}: {detail}", p or "", case_text)
    if corr_bad:
        ck.broken.append({"kind": "correspondence", "where": "lex endpoint: model/Lex.v vs parse::lex::tokenize",
                          "count": len(corr_bad), "examples": [list(x) for x in corr_bad[:3]]})
    ck.cov.update({
        "evaluations": len(ids), "distinct_nontrivial": nontriv,
        "rule": "distinct source texts: all adjacent pairs of the token vocabulary with/without a space, strings "
                "(interpolation, escapes, braces, multi-line, doc-strings) in three contexts, all 3-line "
                "indentation shapes over {0,2,4,6,8,12}, generated programs, token-level mutants of them and of the "
                "repository samples, CRLF variants, alphabet soup; non-trivial = accepted by the lexer with > 3 tokens",
        "generator_distribution": dist, "accepted_by_lexer": accepted,
        "traces_validated_against_impl": agree,
        "oracle_failures_by_cause": seen_causes,
        "samples": samples or [{"source": cs[0][1]}],
        "trusted_base": [
            "Coq 8.16.1 kernel; no axioms (Print Assumptions: Closed under the global context)",
            "translator translate/lex_tables.py (keyword table of as_op_or_id, Display spellings of Token)",
            "hand model model/Lex.v of tokenize.rs/state.rs/token.rs/docstring.rs, compared byte for byte with the hook on every case",
            "positions are Z: the i32/usize casts of the Rust code are the identity below 2^31 lines/columns",
            "inputs with non-ASCII characters are outside the model (oracle still runs on them, in byte columns)",
            "extraction: ExtrOcamlBasic, ExtrOcamlString; coq/extract/driver.ml",
        ],
    })
    return ck.finish()
