"""C02 - every emitted file is syntactically valid Python 3.

proof        : props/C02.v over model/PyStmt.v (layout discipline of the statement printer) with the
               expression round trip of C10 for the expressions inside the lines
tie          : `lines` correspondence: logical lines (indentation, tokens) of the implementation's text,
               as python3 tokenises it, vs model PyStmt.plines on the implementation's own Core tree
direct oracle: compile(text) for every output of every accepted input, both annotate settings
"""
import io, json, re, tokenize

from .common import Check, build_driver, build_harness, hexs, unhex, run_sharded, MH, DRIVER
from . import convcorr, gen
from .c18 import mutate


def logical_lines(text):
    """[(indent column, [token texts])] as python3's tokenizer sees the text; None if it cannot tokenise."""
    out, cur, col = [], [], None
    skip = {tokenize.NL, tokenize.INDENT, tokenize.DEDENT, tokenize.ENDMARKER, tokenize.COMMENT, tokenize.ENCODING}
    try:
        for t in tokenize.generate_tokens(io.StringIO(text).readline):
            if t.type in skip:
                continue
            if t.type == tokenize.NEWLINE:
                if cur:
                    out.append((col, cur))
                cur, col = [], None
                continue
            if col is None:
                col = t.start[1]
            cur.append(t.string)
        if cur:
            out.append((col, cur))
    except (tokenize.TokenError, IndentationError, SyntaxError):
        return None
    return out


def compiles(text):
    try:
        compile(text, "<emitted>", "exec")
        return True, ""
    except (SyntaxError, ValueError, MemoryError, RecursionError) as e:
        return False, f"{type(e).__name__}: {e}"


FEATURE_TAGS = [
    ("comment-only-body", r"(?m)^( *)(if|else|while|for|def|class|match)\b[^\n]*\n\1    #[^\n]*\n(?!\1    )"),
    ("leading-zero-int", r"(?<![\w.])0\d+"),
    ("multiline-string", r"\"[^\"\n]*\n"),
    ("vararg-default", r"vararg \w+[^,)]*:="),
    ("irrefutable-arm-not-last", r"(?m)^( +)(?:_|[a-z_]\w*) =>[^\n]*\n(?:\1 [^\n]*\n)*\1\S[^\n]* =>"),
    ("if-in-operand", r"[-+*/^<>=] *\(if |\(if [^\n]*\) *(<<|>>|_and_|_or_|_xor_|[-+*/^])"),
]


def features(src):
    return [k for k, pat in FEATURE_TAGS if re.search(pat, src)]


def run(tier, replay=None):
    ck = Check("C02", tier)
    quick = tier == "quick"
    ck.proof(["props/C02.vo"], "props.C02", ["C02_layout", "C02_lines_nonempty"], translators=["printer_table", "names"])
    build_driver(ck.log)
    build_harness(ck.log)
    rng = ck.rng
    if replay:
        cases = [convcorr.Case(json.load(open(replay))["input"], "replay")]
    else:
        cases = convcorr.programs(rng, 200 if quick else 1500, features=gen.DEFAULT_FEATURES)
        # token-level mutants of generated programs and samples (only the accepted ones matter)
        base = [c.src for c in cases]
        for s in base[: (300 if quick else 1200)]:
            cases.append(convcorr.Case(mutate(rng, s), "mutant"))
        # adversarial sources for the known classes
        for s in ["if True then\n    # only a comment\nprint(1)\n", "def a := 007\n", "def a := \"x\ny\"\n",
                  "def f(vararg x: Int := 3) => print(x)\n", "def a := 1\ndef r := (if a < 2 then 3 else 2) >> a\n",
                  "class A\n    def f(self) -> Int => 1\n", "type T\n    def f(self) -> Int\n",
                  "def f() =>\n    pass\n", "while True do\n    break\n"]:
            cases.append(convcorr.Case(s, "adversarial"))
    convcorr.run(cases)

    n_out = n_ok = 0
    lines_agree, lines_bad, outside = 0, [], 0
    layout_false = []
    samples = []
    plines_req, meta = [], {}
    for i, c in enumerate(cases):
        for a in "01":
            if a not in c.impl:
                continue
            core_sx, text = c.impl[a]
            n_out += 1
            ok, err = compiles(text)
            if ok:
                n_ok += 1
            else:
                tags = features(c.src)
                p = ck.write_replay("oracle", {"input": c.src, "annotate": a, "emitted": text, "error": err})
                ck.violation("emitted file is not valid Python: " + err, p,
                             f"TAGS:{','.join(tags)}\nERR:{err}\nSRC:{c.src}\nOUT:{text}")
            if core_sx is not None:
                key = f"q{i}_{a}"
                plines_req.append(f"{key}\tplines\t{core_sx}")
                meta[key] = (c, a, text, ok)
    res = run_sharded(DRIVER, plines_req) if plines_req else {}
    for key, (c, a, text, ok) in meta.items():
        r = res.get(key, ["MISSING"])
        if r[0] == "OUTSIDE":
            outside += 1
            continue
        if r[0] != "OK":
            lines_bad.append((c.src, a, str(r)[:200], ""))
            continue
        model_lines = []
        if len(r) > 2 and r[2]:
            for ln in r[2].split(";"):
                ind, _, toks = ln.partition(":")
                model_lines.append((int(ind), [unhex(h) for h in toks.split()]))
        impl_lines = logical_lines(text)
        if impl_lines is None or not ok:
            continue            # not valid Python: the compile oracle has already judged it
        if impl_lines == model_lines:
            lines_agree += 1
        else:
            k = next((j for j, (x, y) in enumerate(zip(impl_lines, model_lines)) if x != y), min(len(impl_lines), len(model_lines)))
            lines_bad.append((c.src, a, str(impl_lines[k:k + 1]), str(model_lines[k:k + 1])))
        if r[1] == "F" and ok:
            layout_false.append((c.src, a))
        if r[1] == "T" and not ok and impl_lines == model_lines:
            pass   # layout fine, something else is invalid (literal classes): reported by the oracle above
        if len(samples) < 3 and c.kind == "generated" and len(model_lines) > 6:
            samples.append({"source": c.src[:200], "lines": [f"{n}:{' '.join(t)}" for n, t in model_lines[:8]]})
    # files as written: transpile_dir into a target that already holds a LONGER file of the same name; whatever
    # is then on disk must be the emitted text and must compile (a stale tail would not)
    disk_n = disk_ok = 0
    if not replay:
        import os
        from .common import CACHE
        from .c13 import parse_listing
        base = os.path.join(CACHE, "c02tmp")
        os.makedirs(base, exist_ok=True)
        stale = ")))) stale tail ((((\n" * 400
        chosen = [c for c in cases if c.kind in ("generated", "adversarial") and "0" in c.impl][: (40 if quick else 400)]
        reqs = []
        for k, c in enumerate(chosen):
            for a in "01":
                ents = f"F:{hexs('src/a.mamba')}:{hexs(c.src)},F:{hexs('target/a.py')}:{hexs(stale)}"
                reqs.append(f"k{k}_{a}\tproject\tdir\t{hexs(base)}\t{a}\t~\t~\t1\t{ents}")
        dres = run_sharded(MH, reqs) if reqs else {}
        for k, c in enumerate(chosen):
            for a in "01":
                r = dres.get(f"k{k}_{a}")
                if not r or r[0] != "OK" or len(r) < 3 or a not in c.impl:
                    continue
                tree = parse_listing(r[2])
                got = tree.get("target/a.py")
                if got is None:
                    continue
                disk_n += 1
                text = got.decode("utf-8", "replace")
                okc, err = compiles(text)
                if okc and text.replace("\r\n", "\n").rstrip() == c.impl[a][1].replace("\r\n", "\n").rstrip():
                    disk_ok += 1
                elif not compiles(c.impl[a][1])[0]:
                    disk_ok += 1          # the emitted text itself is invalid: judged above
                else:
                    p = ck.write_replay("oracle", {"input": c.src, "annotate": a, "on_disk": text[-400:], "emitted": c.impl[a][1][-400:],
                                                    "error": err, "scenario": "target/a.py existed before, longer than the new output"})
                    ck.violation("the file written to disk is not the emitted text / is not valid Python: " + (err or "differs"), p,
                                 f"CAUSE:disk\nSRC:{c.src}")
    ck.cov["files_on_disk_checked"] = disk_n
    # expressions in operand positions: every Core expression tree of depth <= 2 (the enumeration of C10), printed
    # by the implementation, must be accepted by python3 as an expression
    expr_n = 0
    if not replay:
        import itertools
        from . import c10
        d1 = c10.depth1()
        trees = list(dict.fromkeys(d1 + [ctx(ch) for (pn, ctx), ch in itertools.product(c10.PARENTS, d1)]))
        if quick:
            trees = trees[::3]
        ids = {f"x{i}": t for i, t in enumerate(trees)}
        im = run_sharded(MH, [f"{i}\tprint\t{t}" for i, t in ids.items()])
        mo = run_sharded(DRIVER, [f"{i}\tptoks\t{t}" for i, t in ids.items()])
        for i, t in ids.items():
            ir, mr = im.get(i, ["MISSING"]), mo.get(i, ["MISSING"])
            if ir[0] != "OK" or mr[0] != "OK" or mr[1] != "T":
                continue          # not a well-formed tree of the model: nothing to judge
            text = unhex(ir[1]).rstrip("\n")
            expr_n += 1
            try:
                import warnings
                with warnings.catch_warnings():
                    warnings.simplefilter("ignore")
                    compile("(" + text + "\n)", "<expr>", "eval")
            except (SyntaxError, ValueError) as e:
                p = ck.write_replay("oracle", {"core_expression": t, "printed": text, "error": str(e)})
                ck.violation("an expression is printed as text Python rejects: " + text[:80], p, f"CAUSE:expr\nOUT:{text}")
    ck.cov["expression_trees_compiled"] = expr_n
    if lines_bad:
        ck.broken.append({"kind": "correspondence", "where": "lines: PyStmt.plines vs tokenised to_py output",
                          "count": len(lines_bad), "examples": [list(x) for x in lines_bad[:3]]})
    if layout_false:
        ck.broken.append({"kind": "model", "where": "layout_ok rejects a text python3 compiles",
                          "count": len(layout_false), "examples": [list(x) for x in layout_false[:2]]})
    ck.cov.update({
        "evaluations": n_out, "distinct_nontrivial": n_ok,
        "rule": "every output of every accepted input among: generated programs (all features), hand-written "
                "programs, repository samples, token-level mutants of those, adversarial sources for the known "
                "classes; both annotate settings; non-trivial = output compiles",
        "traces_validated_against_impl": lines_agree, "outside_model": outside,
        "model_status": convcorr.summary(cases),
        "samples": samples or [{"source": cases[0].src[:200]}],
        "trusted_base": [
            "Coq 8.16.1 kernel; no axioms",
            "hand model model/PyStmt.v of the statement templates of to_py (expressions through the regenerated "
            "printer table), compared with python3's tokenisation of the implementation's text on every output",
            "model of Python's layout rules PyStmt.layout_ok (validated: it accepts every text python3 compiles here)",
            "python3 compile() as the direct oracle",
        ],
    })
    return ck.finish()
