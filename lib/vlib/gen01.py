"""Seeded generator of EXECUTABLE Mamba programs for C01: every program terminates, prints values on
the way, and stays inside the fragment the reference semantics (coq/model/MEval.v) interprets.
Constructs: operators, exclusive/inclusive ranges with step, if/match/while/for as statements and as
expressions, functions with implicit and explicit return, raise/handle, tuples, lists, `?`."""

INT, BOOL, STR, LIST, OPT = "Int", "Bool", "Str", "List[Int]", "Int?"


class G:
    def __init__(self, rng, features=None):
        self.r = rng
        self.f = features
        self.n = 0
        self.lines = []
        self.funs = []   # (name, [types], ret or None, raises)
        self.tags = set()
        self.pairs = []  # (fully parenthesised, minimally parenthesised) renderings
        self.ro = set()  # names that must not be reassigned (parameters, loop variables)

    def on(self, k):
        return self.f is None or k in self.f

    def fresh(self, p="v"):
        self.n += 1
        return f"{p}{self.n}"

    def emit(self, ind, s):
        self.lines.append("    " * ind + s)

    # ---------------------------------------------------------------- expressions
    # Expressions are trees: ("a", text) atom | ("b", op, level, l, r) | ("u", op, x); rendered either fully
    # parenthesised or with the fewest parentheses the parser's levels allow (parse/operation.rs: every
    # level is right-recursive; 7 and/or, 6 comparisons, 4 + -, 3 * // mod, 1 ^).
    LEVEL = {"and": 7, "or": 7, "<": 6, "<=": 6, ">": 6, ">=": 6, "=": 6, "in": 6, "+": 4, "-": 4,
             "*": 3, "//": 3, "mod": 3, "^": 1}

    def lit(self, ty):
        r = self.r
        if ty == INT:
            return str(r.choice([0, 1, 2, 3, 4, 5, 7, 10, 12]))
        if ty == BOOL:
            return r.choice(["True", "False"])
        if ty == STR:
            return '"' + r.choice(["a", "bc", "x y", "", "hi"]) + '"'
        if ty == LIST:
            return "[" + ", ".join(self.lit(INT) for _ in range(r.randint(1, 4))) + "]"
        if ty == OPT:
            return r.choice(["None", self.lit(INT)])
        raise ValueError(ty)

    def b(self, op, l, r_):
        return ("b", op, self.LEVEL[op], l, r_)

    def tree(self, ty, env, d):
        r = self.r
        vs = [n for n, t in env.items() if t == ty]
        if d <= 0 or r.random() < 0.2:
            if vs and r.random() < 0.7:
                return ("a", r.choice(vs))
            return ("a", self.lit(ty if ty != OPT else INT))
        if ty == INT:
            k = r.choice(["arith"] * 6 + ["div", "call", "call", "index", "pow", "var"])
            if k == "arith":
                return self.b(r.choice(["+", "-", "*"]), self.tree(INT, env, d - 1), self.tree(INT, env, d - 1))
            if k == "div" and self.on("div"):
                self.tags.add("div")
                return self.b(r.choice(["//", "mod"]), self.tree(INT, env, d - 1), self.tree(INT, env, d - 1))
            if k == "pow" and self.on("pow"):
                self.tags.add("pow")
                return self.b("^", self.tree(INT, env, 0), ("a", str(r.choice([0, 1, 2, 3]))))
            if k == "call":
                fs = [f for f in self.funs if f[2] == INT and not f[3]]
                if fs:
                    f = r.choice(fs)
                    return ("a", f"{f[0]}({', '.join(self.expr(t, env, d - 1) for t in f[1])})")
            if k == "index" and self.on("index"):
                ls = [n for n, t in env.items() if t == LIST]
                if ls:
                    self.tags.add("index")
                    return ("a", f"{r.choice(ls)}[{r.choice([0, 0, 1, -1, 2, 5])}]")
            if vs:
                return ("a", r.choice(vs))
            return ("a", self.lit(INT))
        if ty == BOOL:
            k = r.choice(["cmp"] * 4 + ["and", "or", "not", "in", "eqs"])
            if k == "cmp":
                return self.b(r.choice(["<", "<=", ">", ">=", "="]), self.tree(INT, env, d - 1), self.tree(INT, env, d - 1))
            if k in ("and", "or"):
                return self.b(k, self.tree(BOOL, env, d - 1), self.tree(BOOL, env, d - 1))
            if k == "not":
                return ("u", "not", self.tree(BOOL, env, d - 1))
            if k == "in" and self.on("in"):
                ls = [n for n, t in env.items() if t == LIST]
                if ls:
                    self.tags.add("in")
                    return self.b("in", self.tree(INT, env, 0), ("a", r.choice(ls)))
            if k == "eqs":
                return self.b("=", self.tree(STR, env, 0), self.tree(STR, env, 0))
            return ("a", self.lit(BOOL))
        if ty == STR:
            if r.random() < 0.4:
                return self.b("+", self.tree(STR, env, d - 1), self.tree(STR, env, d - 1))
            return ("a", r.choice(vs) if vs and r.random() < 0.6 else self.lit(STR))
        if ty in (LIST, OPT):
            return ("a", r.choice(vs) if vs and r.random() < 0.6 else self.lit(ty))
        raise ValueError(ty)

    def full(self, t):
        if t[0] == "a":
            return t[1]
        if t[0] == "u":
            return f"({t[1]} {self.full(t[2])})"
        return f"({self.full(t[3])} {t[1]} {self.full(t[4])})"

    def level(self, t):
        # `not` takes a whole expression to its right (parse_level_2 calls parse_expression): loosest
        return 0 if t[0] == "a" else 8 if t[0] == "u" else t[2]

    def mini(self, t):
        if t[0] == "a":
            return t[1]
        if t[0] == "u":
            return f"{t[1]} {self.mini(t[2])}"
        L = t[2]
        l, r_ = self.mini(t[3]), self.mini(t[4])
        if self.level(t[3]) >= L:
            l = f"({l})"
        if self.level(t[4]) > L:
            r_ = f"({r_})"
        return f"{l} {t[1]} {r_}"

    def expr(self, ty, env, d):
        """expression text; the twin rendering goes to self.twin (same order of random choices)"""
        t = self.tree(ty, env, d)
        self.pairs.append((self.full(t), self.mini(t)))
        return f"\x01{len(self.pairs) - 1}\x02"

    def operand(self, ty, env, d):
        """an expression in operand position of a range (level 3): parenthesised unless atomic"""
        t = self.tree(ty, env, d)
        m = self.mini(t)
        self.pairs.append((self.full(t), m if t[0] == "a" else f"({m})"))
        return f"\x01{len(self.pairs) - 1}\x02"

    def range_expr(self, env):
        r = self.r
        a, b = self.operand(INT, env, 1), self.operand(INT, env, 1)
        incl = r.random() < 0.5
        s = ""
        if self.on("range_step") and r.random() < 0.5:
            st = r.choice([1, 2, 3, -1, -2]) if self.on("neg_step") else r.choice([1, 2, 3])
            s = f" .. {st}" if st > 0 else f" .. (0 - {-st})"
            self.tags.add("range_step_neg" if st < 0 else "range_step")
            if st < 0 and r.random() < 0.7:
                a, b = b, a
        self.tags.add("range_incl" if incl else "range_excl")
        return f"{a} {'..=' if incl else '..'} {b}{s}"

    # ---------------------------------------------------------------- statements
    def block(self, ind, env, d, n, fun=None, loop=False):
        env = dict(env)
        before = len(self.lines)
        for _ in range(n):
            self.stmt(ind, env, d, fun, loop)
        if len(self.lines) == before and n > 0:
            self.emit(ind, f"print({self.expr(INT, env, 1)})")
        return env

    def valued_block(self, ind, env, d, ty, fun=None):
        """a block whose value is its last expression (of type ty)"""
        env = self.block(ind, env, d - 1, self.r.randint(0, 2), fun)
        k = self.r.random()
        if k < 0.25 and d > 1 and self.on("if"):
            self.emit(ind, f"if {self.expr(BOOL, env, 1)} then")
            self.valued_block(ind + 1, env, d - 1, ty, fun)
            self.emit(ind, "else")
            self.valued_block(ind + 1, env, d - 1, ty, fun)
            self.tags.add("value_if")
        elif k < 0.4 and d > 1 and self.on("match"):
            self.emit(ind, f"match {self.expr(INT, env, 1)}")
            for c in self.r.sample([0, 1, 2, 3, 4], self.r.randint(1, 3)):
                self.emit(ind + 1, f"{c} => {self.expr(ty, env, 1)}")
            self.emit(ind + 1, f"_ => {self.expr(ty, env, 1)}")
            self.tags.add("value_match")
        else:
            self.emit(ind, self.expr(ty, env, 2))

    def stmt(self, ind, env, d, fun, loop):
        r = self.r
        kinds = ["def"] * 3 + ["print"] * 3 + ["reassign"] * 2
        if d > 0:
            kinds += ["if", "if", "while", "for", "for", "match", "defif", "defmatch", "handle"]
        if fun and fun[1] and d > 0:
            kinds += ["ret"]
        k = r.choice(kinds)
        if k == "def":
            ty = r.choice([INT, INT, INT, BOOL, STR, LIST, OPT])
            name = self.fresh()
            ann = f": {ty}" if ty == OPT or (ty != LIST and r.random() < 0.3) else ""
            if r.random() < 0.12 and ty == INT and self.on("tuple"):
                n2 = self.fresh()
                self.emit(ind, f"def ({name}, {n2}) := ({self.expr(INT, env, 1)}, {self.expr(INT, env, 1)})")
                env[n2] = INT
                self.tags.add("tuple")
            elif ty == INT and r.random() < 0.15 and self.on("question") and [n for n, t in env.items() if t == OPT]:
                o = r.choice([n for n, t in env.items() if t == OPT])
                self.emit(ind, f"def {name}: Int := {o} ? {self.expr(INT, env, 0)}")
                self.tags.add("question")
            else:
                self.emit(ind, f"def {name}{ann} := {self.expr(ty, env, 2)}")
            env[name] = ty
        elif k == "print":
            ty = r.choice([INT, INT, BOOL, STR, LIST])
            if r.random() < 0.15:
                self.emit(ind, f"print({self.expr(ty, env, 2)}, {self.expr(INT, env, 1)})")
            else:
                self.emit(ind, f"print({self.expr(ty, env, 2)})")
        elif k == "reassign":
            vs = [n for n, t in env.items() if t == INT and n not in self.ro]
            if not vs:
                return
            v = r.choice(vs)
            op = r.choice([":=", ":=", "+=", "-=", "*="])
            self.emit(ind, f"{v} {op} {self.expr(INT, env, 1)}")
            self.tags.add("reassign")
        elif k == "if" and self.on("if"):
            self.emit(ind, f"if {self.expr(BOOL, env, 2)} then")
            self.block(ind + 1, env, d - 1, r.randint(1, 2), fun, loop)
            if r.random() < 0.6:
                self.emit(ind, "else")
                self.block(ind + 1, env, d - 1, r.randint(1, 2), fun, loop)
            self.tags.add("if")
        elif k == "while" and self.on("while"):
            c = self.fresh("w")
            self.emit(ind, f"def {c} := 0")
            env[c] = INT
            self.ro.add(c)
            self.emit(ind, f"while {c} < {r.randint(1, 4)} do")
            self.emit(ind + 1, f"{c} := {c} + 1")
            self.block(ind + 1, env, d - 1, r.randint(1, 2), fun, True)
            self.tags.add("while")
        elif k == "for" and self.on("for"):
            i = self.fresh("i")
            if r.random() < 0.75:
                self.emit(ind, f"for {i} in {self.range_expr(env)} do")
            else:
                self.emit(ind, f"for {i} in {self.expr(LIST, env, 1)} do")
                self.tags.add("for_list")
            self.ro.add(i)
            self.block(ind + 1, {**env, i: INT}, d - 1, r.randint(1, 2), fun, True)
            self.tags.add("for")
        elif k == "match" and self.on("match"):
            self.emit(ind, f"match {self.expr(INT, env, 1)}")
            for c in r.sample([0, 1, 2, 3, 5], r.randint(1, 3)):
                self.emit(ind + 1, f"{c} => print({self.expr(r.choice([INT, STR]), env, 1)})")
            if r.random() < 0.8:
                self.emit(ind + 1, f"_ => print({self.expr(INT, env, 1)})")
            self.tags.add("match")
        elif k == "defif" and self.on("if"):
            ty = r.choice([INT, STR])
            name = self.fresh()
            if r.random() < 0.5:
                self.emit(ind, f"def {name}: {ty} := if {self.expr(BOOL, env, 1)} then {self.expr(ty, env, 1)} else {self.expr(ty, env, 1)}")
                self.tags.add("def_ternary")
            else:
                self.emit(ind, f"def {name}: {ty} := if {self.expr(BOOL, env, 1)} then")
                self.valued_block(ind + 1, env, d - 1, ty, fun)
                self.emit(ind, "else")
                self.valued_block(ind + 1, env, d - 1, ty, fun)
                self.tags.add("def_if_block")
            env[name] = ty
        elif k == "defmatch" and self.on("match"):
            ty = r.choice([INT, STR])
            name = self.fresh()
            self.emit(ind, f"def {name}: {ty} := match {self.expr(INT, env, 1)}")
            for c in r.sample([0, 1, 2, 3, 5], r.randint(1, 3)):
                self.emit(ind + 1, f"{c} => {self.expr(ty, env, 1)}")
            self.emit(ind + 1, f"_ => {self.expr(ty, env, 1)}")
            env[name] = ty
            self.tags.add("def_match")
        elif k == "handle" and self.on("handle"):
            fs = [f for f in self.funs if f[3] and f[2] == INT]
            if not fs:
                return
            f = r.choice(fs)
            name = self.fresh()
            self.emit(ind, f"def {name}: Int := {f[0]}({', '.join(self.expr(t, env, 1) for t in f[1])}) handle")
            self.emit(ind + 1, "err: Exception =>")
            if r.random() < 0.5:
                self.emit(ind + 2, "print(err)")
            self.emit(ind + 2, self.expr(INT, env, 1))
            env[name] = INT
            self.tags.add("handle")
        elif k == "ret":
            self.emit(ind, f"if {self.expr(BOOL, env, 1)} then return {self.expr(fun[1], env, 1)}")
            self.tags.add("early_return")

    def fun(self):
        r = self.r
        name = self.fresh("f")
        args = [(self.fresh("a"), r.choice([INT, INT, BOOL, STR])) for _ in range(r.randint(0, 3))]
        ret = r.choice([INT, INT, INT, STR, BOOL, None])
        raises = ret == INT and self.on("handle") and r.random() < 0.3
        sig = ", ".join(f"{a}: {t}" for a, t in args)
        head = f"def {name}({sig})" + (f" -> {ret}" if ret else "") + (" raise [Exception]" if raises else "") + " =>"
        env = {a: t for a, t in args}
        self.ro.update(a for a, _ in args)
        if ret and r.random() < 0.25 and not raises:
            self.emit(0, head + " " + self.expr(ret, env, 2))
            self.tags.add("fun_oneline")
        else:
            self.emit(0, head)
            if raises:
                self.emit(1, f"if {self.expr(BOOL, env, 1)} then raise Exception(\"{r.choice(['boom', 'bad', 'no'])}\")")
                self.tags.add("raise")
            if ret:
                self.valued_block(1, env, 2, ret, (name, ret))
                self.tags.add("fun_implicit_return")
            else:
                self.block(1, env, 1, r.randint(1, 3), (name, None))
                self.tags.add("procedure")
        self.funs.append((name, [t for _, t in args], ret, raises))

    def program(self, size):
        r = self.r
        env = {}
        for _ in range(r.randint(0, 3)):
            if self.on("fun"):
                self.fun()
        for _ in range(size):
            self.stmt(0, env, 2, None, False)
            if self.on("fun") and r.random() < 0.1:
                self.fun()
        # calls of procedures and raising functions at the end
        for f in self.funs:
            if f[2] is None and r.random() < 0.8:
                self.emit(0, f"{f[0]}({', '.join(self.expr(t, env, 1) for t in f[1])})")
            if f[3] and r.random() < 0.3 and self.on("uncaught"):
                self.emit(0, f"print({f[0]}({', '.join(self.expr(t, env, 1) for t in f[1])}))")
                self.tags.add("maybe_uncaught")
        return "\n".join(self.lines) + "\n"


def program(rng, size=6, features=None):
    """(source, tags, twin): twin is the same program with the fewest parentheses, or None if identical"""
    import re
    g = G(rng, features)
    raw = g.program(size)

    def resolve(text, k):
        while "\x01" in text:
            text = re.sub("\x01(\\d+)\x02", lambda m: g.pairs[int(m.group(1))][k], text)
        return text
    src, twin = resolve(raw, 0), resolve(raw, 1)
    return src, sorted(g.tags), (twin if twin != src else None)
