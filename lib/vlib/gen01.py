"""Seeded generator of EXECUTABLE Mamba programs for C01: every program terminates, prints values on
the way, and stays inside the fragment the reference semantics (coq/model/MEval.v) interprets.
Constructs: operators, exclusive/inclusive ranges with step, if/match/while/for as statements and as
expressions, functions with implicit and explicit return, raise/handle, tuples, lists, `?`.
Feature "class": 1-2 classes (constructor arguments declared with `def`, a parent with arguments - passed
on by name or as constants -, body fields with constant initialisers, methods reading and updating the
fields of `self`, calling earlier methods), objects created at top level and used (fields read and
updated, methods called, objects passed to functions), and user exception classes (optionally with a
field and a parent exception class) raised by functions and handled through the class hierarchy.
A field is only read where the reference semantics gives it a meaning: an argument that is passed on
to a parent is NOT read under its own name (the emitted constructor does not assign it)."""

INT, BOOL, STR, LIST, OPT = "Int", "Bool", "Str", "List[Int]", "Int?"


class G:
    def __init__(self, rng, features=None):
        self.r = rng
        self.f = features
        self.n = 0
        self.lines = []
        self.funs = []   # (name, [types], ret or None, raises)
        self.tags = set()
        self.pairs = []  # (fully parenthesised, minimally parenthesised) renderings
        self.ro = set()  # names that must not be reassigned (parameters, loop variables)
        self.classes = {}   # name -> {"params": [(n, t)], "fields": {n: t}, "methods": [(n, [t], ret)], "parent": name|None}
        self.excs = []      # (name, [param types], parent or None, has_code_field)
        self.objs = []      # (variable, class name)  top-level objects

    def on(self, k):
        return self.f is None or k in self.f

    def fresh(self, p="v"):
        self.n += 1
        return f"{p}{self.n}"

    def emit(self, ind, s):
        self.lines.append("    " * ind + s)

    # ---------------------------------------------------------------- expressions
    # Expressions are trees: ("a", text) atom | ("b", op, level, l, r) | ("u", op, x); rendered either fully
    # parenthesised or with the fewest parentheses the parser's levels allow (parse/operation.rs: every
    # level is right-recursive; 7 and/or, 6 comparisons, 4 + -, 3 * // mod, 1 ^).
    LEVEL = {"and": 7, "or": 7, "<": 6, "<=": 6, ">": 6, ">=": 6, "=": 6, "in": 6, "+": 4, "-": 4,
             "*": 3, "//": 3, "mod": 3, "^": 1}

    def lit(self, ty):
        r = self.r
        if ty == INT:
            return str(r.choice([0, 1, 2, 3, 4, 5, 7, 10, 12]))
        if ty == BOOL:
            return r.choice(["True", "False"])
        if ty == STR:
            return '"' + r.choice(["a", "bc", "x y", "", "hi"]) + '"'
        if ty == LIST:
            return "[" + ", ".join(self.lit(INT) for _ in range(r.randint(1, 4))) + "]"
        if ty == OPT:
            return r.choice(["None", self.lit(INT)])
        raise ValueError(ty)

    def b(self, op, l, r_):
        return ("b", op, self.LEVEL[op], l, r_)

    def isa(self, c, target):
        while c is not None:
            if c == target:
                return True
            c = self.classes[c]["parent"]
        return False

    def construct(self, cname, env, d):
        args = ", ".join(self.full(self.tree(t, env, min(d, 1))) for _, t in self.classes[cname]["params"])
        return f"{cname}({args})"

    def tree(self, ty, env, d):
        r = self.r
        if isinstance(ty, tuple):      # ("obj", class): a variable holding such an object, or a constructor call
            vs = [n for n, t in env.items() if isinstance(t, tuple) and self.isa(t[1], ty[1])]
            vs += [n for n, c in self.objs if self.isa(c, ty[1])]
            if vs and r.random() < 0.7:
                return ("a", r.choice(vs))
            return ("a", self.construct(ty[1], {k: v for k, v in env.items() if not isinstance(v, tuple)}, 1))
        vs = [n for n, t in env.items() if t == ty]
        if d <= 0 or r.random() < 0.2:
            if vs and r.random() < 0.7:
                return ("a", r.choice(vs))
            return ("a", self.lit(ty if ty != OPT else INT))
        if ty == INT:
            k = r.choice(["arith"] * 6 + ["div", "call", "call", "index", "pow", "var"])
            if k == "arith":
                return self.b(r.choice(["+", "-", "*"]), self.tree(INT, env, d - 1), self.tree(INT, env, d - 1))
            if k == "div" and self.on("div"):
                self.tags.add("div")
                return self.b(r.choice(["//", "mod"]), self.tree(INT, env, d - 1), self.tree(INT, env, d - 1))
            if k == "pow" and self.on("pow"):
                self.tags.add("pow")
                return self.b("^", self.tree(INT, env, 0), ("a", str(r.choice([0, 1, 2, 3]))))
            if k == "call":
                fs = [f for f in self.funs if f[2] == INT and not f[3]]
                if fs:
                    f = r.choice(fs)
                    return ("a", f"{f[0]}({', '.join(self.expr(t, env, d - 1) for t in f[1])})")
            if k == "index" and self.on("index"):
                ls = [n for n, t in env.items() if t == LIST]
                if ls:
                    self.tags.add("index")
                    return ("a", f"{r.choice(ls)}[{r.choice([0, 0, 1, -1, 2, 5])}]")
            if vs:
                return ("a", r.choice(vs))
            return ("a", self.lit(INT))
        if ty == BOOL:
            k = r.choice(["cmp"] * 4 + ["and", "or", "not", "in", "eqs"])
            if k == "cmp":
                return self.b(r.choice(["<", "<=", ">", ">=", "="]), self.tree(INT, env, d - 1), self.tree(INT, env, d - 1))
            if k in ("and", "or"):
                return self.b(k, self.tree(BOOL, env, d - 1), self.tree(BOOL, env, d - 1))
            if k == "not":
                return ("u", "not", self.tree(BOOL, env, d - 1))
            if k == "in" and self.on("in"):
                ls = [n for n, t in env.items() if t == LIST]
                if ls:
                    self.tags.add("in")
                    return self.b("in", self.tree(INT, env, 0), ("a", r.choice(ls)))
            if k == "eqs":
                return self.b("=", self.tree(STR, env, 0), self.tree(STR, env, 0))
            return ("a", self.lit(BOOL))
        if ty == STR:
            if r.random() < 0.4:
                return self.b("+", self.tree(STR, env, d - 1), self.tree(STR, env, d - 1))
            return ("a", r.choice(vs) if vs and r.random() < 0.6 else self.lit(STR))
        if ty in (LIST, OPT):
            return ("a", r.choice(vs) if vs and r.random() < 0.6 else self.lit(ty))
        raise ValueError(ty)

    def full(self, t):
        if t[0] == "a":
            return t[1]
        if t[0] == "u":
            return f"({t[1]} {self.full(t[2])})"
        return f"({self.full(t[3])} {t[1]} {self.full(t[4])})"

    def level(self, t):
        # `not` takes a whole expression to its right (parse_level_2 calls parse_expression): loosest
        return 0 if t[0] == "a" else 8 if t[0] == "u" else t[2]

    def mini(self, t):
        if t[0] == "a":
            return t[1]
        if t[0] == "u":
            return f"{t[1]} {self.mini(t[2])}"
        L = t[2]
        l, r_ = self.mini(t[3]), self.mini(t[4])
        if self.level(t[3]) >= L:
            l = f"({l})"
        if self.level(t[4]) > L:
            r_ = f"({r_})"
        return f"{l} {t[1]} {r_}"

    def expr(self, ty, env, d):
        """expression text; the twin rendering goes to self.twin (same order of random choices)"""
        t = self.tree(ty, env, d)
        self.pairs.append((self.full(t), self.mini(t)))
        return f"\x01{len(self.pairs) - 1}\x02"

    def operand(self, ty, env, d):
        """an expression in operand position of a range (level 3): parenthesised unless atomic"""
        t = self.tree(ty, env, d)
        m = self.mini(t)
        self.pairs.append((self.full(t), m if t[0] == "a" else f"({m})"))
        return f"\x01{len(self.pairs) - 1}\x02"

    def bounded(self, env):
        """an Int expression of small magnitude: `e mod k` (or an atom when `mod` is switched off)"""
        if not self.on("div"):
            return self.expr(INT, env, 0)
        t = self.b("mod", self.tree(INT, env, 1), ("a", str(self.r.choice([7, 10, 13, 50]))))
        self.pairs.append((self.full(t), self.mini(t)))
        self.tags.add("div")
        return f"\x01{len(self.pairs) - 1}\x02"

    def range_expr(self, env):
        r = self.r
        a, b = self.operand(INT, env, 1), self.operand(INT, env, 1)
        incl = r.random() < 0.5
        s = ""
        if self.on("range_step") and r.random() < 0.5:
            st = r.choice([1, 2, 3, -1, -2]) if self.on("neg_step") else r.choice([1, 2, 3])
            s = f" .. {st}" if st > 0 else f" .. (0 - {-st})"
            self.tags.add("range_step_neg" if st < 0 else "range_step")
            if st < 0 and r.random() < 0.7:
                a, b = b, a
        self.tags.add("range_incl" if incl else "range_excl")
        return f"{a} {'..=' if incl else '..'} {b}{s}"

    # ---------------------------------------------------------------- statements
    def block(self, ind, env, d, n, fun=None, loop=False):
        env = dict(env)
        before = len(self.lines)
        for _ in range(n):
            self.stmt(ind, env, d, fun, loop)
        if len(self.lines) == before and n > 0:
            self.emit(ind, f"print({self.expr(INT, env, 1)})")
        return env

    def valued_block(self, ind, env, d, ty, fun=None):
        """a block whose value is its last expression (of type ty)"""
        env = self.block(ind, env, d - 1, self.r.randint(0, 2), fun)
        k = self.r.random()
        if k < 0.25 and d > 1 and self.on("if"):
            self.emit(ind, f"if {self.expr(BOOL, env, 1)} then")
            self.valued_block(ind + 1, env, d - 1, ty, fun)
            self.emit(ind, "else")
            self.valued_block(ind + 1, env, d - 1, ty, fun)
            self.tags.add("value_if")
        elif k < 0.4 and d > 1 and self.on("match"):
            self.emit(ind, f"match {self.expr(INT, env, 1)}")
            for c in self.r.sample([0, 1, 2, 3, 4], self.r.randint(1, 3)):
                self.emit(ind + 1, f"{c} => {self.expr(ty, env, 1)}")
            self.emit(ind + 1, f"_ => {self.expr(ty, env, 1)}")
            self.tags.add("value_match")
        else:
            self.emit(ind, self.expr(ty, env, 2))

    def stmt(self, ind, env, d, fun, loop):
        r = self.r
        kinds = ["def"] * 3 + ["print"] * 3 + ["reassign"] * 2
        if d > 0:
            kinds += ["if", "if", "while", "for", "for", "match", "defif", "defmatch", "handle"]
        if fun and fun[1] and d > 0:
            kinds += ["ret"]
        if self.procs(env):
            kinds += ["mcall"] * 2
        if d > 0 and self.excs and any(f[3] and f[2] == INT for f in self.funs):
            kinds += ["handle"] * 2
        k = r.choice(kinds)
        if k == "def":
            ty = r.choice([INT, INT, INT, BOOL, STR, LIST, OPT])
            name = self.fresh()
            ann = f": {ty}" if ty == OPT or (ty != LIST and r.random() < 0.3) else ""
            if r.random() < 0.12 and ty == INT and self.on("tuple"):
                n2 = self.fresh()
                self.emit(ind, f"def ({name}, {n2}) := ({self.expr(INT, env, 1)}, {self.expr(INT, env, 1)})")
                env[n2] = INT
                self.tags.add("tuple")
            elif ty == INT and r.random() < 0.15 and self.on("question") and [n for n, t in env.items() if t == OPT]:
                o = r.choice([n for n, t in env.items() if t == OPT])
                self.emit(ind, f"def {name}: Int := {o} ? {self.expr(INT, env, 0)}")
                self.tags.add("question")
            else:
                self.emit(ind, f"def {name}{ann} := {self.expr(ty, env, 2)}")
            env[name] = ty
        elif k == "print":
            ty = r.choice([INT, INT, BOOL, STR, LIST])
            if r.random() < 0.15:
                self.emit(ind, f"print({self.expr(ty, env, 2)}, {self.expr(INT, env, 1)})")
            else:
                self.emit(ind, f"print({self.expr(ty, env, 2)})")
        elif k == "reassign":
            vs = [n for n, t in env.items() if t == INT and n not in self.ro]
            if not vs:
                return
            v = r.choice(vs)
            if loop or "." in v:
                # state that survives an iteration or a call (loop variables, fields) is kept small: repeated
                # multiplication would make the numbers astronomically long and stall all three evaluators
                op = r.choice([":=", ":=", "+=", "-="])
                self.emit(ind, f"{v} {op} {self.bounded(env)}")
                self.tags.add("field_update" if "." in v else "reassign")
            else:
                op = r.choice([":=", ":=", "+=", "-=", "*="])
                self.emit(ind, f"{v} {op} {self.expr(INT, env, 1)}")
                self.tags.add("reassign")
        elif k == "if" and self.on("if"):
            self.emit(ind, f"if {self.expr(BOOL, env, 2)} then")
            self.block(ind + 1, env, d - 1, r.randint(1, 2), fun, loop)
            if r.random() < 0.6:
                self.emit(ind, "else")
                self.block(ind + 1, env, d - 1, r.randint(1, 2), fun, loop)
            self.tags.add("if")
        elif k == "while" and self.on("while"):
            c = self.fresh("w")
            self.emit(ind, f"def {c} := 0")
            env[c] = INT
            self.ro.add(c)
            self.emit(ind, f"while {c} < {r.randint(1, 4)} do")
            self.emit(ind + 1, f"{c} := {c} + 1")
            self.block(ind + 1, env, d - 1, r.randint(1, 2), fun, True)
            self.tags.add("while")
        elif k == "for" and self.on("for"):
            i = self.fresh("i")
            if r.random() < 0.75:
                self.emit(ind, f"for {i} in {self.range_expr(env)} do")
            else:
                self.emit(ind, f"for {i} in {self.expr(LIST, env, 1)} do")
                self.tags.add("for_list")
            self.ro.add(i)
            self.block(ind + 1, {**env, i: INT}, d - 1, r.randint(1, 2), fun, True)
            self.tags.add("for")
        elif k == "match" and self.on("match"):
            self.emit(ind, f"match {self.expr(INT, env, 1)}")
            for c in r.sample([0, 1, 2, 3, 5], r.randint(1, 3)):
                self.emit(ind + 1, f"{c} => print({self.expr(r.choice([INT, STR]), env, 1)})")
            if r.random() < 0.8:
                self.emit(ind + 1, f"_ => print({self.expr(INT, env, 1)})")
            self.tags.add("match")
        elif k == "defif" and self.on("if"):
            ty = r.choice([INT, STR])
            name = self.fresh()
            if r.random() < 0.5:
                self.emit(ind, f"def {name}: {ty} := if {self.expr(BOOL, env, 1)} then {self.expr(ty, env, 1)} else {self.expr(ty, env, 1)}")
                self.tags.add("def_ternary")
            else:
                self.emit(ind, f"def {name}: {ty} := if {self.expr(BOOL, env, 1)} then")
                self.valued_block(ind + 1, env, d - 1, ty, fun)
                self.emit(ind, "else")
                self.valued_block(ind + 1, env, d - 1, ty, fun)
                self.tags.add("def_if_block")
            env[name] = ty
        elif k == "defmatch" and self.on("match"):
            ty = r.choice([INT, STR])
            name = self.fresh()
            self.emit(ind, f"def {name}: {ty} := match {self.expr(INT, env, 1)}")
            for c in r.sample([0, 1, 2, 3, 5], r.randint(1, 3)):
                self.emit(ind + 1, f"{c} => {self.expr(ty, env, 1)}")
            self.emit(ind + 1, f"_ => {self.expr(ty, env, 1)}")
            env[name] = ty
            self.tags.add("def_match")
        elif k == "handle" and self.on("handle"):
            fs = [f for f in self.funs if f[3] and f[2] == INT]
            if not fs:
                return
            f = r.choice(fs)
            name = self.fresh()
            self.emit(ind, f"def {name}: Int := {f[0]}({', '.join(self.expr(t, env, 1) for t in f[1])}) handle")
            exc = f[3] if isinstance(f[3], str) else None
            if exc is None:
                arms = ["Exception"]
            else:
                # the raised class, one of its ancestors, or Exception; sometimes a more specific arm first
                chain = [exc]
                while self.exc_parent(chain[-1]):
                    chain.append(self.exc_parent(chain[-1]))
                chain.append("Exception")
                k0 = r.randrange(len(chain))
                arms = [chain[k0]]
                if k0 > 0 and r.random() < 0.4:
                    arms = [chain[r.randrange(k0)], chain[k0]]
                    self.tags.add("handle_two_arms")
                self.tags.add("handle_user_exception" if arms[-1] != "Exception" else "handle_user_exception_as_Exception")
            for cls in arms:
                self.emit(ind + 1, f"err: {cls} =>")
                if r.random() < 0.5:
                    self.emit(ind + 2, "print(err)")
                    self.tags.add("print_exception")
                if cls != "Exception" and self.exc_code(cls) and r.random() < 0.6:
                    self.emit(ind + 2, f"err.code + {self.expr(INT, env, 0)}")
                    self.tags.add("exception_field")
                else:
                    self.emit(ind + 2, self.expr(INT, env, 1))
            env[name] = INT
            self.tags.add("handle")
        elif k == "mcall":
            recv, m, ats = r.choice(self.procs(env))
            self.emit(ind, f"{recv}.{m}({', '.join(self.expr(t, env, 1) for t in ats)})")
            self.tags.add("method_call_statement")
        elif k == "ret":
            self.emit(ind, f"if {self.expr(BOOL, env, 1)} then return {self.expr(fun[1], env, 1)}")
            self.tags.add("early_return")

    def fun(self):
        r = self.r
        name = self.fresh("f")
        args = [(self.fresh("a"), r.choice([INT, INT, BOOL, STR])) for _ in range(r.randint(0, 3))]
        ret = r.choice([INT, INT, INT, STR, BOOL, None])
        raises = ret == INT and self.on("handle") and r.random() < (0.6 if self.excs else 0.3)
        if raises and self.excs and r.random() < 0.8:
            raises = r.choice(self.excs)[0]          # the name of a user exception class
        if self.classes and self.on("class") and r.random() < 0.35:
            cn = r.choice(sorted(self.classes))
            args.append((self.fresh("o"), ("obj", cn)))
            self.tags.add("object_parameter")
        sig = ", ".join(f"{a}: {t[1] if isinstance(t, tuple) else t}" for a, t in args)
        rcls = raises if isinstance(raises, str) else "Exception"
        head = f"def {name}({sig})" + (f" -> {ret}" if ret else "") + (f" raise [{rcls}]" if raises else "") + " =>"
        env = {a: t for a, t in args}
        for a, t in args:
            if isinstance(t, tuple):
                for fn, ft in self.visible_fields(t[1]).items():
                    env[f"{a}.{fn}"] = ft
        self.ro.update(a for a, _ in args)
        if ret and r.random() < 0.25 and not raises:
            self.emit(0, head + " " + self.expr(ret, env, 2))
            self.tags.add("fun_oneline")
        else:
            self.emit(0, head)
            if raises:
                msg = '"' + r.choice(['boom', 'bad', 'no']) + '"'
                if isinstance(raises, str):
                    what = f"{raises}({', '.join(msg if t == STR else self.expr(INT, env, 0) for t in self.exc_params(raises))})"
                    self.tags.add("raise_user_exception")
                else:
                    what = f"Exception({msg})"
                self.emit(1, f"if {self.expr(BOOL, env, 1)} then raise {what}")
                self.tags.add("raise")
            if ret:
                self.valued_block(1, env, 2, ret, (name, ret))
                self.tags.add("fun_implicit_return")
            else:
                self.block(1, env, 1, r.randint(1, 3), (name, None))
                self.tags.add("procedure")
        self.funs.append((name, [t for _, t in args], ret, raises))

    # ---------------------------------------------------------------- classes
    def exc_parent(self, name):
        return next(e[2] for e in self.excs if e[0] == name)

    def exc_params(self, name):
        return next(e[1] for e in self.excs if e[0] == name)

    def exc_code(self, name):
        return next(e[3] for e in self.excs if e[0] == name)

    def visible_fields(self, cname):
        """fields an object of the class has under the reference semantics: own arguments not passed on,
        body fields, and the parent's"""
        out = {}
        chain = []
        while cname is not None:
            chain.append(cname)
            cname = self.classes[cname]["parent"]
        for c in reversed(chain):
            out.update(self.classes[c]["fields"])
        return out

    def all_methods(self, cname):
        out = {}
        chain = []
        while cname is not None:
            chain.append(cname)
            cname = self.classes[cname]["parent"]
        for c in reversed(chain):
            for m in self.classes[c]["methods"]:
                out[m[0]] = m
        return list(out.values())

    def procs(self, env):
        """(receiver, method, argument types) of the procedures callable on objects in scope"""
        out = []
        recv = [(n, t[1]) for n, t in env.items() if isinstance(t, tuple)] + list(self.objs)
        for n, c in recv:
            for m in self.all_methods(c):
                if m[2] is None:
                    out.append((n, m[0], m[1]))
        return out

    def exception_class(self):
        r = self.r
        name = self.fresh("E")
        parent = r.choice(self.excs) if self.excs and r.random() < 0.5 else None
        code = r.random() < 0.5
        if parent is None:
            # class E(def code: Int, def msg: Str): Exception(msg)   - msg is passed on, code becomes a field
            params = ([INT] if code else []) + [STR]
            head = ", ".join((["def code: Int"] if code else []) + ["def msg: Str"])
            self.emit(0, f"class {name}({head}): Exception(msg)")
            has_code = code
        else:
            pn, pparams, _, pcode = parent
            if pparams == [STR] and r.random() < 0.3:
                # own Int argument (a field), constant message
                params, head, call = [INT], "def n: Int", f"{pn}(\"{r.choice(['fixed', 'sub'])}\")"
                self.tags.add("parent_constant_argument")
            else:
                # every argument of the parent is passed on under a new name
                names = [("c" if t == INT else "msg") + str(k) for k, t in enumerate(pparams)]
                params = list(pparams)
                head = ", ".join(f"def {n}: {t}" for n, t in zip(names, pparams))
                call = f"{pn}({', '.join(names)})"
            self.emit(0, f"class {name}({head}): {call}")
            has_code = pcode
            self.tags.add("exception_subclass")
        self.excs.append((name, params, parent[0] if parent else None, has_code))
        self.tags.add("exception_class")

    def klass(self):
        r = self.r
        name = self.fresh("C")
        plain = [c for c in self.classes]
        parent = r.choice(sorted(plain)) if plain and r.random() < 0.5 else None
        params, fields, call = [], {}, ""
        for _ in range(r.randint(0 if parent else 1, 2)):
            a = self.fresh("x")
            t = r.choice([INT, INT, INT, STR, BOOL])
            params.append((a, t))
            fields[a] = t
        if parent:
            pargs = []
            for pa, pt in self.classes[parent]["params"]:
                if pt != STR or r.random() < 0.6:
                    a = self.fresh("p")        # passed on: not a field under this name
                    params.append((a, pt))
                    pargs.append(a)
                else:
                    pargs.append(self.lit(STR))   # the parser admits only names and strings as parent arguments
                    self.tags.add("parent_constant_argument")
            r.shuffle(params)
            call = f": {parent}({', '.join(pargs)})" if pargs else f": {parent}"
            self.tags.add("class_parent")
        head = ", ".join(f"def {a}: {t}" for a, t in params)
        self.emit(0, f"class {name}" + (f"({head})" if params else "") + call)
        self.classes[name] = {"params": params, "fields": fields, "methods": [], "parent": parent}
        for _ in range(r.randint(0, 2)):
            z = self.fresh("z")
            t = r.choice([INT, INT, STR, BOOL])
            self.emit(1, f"def {z}: {t} := {self.lit(t)}")
            fields[z] = t
            self.tags.add("body_field")
        saved_funs, saved_ro = list(self.funs), set(self.ro)
        # methods of ancestors are callable on self
        for m in self.all_methods(name):
            self.funs.append((f"self.{m[0]}", m[1], m[2], False))
        n_methods = r.randint(1, 3)
        for _ in range(n_methods):
            m = self.fresh("m")
            args = [(self.fresh("a"), r.choice([INT, INT, BOOL, STR])) for _ in range(r.randint(0, 2))]
            ret = r.choice([INT, INT, STR, BOOL, None, None])
            sig = ", ".join(["self"] + [f"{a}: {t}" for a, t in args])
            env = {a: t for a, t in args}
            self.ro.update(a for a, _ in args)
            for fn, ft in self.visible_fields(name).items():
                env[f"self.{fn}"] = ft
            headm = f"def {m}({sig})" + (f" -> {ret}" if ret else "") + " =>"
            if ret and r.random() < 0.3:
                self.emit(1, headm + " " + self.expr(ret, env, 2))
            else:
                self.emit(1, headm)
                if ret:
                    self.valued_block(2, env, 2, ret, (m, ret))
                    self.tags.add("method_implicit_return")
                else:
                    ints = [f for f, t in self.visible_fields(name).items() if t == INT]
                    updated = bool(ints) and r.random() < 0.8
                    if updated:
                        f0 = r.choice(ints)
                        op = r.choice([":=", "+=", "-="])
                        self.emit(2, f"self.{f0} {op} {self.bounded(env)}")
                        self.tags.add("field_update")
                    self.block(2, env, 1, r.randint(0 if updated else 1, 2), (m, None))
                    self.tags.add("method_procedure")
            self.classes[name]["methods"].append((m, [t for _, t in args], ret))
            self.funs.append((f"self.{m}", [t for _, t in args], ret, False))
        self.funs, self.ro = saved_funs, saved_ro
        if not fields and not self.classes[name]["methods"] and not params and not parent:
            self.emit(1, "pass")
        self.tags.add("class")

    def new_object(self, env):
        r = self.r
        cn = r.choice(sorted(self.classes))
        o = self.fresh("o")
        self.emit(0, f"def {o} := {cn}({', '.join(self.expr(t, env, 1) for _, t in self.classes[cn]['params'])})")
        self.objs.append((o, cn))
        self.ro.add(o)
        for fn, ft in self.visible_fields(cn).items():
            env[f"{o}.{fn}"] = ft
        for m in self.all_methods(cn):
            if m[2] is not None:
                self.funs.append((f"{o}.{m[0]}", m[1], m[2], False))
        self.tags.add("object")

    def program(self, size):
        r = self.r
        env = {}
        with_classes = self.f is not None and "class" in self.f or (self.f is None and r.random() < 0.4)
        if with_classes:
            for _ in range(r.randint(0, 2)):
                self.exception_class()
            for _ in range(r.randint(1, 2)):
                self.klass()
        for _ in range(r.randint(0, 3)):
            if self.on("fun"):
                self.fun()
        if with_classes:
            for _ in range(r.randint(1, 2)):
                self.new_object(env)
        for _ in range(size):
            self.stmt(0, env, 2, None, False)
            if self.on("fun") and r.random() < 0.1:
                self.fun()
        # calls of procedures and raising functions at the end
        for f in self.funs:
            if f[2] is None and r.random() < 0.8:
                self.emit(0, f"{f[0]}({', '.join(self.expr(t, env, 1) for t in f[1])})")
            if f[3] and r.random() < 0.3 and self.on("uncaught"):
                self.emit(0, f"print({f[0]}({', '.join(self.expr(t, env, 1) for t in f[1])}))")
                self.tags.add("maybe_uncaught")
        return "\n".join(self.lines) + "\n"


def program(rng, size=6, features=None):
    """(source, tags, twin): twin is the same program with the fewest parentheses, or None if identical"""
    import re
    g = G(rng, features)
    raw = g.program(size)

    def resolve(text, k):
        while "\x01" in text:
            text = re.sub("\x01(\\d+)\x02", lambda m: g.pairs[int(m.group(1))][k], text)
        return text
    src, twin = resolve(raw, 0), resolve(raw, 1)
    return src, sorted(g.tags), (twin if twin != src else None)
