"""C07 - immutability.

proof        : props/C07.v (no write to a fin or undefined name on any path; shadowing_sound for the
               name@offset map; mutable_reassign_ok; refuted: fin fields [D11]; outside_known)
tie          : verdict of the model == verdict of mamba_to_python on the rendered skeleton, every skeleton
               of a write-oriented alphabet up to a size bound + random larger ones
direct oracle: the lexical specification computed in python on the skeleton: accepted although a write
               goes to a fin / undefined name or a fin field; rejected as immutable / undefined although the
               target is a visible mutable definition (positive half)
"""
from .common import Check, build_harness
from . import scope as S

THEOREMS = ["C07_sound_vars", "C07_sound_refuted", "C07_sound_outside_known", "C07_shadowing_sound",
            "C07_mutable_reassign_ok", "C07_fin_or_undefined_reassign_rejected"]


def small_alphabet():
    V, W, O = 1, 2, 50
    k = ("const",)
    atoms = [("simple", ("def", True, [V], k)), ("simple", ("def", False, [V], k)),
             ("simple", ("assign", [V], k)), ("simple", ("aug", V, k)),
             ("simple", ("def", False, [V, W], k)), ("simple", ("assign", [V, W], k)),
             ("simple", ("assign", [W], k)),
             ("simple", ("def", True, [O], S.NEW)), ("simple", ("def", False, [O], S.NEW)),
             ("simple", ("fset", O, 1, k)), ("simple", ("fset", O, 2, k))]
    comp = [(1, lambda b: ("if", k, b)), (2, lambda a, b: ("ifelse", k, a, b)),
            (1, lambda b: ("for", [W], k, b)),
            (1, lambda b: ("match", k, [((False, W), b)])),
            (1, lambda b: ("fun", 1, [(False, V), (True, W)], [], False, b))]
    return atoms, comp


def cases_for(ck, quick):
    tb = S.Tables(S.HIERARCHIES[0])
    atoms, comp = small_alphabet()
    memo, ex = {}, []
    for n in (1, 2):
        ex += S.enum_blocks(atoms, comp, n, memo)                # complete
    three = S.enum_blocks(atoms, comp, 3, memo)
    if not quick:
        ex += three + S.enum_blocks(atoms, comp, 4, memo)        # complete
    else:
        ex += ck.rng.sample(three, min(len(three), 1250))
    ex = [p for p in ex if S.shape(p).count("fun{") <= 1]
    cases = [(p, tb) for p in ex]
    n_ex = len(cases)
    feats = {"fun", "call", "loops", "match", "tuple", "obj"}
    cases += S.random_cases(ck.rng, 500 if quick else 12000, size=(3, 14), features=feats, p_bad=0.03)
    return cases, n_ex


def run(tier, replay=None):
    ck = Check("C07", tier)
    quick = tier == "quick"
    ck.proof(["props/C07.vo"], "props.C07", THEOREMS)
    build_harness(ck.log)
    if replay:
        cases, n_ex = S.load_replay(replay), 0
    else:
        cases, n_ex = cases_for(ck, quick)
    recs = S.evaluate(cases, ck.log)
    st = S.correspondence(ck, recs, "Scope.verdict_program vs mamba_to_python (C07 stream)")

    bad = S.oracle_selftest()
    if bad:
        ck.broken.append({"kind": "oracle-selftest", "where": "lib/vlib/scope.py judge_*", "examples": bad[:5]})
    rep = S.Reporter(ck)
    n_sound = n_over = n_pos = 0
    for r in recs:
        js = S.judge_c07(r)
        for what, cause in js:
            if r.impl == "VAccept":
                n_sound += 1
            else:
                n_over += 1
            rep.report(what, cause, r)
        if not js and r.impl == "VAccept" and any(x in S.shape(r.p) for x in ("assign", "aug", "fset")):
            n_pos += 1                           # positive half exercised: writes to mutable definitions accepted
    ck.cov["direct_oracle"] = {"accepted_but_spec_forbids": n_sound, "rejected_but_spec_allows": n_over,
                               "accepted_programs_with_writes": n_pos, "causes": rep.summary()}
    samples = [{"mamba": r.src.split("\n", 12)[-1], "implementation": r.impl, "model": r.model}
               for r in recs if S.size(r.p) >= 5][:3]
    S.finish_cov(ck, recs, st,
                 f"skeleton programs rendered to Mamba: {n_ex} programs = all of <= 2 nodes and (quick) a sample of those "
                 "of 3 nodes (thorough: all of <= 4 nodes) over an alphabet of 11 definition/assignment statements (plain, fin, tuple, "
                 "compound, field through mutable/fin receiver, fin field) and 5 compound forms (if, if/else, for "
                 "variable, fin match binder, function with fin and mutable parameter), plus random programs of 3..14 "
                 "nodes; distinct by skeleton, non-trivial = at least 3 nodes", samples)
    return ck.finish()
