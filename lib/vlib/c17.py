"""C17 - Interoperability: the output's Python API mirrors the Mamba definitions.

proof        : props/C17.v over model/Convert.v + model/Api.v (api_py (conv a) = map py_sig (api_src a) for
               every well-formed typed AST, both flags; pieces; refuted witnesses)
tie          : names table regenerated; `gen` correspondence (typed AST -> Core) on class-heavy programs, both
               flags; on a sample of them the Coq functions api_src / py_sig / api_py / wf_api are evaluated on
               the implementation's typed AST and compared with (a) the definition list the generator wrote
               down and (b) python3's view of the text the implementation emitted
direct oracle: python3 `ast` of the emitted module (both flags) against the definition list computed from
               the Mamba source by this module's own generator
"""
import ast, json, re

from .common import Check, build_driver, build_harness, coq_eval, hexs, unhex, run_sharded, MH, BuildError
from . import convcorr

THEOREMS = ["C17_api", "C17_api_same_names", "C17_fun_sig_preserved", "C17_fun_arg_preserved",
            "C17_class_parents_preserved", "C17_init_signature", "C17_class_args_kept", "C17_class_args_lost",
            "C17_init_field_clobbers", "C17_init_exists", "C17_class_body",
            "C17_methods_preserved", "C17_same_names_refuted", "C17_duplicate_member_refuted",
            "C17_method_shadowed_by_field_refuted", "C17_class_args_lost_refuted", "C17_plain_statement_dropped"]

# ---------------------------------------------------------------------------------------------------
# generator: programs made of definitions, with the definition list written down while generating
# ---------------------------------------------------------------------------------------------------

LIT = {"Int": ["0", "1", "2", "7", "42"], "Str": ['"a"', '"x y"', '"mamba"'], "Bool": ["True", "False"]}
TYPES = ["Int", "Str", "Bool"]
# Mamba spelling, Python name, kind
OPS = [("+", "__add__", "self"), ("-", "__sub__", "self"), ("*", "__mul__", "self"), ("/", "__truediv__", "self"),
       ("//", "__floordiv__", "self"), ("^", "__pow__", "self"), ("mod", "__mod__", "self"),
       ("=", "__eq__", "bool"), ("<", "__lt__", "bool"), (">", "__gt__", "bool"), ("sqrt", "sqrt", "unary")]
PNAMES = ["a", "b", "c", "d", "e", "k", "n", "p", "q", "w"]


def P(name, ty, vararg=False, default=None, field=False):
    return {"name": name, "ty": ty, "vararg": vararg, "default": default, "field": field}


def psig(p):
    return [p["name"], bool(p["vararg"]), p["default"] is not None]


class Gen17:
    def __init__(self, rng, size, rare=0.03):
        self.r, self.size, self.rare = rng, size, rare
        self.lines, self.defs, self.tags = [], [], set()
        self.classes = {}     # name -> spec
        self.k = 0

    def fresh(self, prefix):
        self.k += 1
        return f"{prefix}{self.k}"

    # ---- parameters ---------------------------------------------------------------------------
    def params(self, maxn=4, allow_vararg=True, avoid=()):
        r = self.r
        n = r.choice([0, 1, 1, 2, 2, 3, 4][:maxn + 3])
        n = min(n, maxn)
        names = [x for x in PNAMES if x not in avoid]
        r.shuffle(names)
        ps = [P(names[i], r.choice(TYPES)) for i in range(n)]
        if n and r.random() < 0.5:
            if allow_vararg and r.random() < 0.35:
                ps[-1]["vararg"] = True
                if n >= 2 and r.random() < self.rare * 3:
                    # Mamba reads `f(vararg a: T, b: U)` as two positional parameters
                    ps[-1], ps[-2] = ps[-2], ps[-1]
                    self.tags.add("vararg-not-last")
            else:
                for p in ps[r.randrange(0, n):]:
                    p["default"] = r.choice(LIT[p["ty"]])
        return ps

    def ptext(self, p, is_carg=False):
        t = ""
        if is_carg and p["field"]:
            t += "def "
        if p["vararg"]:
            t += "vararg "
        t += f"{p['name']}: {p['ty']}"
        if p["default"] is not None:
            t += f" := {p['default']}"
        return t

    def value(self, ty, params):
        c = [p["name"] for p in params if p["ty"] == ty and not p["vararg"]]
        if c and self.r.random() < 0.6:
            return self.r.choice(c)
        return self.r.choice(LIT[ty]) if ty in LIT else "self"

    # ---- functions ----------------------------------------------------------------------------
    def function(self):
        r = self.r
        name = "size" if r.random() < self.rare else self.fresh("f")
        if name == "size":
            if any(d["kind"] == "fun" and d["name"] == "size" for d in self.defs):
                name = self.fresh("f")
            else:
                self.tags.add("size")
        ps = self.params()
        ret = r.choice(TYPES)
        self.lines.append(f"def {name}({', '.join(self.ptext(p) for p in ps)}) -> {ret} => {self.value(ret, ps)}")
        self.defs.append({"kind": "fun", "name": name, "params": [psig(p) for p in ps]})

    # ---- classes ------------------------------------------------------------------------------
    def ctor_params(self, spec):
        """Parameters (without self) of the constructor the Mamba text promises."""
        if spec["cargs"]:
            return spec["cargs"]
        if spec["init"] is not None:
            return spec["init"]
        return []

    def parent_args(self, parent, cargs):
        """Arguments for a parent with constructor parameters: identifiers (own class arguments) or string literals."""
        args = []
        for p in self.ctor_params(parent):
            if p["vararg"]:
                break
            if p["default"] is not None and self.r.random() < 0.5:
                break
            cand = [c["name"] for c in cargs if c["ty"] == p["ty"] and not c["vararg"]]
            if cand:
                args.append(self.r.choice(cand))
            elif p["ty"] == "Str":
                args.append(self.r.choice(LIT["Str"]))
            elif p["default"] is not None:
                break
            else:
                return None
        return args

    def method(self, cname, name, mamba_name=None, kind=None, abstract=False, with_self=True):
        r = self.r
        if kind in ("self", "bool"):
            ps = [P("other", cname)]
            ret = cname if kind == "self" else "Bool"
            body = "other" if kind == "self" else r.choice(LIT["Bool"])
        elif kind == "unary":
            ps, ret, body = [], "Int", r.choice(LIT["Int"])
        else:
            ps = self.params(maxn=3, avoid=("self",))
            ret = r.choice(TYPES)
            body = self.value(ret, ps)
        head = f"def {mamba_name or name}({', '.join(['self'] + [self.ptext(p) for p in ps])}) -> {ret}"
        return {"name": name, "params": [["self", False, False]] + [psig(p) for p in ps],
                "text": head if abstract else f"{head} => {body}", "ps": ps, "ret": ret}

    def interface(self):
        r = self.r
        name = self.fresh("T")
        parent = None
        types = [c for c in self.classes.values() if c["kind"] == "type"]
        if types and r.random() < 0.4:
            parent = r.choice(types)
        spec = {"kind": "type", "name": name, "cargs": [], "init": None, "parents": [parent["name"]] if parent else [],
                "abstract": [], "methods": [], "fields": [], "abstract_parent": parent is not None, "members": []}
        body = []
        for _ in range(r.randint(1, 3)):
            m = self.method(name, self.fresh("m"), abstract=True)
            spec["abstract"].append(m)
            spec["methods"].append(m)
            body.append(m["text"])
        if r.random() < 0.3:
            m = self.method(name, self.fresh("m"))
            spec["methods"].append(m)
            body.append(m["text"])
        self.lines.append(f"type {name}" + (f": {parent['name']}" if parent else ""))
        self.lines += ["    " + b for b in body]
        self.classes[name] = spec
        self.tags.add("interface")
        self.emit_def(spec)

    def all_abstract(self, spec, seen=()):
        out = list(spec["abstract"])
        for p in spec["parents"]:
            ps = self.classes[p]
            if ps["kind"] == "type" and p not in seen:
                out += self.all_abstract(ps, seen + (p,))
        return out

    def klass(self):
        r = self.r
        name = self.fresh("C")
        spec = {"kind": "class", "name": name, "cargs": [], "init": None, "parents": [], "abstract": [],
                "methods": [], "fields": [], "members": []}
        explicit = r.random() < 0.3
        if not explicit and r.random() < 0.7:
            cargs = self.params(maxn=3, allow_vararg=False)
            for c in cargs:
                c["field"] = r.random() < 0.6
            spec["cargs"] = cargs
            if cargs:
                self.tags.add("class-args")
        # parents
        parent_texts = []
        cands = list(self.classes.values())
        r.shuffle(cands)
        want = r.choice([0, 0, 1, 1, 2])
        for pc in cands:
            if len(spec["parents"]) >= want:
                break
            if pc["kind"] == "type":
                spec["parents"].append(pc["name"])
                parent_texts.append(pc["name"])
                continue
            args = self.parent_args(pc, spec["cargs"])
            if args is None:
                continue
            spec["parents"].append(pc["name"])
            parent_texts.append(pc["name"] + (f"({', '.join(args)})" if args else ""))
            if args:
                self.tags.add("parent-args")
        if len(spec["parents"]) > 1:
            self.tags.add("several-parents")
        body = []
        if r.random() < 0.15:
            body.append('"""doc of ' + name + '"""')
            spec["members"].append(("doc", None))
        # fields
        fields = []
        for _ in range(r.choice([0, 1, 1, 2])):
            fn = self.fresh("x")
            ty = r.choice(TYPES)
            if r.random() < self.rare * 2 and ty == "Int":
                a, b = r.choice(LIT["Int"]), r.choice(LIT["Int"])
                body += [f"def {fn}: Int := match {r.choice(LIT['Int'])}", f"    1 => {a}", f"    _ => {b}"]
                spec["members"].append(("branch-field", fn))
                self.tags.add("branch-field")
            else:
                body.append(f"def {fn}: {ty} := {r.choice(LIT[ty])}")
                spec["members"].append(("field", fn))
            fields.append((fn, ty))
            spec["fields"].append(fn)
        # explicit constructor
        if explicit:
            if not fields:
                fn = self.fresh("x")
                body.append(f"def {fn}: Int := 0")
                fields.append((fn, "Int"))
                spec["fields"].append(fn)
                spec["members"].append(("field", fn))
            ips = self.params(maxn=3, allow_vararg=False, avoid=("self",))
            fn, fty = r.choice(fields)
            val = self.value(fty, ips) if fty in LIT else "0"
            body.append(f"def __init__({', '.join(['self'] + [self.ptext(p) for p in ips])}) => self.{fn} := {val}")
            spec["init"] = ips
            spec["members"].append(("method", "__init__"))
            self.tags.add("explicit-init")
        # implementations of the interfaces
        done = set()
        for p in spec["parents"]:
            if self.classes[p]["kind"] == "type":
                for m in self.all_abstract(self.classes[p]):
                    if m["name"] in done:
                        continue
                    done.add(m["name"])
                    impl = {"name": m["name"], "params": m["params"],
                            "text": m["text"] + " => " + self.value(m["ret"], m["ps"])}
                    spec["methods"].append(impl)
                    spec["members"].append(("method", m["name"]))
                    body.append(impl["text"])
                self.tags.add("implements")
        # own methods and operators
        for _ in range(r.choice([0, 1, 1, 2, 3])):
            if r.random() < 0.3:
                sym, py, kind = r.choice(OPS)
                if any(m["name"] == py for m in spec["methods"]):
                    continue
                m = self.method(name, py, mamba_name=sym, kind=kind)
                self.tags.add("operator")
            else:
                mn = self.fresh("m")
                if r.random() < self.rare and not any(m["name"] == "size" for m in spec["methods"]):
                    mn = "size"
                    self.tags.add("size")
                m = self.method(name, mn)
            spec["methods"].append(m)
            spec["members"].append(("method", m["name"]))
            body.append(m["text"])
            if r.random() < self.rare / 2 and m["name"] not in ("size",) and not m["name"].startswith("__"):
                # a second member of the same name (the checker accepts it)
                if r.random() < 0.5:
                    m2 = self.method(name, m["name"])
                    spec["methods"].append(m2)
                    spec["members"].append(("method", m2["name"]))
                    body.append(m2["text"])
                else:
                    body.append(f"def {m['name']}: Int := 3")
                    spec["fields"].append(m["name"])
                    spec["members"].append(("field", m["name"]))
                self.tags.add("dup-member")
        head = f"class {name}"
        if spec["cargs"]:
            head += "(" + ", ".join(self.ptext(c, is_carg=True) for c in spec["cargs"]) + ")"
        if parent_texts:
            head += ": " + ", ".join(parent_texts)
        self.lines.append(head)
        self.lines += ["    " + b for b in body]
        self.classes[name] = spec
        self.emit_def(spec)

    def emit_def(self, spec):
        if spec["cargs"]:
            ctor = [["self", False, False]] + [psig(c) for c in spec["cargs"]]
        elif spec["init"] is not None:
            ctor = [["self", False, False]] + [psig(c) for c in spec["init"]]
        else:
            ctor = None
        needs_init = any(self.ctor_params(self.classes[p]) for p in spec["parents"])
        self.defs.append({"kind": "class", "name": spec["name"], "is_type": spec["kind"] == "type",
                          "bases": list(spec["parents"]), "ctor": ctor, "parents_need_init": bool(needs_init),
                          "methods": [[m["name"], m["params"]] for m in spec["methods"] if m["name"] != "__init__"],
                          "fields": list(spec["fields"]), "members": [list(m) for m in spec["members"]]})

    def program(self):
        r = self.r
        for _ in range(self.size):
            x = r.random()
            if x < 0.3:
                self.function()
            elif x < 0.45:
                self.interface()
            else:
                self.klass()
            if r.random() < 0.5:
                self.lines.append("")
        if r.random() < 0.3:
            self.lines.append('print("done")')
        return "\n".join(self.lines) + "\n", self.defs, sorted(self.tags)


HAND = [
    # (source, definition list) for shapes the generator reaches rarely
    ("class A(def a: Int, b: Str := \"x\")\n    def get(self) -> Int => self.a\n\n"
     "class B(def a: Int): A(a)\n    def more(self, vararg xs: Int) -> Int => self.a\n\n"
     "def top(x: Int, y: Int := 3) -> Int => x\n",
     [{"kind": "class", "name": "A", "is_type": False, "bases": [], "parents_need_init": False,
       "ctor": [["self", False, False], ["a", False, False], ["b", False, True]],
       "methods": [["get", [["self", False, False]]]], "fields": [], "members": [["method", "get"]]},
      {"kind": "class", "name": "B", "is_type": False, "bases": ["A"], "parents_need_init": True,
       "ctor": [["self", False, False], ["a", False, False]],
       "methods": [["more", [["self", False, False], ["xs", True, False]]]], "fields": [], "members": [["method", "more"]]},
      {"kind": "fun", "name": "top", "params": [["x", False, False], ["y", False, True]]}], ["hand"]),
    ("type T\n    def area(self) -> Int\n\ntype U: T\n    def name(self) -> Str\n\n"
     "class M(nm: Str)\n\nclass I: U, M(\"s\")\n    def k: Int := 1\n"
     "    def __init__(self, k: Int, m: Int := 4) => self.k := k + m\n"
     "    def area(self) -> Int => self.k\n    def name(self) -> Str => \"i\"\n",
     [{"kind": "class", "name": "T", "is_type": True, "bases": [], "ctor": None, "parents_need_init": False,
       "methods": [["area", [["self", False, False]]]], "fields": [], "members": []},
      {"kind": "class", "name": "U", "is_type": True, "bases": ["T"], "ctor": None, "parents_need_init": False,
       "methods": [["name", [["self", False, False]]]], "fields": [], "members": []},
      {"kind": "class", "name": "M", "is_type": False, "bases": [], "parents_need_init": False,
       "ctor": [["self", False, False], ["nm", False, False]], "methods": [], "fields": [], "members": []},
      {"kind": "class", "name": "I", "is_type": False, "bases": ["U", "M"], "parents_need_init": True,
       "ctor": [["self", False, False], ["k", False, False], ["m", False, True]],
       "methods": [["area", [["self", False, False]]], ["name", [["self", False, False]]]], "fields": ["k"],
       "members": [["field", "k"], ["method", "__init__"], ["method", "area"], ["method", "name"]]}], ["hand"]),
]

# the three defect classes, always exercised (so that the findings are re-confirmed on every run)
DEFECTS = [
    ("def size(x: Int) -> Int => x\nprint(size(3))\n",
     [{"kind": "fun", "name": "size", "params": [["x", False, False]]}], ["size"]),
    ("class C\n    def f(self) -> Int => 1\n    def f(self, x: Int) -> Int => x\n",
     [{"kind": "class", "name": "C", "is_type": False, "bases": [], "ctor": None, "parents_need_init": False,
       "methods": [["f", [["self", False, False]]], ["f", [["self", False, False], ["x", False, False]]]],
       "fields": [], "members": [["method", "f"], ["method", "f"]]}], ["dup-member"]),
    ("class C\n    def f(self) -> Int => 1\n    def f: Int := 2\n",
     [{"kind": "class", "name": "C", "is_type": False, "bases": [], "ctor": None, "parents_need_init": False,
       "methods": [["f", [["self", False, False]]]], "fields": ["f"],
       "members": [["method", "f"], ["field", "f"]]}], ["dup-member"]),
    ("class C\n    def x: Int := match 1\n        1 => 10\n        _ => 20\n    def y: Int := match 2\n"
     "        1 => 30\n        _ => 40\n    def m(self) -> Int => self.x + self.y\n",
     [{"kind": "class", "name": "C", "is_type": False, "bases": [], "ctor": None, "parents_need_init": False,
       "methods": [["m", [["self", False, False]]]], "fields": ["x", "y"],
       "members": [["branch-field", "x"], ["branch-field", "y"], ["method", "m"]]}], ["branch-field"]),
]

DEFECTS.append(("def f(vararg a: Int, b: Int) -> Int => b\nprint(f(1, 2))\n",
                [{"kind": "fun", "name": "f", "params": [["a", True, False], ["b", False, False]]}], ["vararg-not-last"]))

# ---------------------------------------------------------------------------------------------------
# python3's view of an emitted module
# ---------------------------------------------------------------------------------------------------

def py_params(a):
    """[(name, vararg, has default)] of an ast.arguments in the order written (parameters after a `*x` are
    keyword-only for Python; they are listed by `kwonly`), or a string naming what cannot be mirrored."""
    if a.kwarg:
        return "** parameter"
    pos = list(a.posonlyargs) + list(a.args)
    nd = len(a.defaults)
    out = [[p.arg, False, i >= len(pos) - nd] for i, p in enumerate(pos)]
    if a.vararg is not None:
        out.append([a.vararg.arg, True, False])
    elif a.kwonlyargs:
        return "bare * parameter"
    for p, d in zip(a.kwonlyargs, a.kw_defaults):
        out.append([p.arg, False, d is not None])
    return out


def kwonly(a):
    return [p.arg for p in a.kwonlyargs]


def base_name(b):
    if isinstance(b, ast.Subscript):
        b = b.value
    if isinstance(b, ast.Name):
        return b.id
    if isinstance(b, ast.Attribute):
        return b.attr
    return ast.dump(b)


def assigned_names(stmts):
    """Names bound by assignments of a class body (through if/match/try, not through functions)."""
    out = []
    for s in stmts:
        if isinstance(s, ast.Assign):
            for t in s.targets:
                out += [n.id for n in ast.walk(t) if isinstance(n, ast.Name)]
        elif isinstance(s, ast.AnnAssign):
            out += [n.id for n in ast.walk(s.target) if isinstance(n, ast.Name)]
        elif isinstance(s, (ast.FunctionDef, ast.ClassDef)):
            continue
        else:
            for f in ("body", "orelse", "finalbody"):
                out += assigned_names(getattr(s, f, []) or [])
            for h in getattr(s, "handlers", []) or []:
                out += assigned_names(h.body)
            for c in getattr(s, "cases", []) or []:
                out += assigned_names(c.body)
    return out


def py_api(text):
    """Definition list of an emitted module, or None when python3 cannot parse it."""
    try:
        mod = ast.parse(text)
    except SyntaxError:
        return None
    out = []
    for s in mod.body:
        if isinstance(s, ast.FunctionDef):
            out.append({"kind": "fun", "name": s.name, "params": py_params(s.args), "kwonly": kwonly(s.args)})
        elif isinstance(s, ast.ClassDef):
            ms = [[m.name, py_params(m.args)] for m in s.body if isinstance(m, ast.FunctionDef)]
            out.append({"kind": "class", "name": s.name, "bases": [base_name(b) for b in s.bases],
                        "ctors": [m[1] for m in ms if m[0] == "__init__"],
                        "methods": [m for m in ms if m[0] != "__init__"], "fields": assigned_names(s.body),
                        "kwonly": {m.name: kwonly(m.args) for m in s.body
                                   if isinstance(m, ast.FunctionDef) and kwonly(m.args)}})
    return out


def fmt(ps):
    if isinstance(ps, str):
        return "<" + ps + ">"
    return "(" + ", ".join(("*" if v else "") + n + ("=.." if d else "") for n, v, d in ps) + ")"


def compare(defs, api):
    """Failures of the emitted API against the definition list: [(cause line)]."""
    bad = []
    funs = {}
    classes = {}
    for d in api:
        (funs if d["kind"] == "fun" else classes).setdefault(d["name"], []).append(d)
    exp_f = [d["name"] for d in defs if d["kind"] == "fun"]
    exp_c = [d["name"] for d in defs if d["kind"] == "class"]
    for d in defs:
        if d["kind"] == "fun":
            got = funs.get(d["name"], [])
            if not got:
                alt = "__" + d["name"] + "__"
                if alt in funs:
                    bad.append(f"name-renamed scope=module def={d['name']} emitted={alt}")
                else:
                    bad.append(f"definition-missing scope=module name={d['name']} reason=none")
                continue
            if len(got) != exp_f.count(d["name"]):
                bad.append(f"definition-count scope=module name={d['name']} emitted={len(got)}")
            if d["params"] not in [g["params"] for g in got]:
                bad.append(f"signature-differs scope=module name={d['name']} source={fmt(d['params'])} "
                           f"emitted={fmt(got[0]['params'])} reason=none")
            elif any(g["kwonly"] for g in got):
                bad.append(f"positional-call-impossible scope=module name={d['name']} "
                           f"keyword-only={','.join(got[0]['kwonly'])} reason=follows-vararg")
            continue
        got = classes.get(d["name"], [])
        if len(got) != 1:
            bad.append(f"definition-missing scope=module name={d['name']} emitted={len(got)} reason=none")
            continue
        g = got[0]
        sc = f"scope=class:{d['name']}"
        names = [m[1] for m in d["members"] if m[1]]
        if g["bases"] != d["bases"] and not (d["is_type"] and g["bases"] == d["bases"] + ["ABC"]):
            bad.append(f"bases-differ {sc} source={d['bases']} emitted={g['bases']}")
        # constructor
        if d["ctor"] is None:
            ok = (not g["ctors"] and not d["parents_need_init"]) or g["ctors"] == [[["self", False, False]]]
            if not ok:
                bad.append(f"constructor-differs {sc} source=(self) emitted={[fmt(c) for c in g['ctors']]} reason=none")
        elif g["ctors"] != [d["ctor"]]:
            why = "duplicate-name" if names.count("__init__") > 1 else "none"
            bad.append(f"constructor-differs {sc} source={fmt(d['ctor'])} emitted={[fmt(c) for c in g['ctors']]} reason={why}")
        # methods
        gm = {}
        for n, ps in g["methods"]:
            gm.setdefault(n, []).append(ps)
        em = {}
        for n, ps in d["methods"]:
            em.setdefault(n, []).append(ps)
        for n, pss in em.items():
            why = "duplicate-name" if names.count(n) > 1 else "none"
            if n not in gm:
                alt = "__" + n + "__"
                if alt in gm and not n.startswith("__"):
                    bad.append(f"name-renamed {sc} def={n} emitted={alt}")
                else:
                    bad.append(f"definition-missing {sc} name={n} reason={why}")
                continue
            if sorted(map(json.dumps, gm[n])) != sorted(map(json.dumps, pss)):
                if len(gm[n]) < len(pss) and all(p in pss for p in gm[n]):
                    bad.append(f"definition-missing {sc} name={n} source={[fmt(p) for p in pss]} "
                               f"emitted={[fmt(p) for p in gm[n]]} reason={why}")
                else:
                    bad.append(f"signature-differs {sc} name={n} source={[fmt(p) for p in pss]} "
                               f"emitted={[fmt(p) for p in gm[n]]} reason={why}")
        for n in gm:
            if n not in em and not (n.startswith("__") and n[2:-2] in em):
                bad.append(f"extra-definition {sc} name={n}")
        for n, ks in g.get("kwonly", {}).items():
            if n in em and not any(b.startswith(("signature-differs", "definition-missing")) and f"name={n} " in b
                                   for b in bad):
                bad.append(f"positional-call-impossible {sc} name={n} keyword-only={','.join(ks)} reason=follows-vararg")
        # class attributes (title-level reading of the property: a `def x` of the class body is API)
        for i, (kind, n) in enumerate(d["members"]):
            if kind not in ("field", "branch-field") or n in g["fields"]:
                continue
            if names.count(n) > 1:
                why = "duplicate-name"
            elif kind == "branch-field" and any(k in ("branch-field", "doc") for k, _ in d["members"][i + 1:]):
                why = "shares-key-with-later-statement"
            else:
                why = "none"
            bad.append(f"field-missing {sc} field={n} reason={why}")
    for n in funs:
        if n not in exp_f and not (n.startswith("__") and n[2:-2] in exp_f):
            bad.append(f"extra-definition scope=module name={n}")
    for n in classes:
        if n not in exp_c:
            bad.append(f"extra-definition scope=module name={n}")
    return bad


def show(api_or_defs, from_source):
    """The flat rendering of model/Api.v `show_api`."""
    def sp(ps):
        return ",".join(f"{n}:{int(v)}{int(d)}" for n, v, d in ps)
    out = []
    for d in api_or_defs:
        if d["kind"] == "fun":
            out.append(f"F {d['name']}({sp(d['params'])})")
            continue
        if from_source:
            ctor = d["ctor"]
            if ctor is None and d["bases"]:
                ctor = [["self", False, False]]
            bases = d["bases"] + (["ABC"] if d["is_type"] and not d.get("abstract_parent_") else [])
        else:
            ctor = d["ctors"][0] if d["ctors"] else None
            bases = d["bases"]
        c = f"__init__({sp(ctor)})" if ctor is not None else "-"
        out.append(f"C {d['name']} [{','.join(bases)}] {c} {{{';'.join(f'{n}({sp(ps)})' for n, ps in d['methods'])}}}")
    return "|".join(out)


# ---------------------------------------------------------------------------------------------------
# typed AST (S-expression of astsx) -> Coq term, for evaluating model/Api.v on the implementation's AST
# ---------------------------------------------------------------------------------------------------

def sx_parse(s):
    pos = 0

    def skip():
        nonlocal pos
        while pos < len(s) and s[pos] == " ":
            pos += 1

    def item():
        nonlocal pos
        skip()
        ch = s[pos]
        if ch == "(":
            pos += 1
            skip()
            j = pos
            while s[pos] not in " )":
                pos += 1
            head = s[j:pos]
            args = []
            while True:
                skip()
                if s[pos] == ")":
                    pos += 1
                    return ("N", head, args)
                args.append(item())
        if ch == "[":
            pos += 1
            xs = []
            while True:
                skip()
                if s[pos] == "]":
                    pos += 1
                    return ("L", xs)
                xs.append(item())
        j = pos
        while pos < len(s) and s[pos] not in " ()[]":
            pos += 1
        return ("A", s[j:pos])
    return item()


class NoCoq(Exception):
    pass


def cstr(x):
    if x[0] != "A" or not x[1].startswith("s:"):
        raise NoCoq("string expected")
    t = bytes.fromhex(x[1][2:]).decode("utf-8", errors="replace")
    if any(ord(ch) < 32 or ord(ch) > 126 for ch in t):
        raise NoCoq("non-printable string")
    return '"' + t.replace('"', '""') + '"'


def cbool(x):
    return "true" if x[1] == "T" else "false"


def copt(x, f):
    return "None" if x == ("A", "~") else f"(Some {f(x)})"


def clist(x, f):
    return "[" + "; ".join(f(y) for y in x[1]) + "]"


def cnm(x):
    return f"(NM {clist(x[2][0], ctn)})"


def ctn(x):
    return f"(TN {cbool(x[2][0])} {cstr(x[2][1])} {clist(x[2][2], cnm)})"


def cast(x):
    return f"(A {copt(x[2][0], cnm)} {cnode(x[2][1])})"


_SCHEMA = {
    "NInt": "s", "NReal": "s", "NENum": "ss", "NStr": "sb", "NDocStr": "s", "NBool": "b", "NId": "s",
    "NBin": "Eaa", "NUn": "Ea", "NTuple": "l", "NList": "l", "NSet": "l", "NIndex": "aa", "NRange": "aabo",
    "NSlice": "aabo", "NCall": "sGl", "NProp": "aa", "NAnonFun": "la", "NExprType": "at", "NVarDef": "ato",
    "NReassign": "aaR", "NFunDef": "alto", "NFunArg": "bato", "NBlock": "l", "NReturn": "a", "NIfElse": "aao",
    "NMatch": "al", "NCase": "aa", "NWhile": "aa", "NFor": "aaa", "NRaise": "a", "NHandle": "al",
    "NImport": "oll", "NListBuilder": "al", "NSetBuilder": "al", "NDictBuilder": "aal", "NWith": "aoa",
    "NClass": "sGllo", "NParent": "sGl", "NTypeDef": "sGtob", "NTypeAlias": "sGn",
}


def cnode(x):
    if x[0] == "A":
        return x[1]
    head, args = x[1], x[2]
    if head == "NDict":
        return "(NDict [" + "; ".join(f"({cast(p[1][0])}, {cast(p[1][1])})" for p in args[0][1]) + "])"
    sch = _SCHEMA.get(head)
    if sch is None or len(sch) != len(args):
        raise NoCoq(head)
    parts = []
    for k, a in zip(sch, args):
        if k == "s":
            parts.append(cstr(a))
        elif k == "b":
            parts.append(cbool(a))
        elif k == "a":
            parts.append(cast(a))
        elif k == "o":
            parts.append(copt(a, cast))
        elif k == "l":
            parts.append(clist(a, cast))
        elif k == "t":
            parts.append(copt(a, cnm))
        elif k == "n":
            parts.append(cnm(a))
        elif k == "G":
            parts.append(clist(a, cnm))
        elif k == "E":
            parts.append("S" + a[1])
        elif k == "R":
            parts.append("N" + a[1])
    return f"({head} {' '.join(parts)})"


def coq_api(ast_sx, ann):
    a = cast(sx_parse(ast_sx))
    return (f"(let a := {a} in (wf_api a, show_api (api_src a), show_api (map py_sig (api_src a)), "
            f"match conv a (state0 {'true' if ann == '1' else 'false'}) imports0 with "
            f"Some (c, _) => show_api (api_py c) | None => \"NONE\"%string end))")


def parse_coq_tuple(t):
    m = re.match(r'\s*\((true|false),\s*"(.*?)"(?:%string)?,\s*"(.*?)"(?:%string)?,\s*"(.*?)"(?:%string)?\)\s*$', t, re.S)
    if not m:
        return None
    return m.group(1) == "true", m.group(2), m.group(3), m.group(4)


# ---------------------------------------------------------------------------------------------------
# oracle self-test on hand-made bad outputs
# ---------------------------------------------------------------------------------------------------

SELFTEST_DEFS = [
    {"kind": "fun", "name": "f", "params": [["x", False, False], ["y", False, True], ["z", True, False]]},
    {"kind": "class", "name": "C", "is_type": False, "bases": ["P", "Q"], "parents_need_init": True,
     "ctor": [["self", False, False], ["a", False, False]],
     "methods": [["m", [["self", False, False], ["k", False, False]]], ["__add__", [["self", False, False], ["other", False, False]]]],
     "fields": ["w"], "members": [["field", "w"], ["method", "m"], ["method", "__add__"]]}]
SELFTEST_GOOD = ("def f(x, y = 1, *z):\n    return x\nclass C(P, Q):\n    w = 1\n    def __init__(self, a):\n        pass\n"
                 "    def m(self, k):\n        pass\n    def __add__(self, other):\n        pass\n")
SELFTEST_BAD = [
    ("signature-differs", SELFTEST_GOOD.replace("def f(x, y = 1, *z)", "def f(y, x = 1, *z)")),
    ("signature-differs", SELFTEST_GOOD.replace("def f(x, y = 1, *z)", "def f(x, y, *z)")),
    ("signature-differs", SELFTEST_GOOD.replace("def f(x, y = 1, *z)", "def f(x, y = 1, z = 2)")),
    ("definition-missing", SELFTEST_GOOD.replace("def f(x, y = 1, *z)", "def g(x, y = 1, *z)")),
    ("bases-differ", SELFTEST_GOOD.replace("C(P, Q)", "C(Q, P)")),
    ("constructor-differs", SELFTEST_GOOD.replace("__init__(self, a)", "__init__(self)")),
    ("constructor-differs", SELFTEST_GOOD.replace("    def __init__(self, a):\n        pass\n", "")),
    ("definition-missing", SELFTEST_GOOD.replace("    def m(self, k):\n        pass\n", "")),
    ("definition-missing", SELFTEST_GOOD.replace("__add__", "add")),
    ("signature-differs", SELFTEST_GOOD.replace("def m(self, k)", "def m(k)")),
    ("field-missing", SELFTEST_GOOD.replace("    w = 1\n", "")),
    ("extra-definition", SELFTEST_GOOD + "    def extra(self):\n        pass\n"),
    ("signature-differs", SELFTEST_GOOD.replace("def f(x, y = 1, *z)", "def f(x, *z, y = 1)")),
    ("signature-differs", SELFTEST_GOOD.replace("def f(x, y = 1, *z)", "def f(x, y = 1, **z)")),
]


def selftest():
    fails = []
    if compare(SELFTEST_DEFS, py_api(SELFTEST_GOOD)):
        fails.append(("good output reported", compare(SELFTEST_DEFS, py_api(SELFTEST_GOOD))))
    for want, text in SELFTEST_BAD:
        got = compare(SELFTEST_DEFS, py_api(text))
        if not any(g.startswith(want) for g in got):
            fails.append((want, got))
    return fails


# ---------------------------------------------------------------------------------------------------

def run(tier, replay=None):
    ck = Check("C17", tier)
    quick = tier == "quick"
    ck.proof(["props/C17.vo"], "props.C17", THEOREMS, translators=["names"])
    build_driver(ck.log)
    build_harness(ck.log)

    st = selftest()
    if st:
        ck.broken.append({"kind": "oracle-selftest", "where": "lib/vlib/c17.py compare()", "examples": st[:3]})

    # ---- cases ---------------------------------------------------------------------------------
    progs = []          # (source, defs, tags, kind)
    if replay:
        data = json.load(open(replay))
        progs.append((data["input"], data.get("defs", []), data.get("tags", []), "replay"))
    else:
        for s, d, t in HAND:
            progs.append((s, d, t, "hand"))
        for s, d, t in DEFECTS:
            progs.append((s, d, t, "defect"))
        n = 160 if quick else 1200
        for _ in range(n):
            g = Gen17(ck.rng, ck.rng.randint(2, 7))
            s, d, t = g.program()
            progs.append((s, d, t, "generated"))
    cases = [convcorr.Case(s, k) for s, _, _, k in progs]
    convcorr.run(cases)
    tr = {a: run_sharded(MH, [f"t{i}\ttranspile\t{a}\t{hexs(c.src)}" for i, c in enumerate(cases)]) for a in "01"}

    # ---- direct oracle ---------------------------------------------------------------------------
    accepted = rejected = checked = agree = 0
    reject_stage, feat, corr_bad, samples, unparse = {}, {}, [], [], 0
    defcount = {"functions": 0, "classes": 0, "methods": 0, "constructors": 0, "operators": 0, "interfaces": 0}
    order_kept = order_checked = 0
    for i, ((src, defs, tags, kind), c) in enumerate(zip(progs, cases)):
        r0, r1 = tr["0"].get(f"t{i}", ["MISSING"]), tr["1"].get(f"t{i}", ["MISSING"])
        if r0[0] != "OK" or r1[0] != "OK":
            rejected += 1
            k = (r0[1] if len(r0) > 1 else r0[0]) if r0[0] != "OK" else (r1[1] if len(r1) > 1 else r1[0])
            reject_stage[k] = reject_stage.get(k, 0) + 1
            if kind in ("hand", "defect"):
                ck.broken.append({"kind": "generator", "where": "a hand-written C17 program is rejected",
                                  "examples": [src, str(r0[:2])]})
            continue
        accepted += 1
        for t in tags:
            feat[t] = feat.get(t, 0) + 1
        for d in defs:
            if d["kind"] == "fun":
                defcount["functions"] += 1
            else:
                defcount["classes"] += 1
                defcount["interfaces"] += d["is_type"]
                defcount["methods"] += len(d["methods"])
                defcount["constructors"] += d["ctor"] is not None
                defcount["operators"] += sum(1 for m in d["methods"] if m[0].startswith("__"))
        for a, r in (("0", r0), ("1", r1)):
            text = unhex(r[1])
            api = py_api(text)
            if api is None:
                unparse += 1          # C02's business
                continue
            checked += 1
            bad = compare(defs, api)
            seen = set()
            for b in bad:
                key = b.split(" reason=")[0]
                if key in seen:
                    continue
                seen.add(key)
                case_text = f"CAUSE:{b}\nFEATURES:{','.join(tags)}\nANNOTATE:{a}\nSRC:\n{src}"
                f = ck.match_finding(case_text)
                if f is not None and f["id"] in ck.known_hits:
                    p = ck.known_hits[f["id"]]["example"]      # one replay per known finding is enough
                else:
                    p = ck.write_replay("oracle", {"input": src, "defs": defs, "tags": tags, "annotate": a,
                                                   "failure": b, "output": text})
                ck.violation(b, p, case_text)
            if not bad:
                for d in defs:
                    if d["kind"] == "class":
                        g = [x for x in api if x["kind"] == "class" and x["name"] == d["name"]][0]
                        order_checked += 1
                        order_kept += [m[0] for m in g["methods"]] == [m[0] for m in d["methods"]]
            stt = c.status.get(a)
            if stt == "agree":
                agree += 1
            elif stt == "disagree":
                corr_bad.append((src, a, c.impl[a][0], c.model.get(a)))
        if len(samples) < 3 and kind == "generated" and "class-args" in tags and "parent-args" in tags:
            samples.append({"source": src[:500], "definitions": show(defs, True)[:400], "emitted": unhex(r0[1])[:500]})
    if corr_bad:
        ck.broken.append({"kind": "correspondence", "where": "gen endpoint: Convert.conv vs generate::convert (classes)",
                          "count": len(corr_bad), "examples": [list(map(str, x))[:4] for x in corr_bad[:2]]})

    # ---- the Coq definitions of model/Api.v evaluated on the implementation's typed AST --------
    api_eval = {"evaluated": 0, "wf": 0, "src_matches_generator": 0, "py_matches_python3": 0, "theorem_instances": 0,
                "skipped": 0}
    pick = [i for i, c in enumerate(cases) if c.status.get("0") == "agree" and c.status.get("1") == "agree"]
    pick = pick[: (40 if quick else 400)]
    exprs, meta = [], []
    for i in pick:
        for a in "01":
            try:
                exprs.append(coq_api(cases[i].ast_sx[a], a))
                meta.append((i, a))
            except (NoCoq, KeyError, IndexError):
                api_eval["skipped"] += 1
    api_bad = []
    if exprs:
        try:
            outs = coq_eval(["model.Core", "gen.Names", "model.Convert", "model.Api"], exprs, timeout=900)
        except BuildError as e:
            outs = []
            ck.broken.append({"kind": "model-evaluation", "where": "coq_eval of model/Api.v", "log": str(e)[-600:]})
        for (i, a), o in zip(meta, outs):
            t = parse_coq_tuple(o) if o else None
            if t is None:
                api_eval["skipped"] += 1
                continue
            wf, s_src, s_map, s_py = t
            src, defs, tags, kind = progs[i]
            api_eval["evaluated"] += 1
            api_eval["wf"] += wf
            impl_api = py_api(unhex(tr[a][f"t{i}"][1]))
            if impl_api is None:
                continue
            s_impl = show(impl_api, False)
            s_gen = show(_with_abstract(defs, src), True)
            if s_src == s_gen:
                api_eval["src_matches_generator"] += 1
            elif "dup-member" not in tags:
                api_bad.append(("api_src differs from the generator's definition list", src, s_src, s_gen))
            if s_py == s_impl:
                api_eval["py_matches_python3"] += 1
            else:
                api_bad.append(("api_py of the model differs from python3's view of the output", src, s_py, s_impl))
            if wf:
                if s_map == s_py:
                    api_eval["theorem_instances"] += 1
                else:
                    api_bad.append(("C17_api instance fails", src, s_map, s_py))
    if api_bad:
        ck.broken.append({"kind": "correspondence", "where": "model/Api.v against generator and python3",
                          "count": len(api_bad), "examples": [list(x) for x in api_bad[:3]]})

    ck.cov.update({
        "evaluations": 2 * len(cases), "distinct_nontrivial": accepted,
        "rule": "generated definition-only programs (functions with 0-4 parameters, defaults, vararg; classes with "
                "and without class arguments, explicit __init__, parents with arguments, several parents; interfaces "
                "and their implementations; operator definitions; rarely `size`, duplicate member names and "
                "match-initialised fields), hand-written programs, each transpiled with annotate off and on; "
                "non-trivial = accepted under both settings",
        "outputs_checked_by_oracle": checked, "rejected": rejected, "rejected_by_stage": reject_stage,
        "outputs_not_parseable_as_python": unparse,
        "definitions_checked": defcount, "features": feat,
        "method_order_kept": f"{order_kept}/{order_checked}",
        "traces_validated_against_impl": agree, "model_status": convcorr.summary(cases),
        "api_model_evaluated_on_impl_ast": api_eval,
        "oracle_selftest": f"{len(SELFTEST_BAD) + 1 - len(st)}/{len(SELFTEST_BAD) + 1}",
        "samples": samples or [{"source": cases[0].src[:300]}],
        "trusted_base": [
            "Coq 8.16.1 kernel; no axioms (Print Assumptions: Closed under the global context)",
            "hand model model/Convert.v of src/generate/convert/{class,definition}.rs (keys of the class-body map are "
            "compared as identifiers only: two equal tuple patterns as class fields would collide in Rust and not in "
            "the model; wf_api excludes them), compared with the implementation on every case (typed AST in, Core out)",
            "model/Api.v: what counts as the API (functions, classes, parents, constructor, methods; parameter name, "
            "variadic marker, presence of a default); evaluated on the implementation's typed AST and compared with "
            "the generator's definition list and with python3's view of the emitted text",
            "the parser's mapping of operator tokens to dunder identifiers (`def +` -> Id __add__) is outside the "
            "model; the direct oracle covers it from the source text",
            "translator translate/names.py (Mamba->Python name table, dunder names); lib/vlib/astsx.py + rustdebug.py",
            "python3 ast for the direct oracle; the generator's own bookkeeping of what it defined; "
            "extraction ExtrOcamlBasic/ExtrOcamlString + driver.ml for the correspondence",
        ],
    })
    ck.assumptions += ["class attributes (`def x` in a class body) are counted as API by the direct oracle only "
                       "(title-level reading of the property); the theorem speaks about functions, classes, parents, "
                       "constructors and methods"]
    return ck.finish()


def _with_abstract(defs, src):
    """`type U: T` has an abstract parent: no ABC appended."""
    out = []
    types = {d["name"] for d in defs if d["kind"] == "class" and d["is_type"]}
    for d in defs:
        if d["kind"] == "class" and d["is_type"]:
            d = dict(d, abstract_parent_=any(b in types for b in d["bases"]))
        out.append(d)
    return out
