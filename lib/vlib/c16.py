"""C16 - emitted modules are self-contained: generator-used names are imported once.

proof        : props/C16.v over model/Convert.v (the import record only grows, stays duplicate free, covers what the
               converted tree needs; module = import list ++ body; user imports converted identifier by identifier)
tie          : names table regenerated; `gen` correspondence (typed AST -> Core incl. the import statements) for both flags
direct oracle: python3 ast of every emitted module, both flags:
               (a) generated imports form the head of the module, (b) no module / name imported twice by the generator,
               (c) no free global name that the source does not mention and that is not a builtin; no generated import
                   whose name is rebound by user code where the generator uses it (capture),
               (d) every `import` / `from .. import` line of the source is present unchanged
"""
import ast, builtins, json, os, re, time

from .common import Check, build_driver, build_harness, hexs, unhex, run_sharded, MH, COQ
from . import convcorr, gen

SUPPORT_FROM = {"typing": {"Optional", "Union", "Tuple", "Callable", "Any", "NewType"},
                "abc": {"ABC", "abstractmethod"}}
SUPPORT_PLAIN = {"math"}
SUPPORT = set(SUPPORT_PLAIN) | set().union(*SUPPORT_FROM.values())
BUILTINS = set(dir(builtins))
IDENT = re.compile(r"[A-Za-z_][A-Za-z0-9_]*")
IMPORT_LINE = re.compile(r"^\s*(?:from\s+[\w.]+\s+)?import\s+\S.*$")


def py_names_table():
    """Mamba -> Python identifier table, read from the regenerated coq/gen/Names.v."""
    txt = open(os.path.join(COQ, "gen", "Names.v")).read()
    m = re.search(r"Definition py_names.*?:=\s*\[(.*?)\]\.", txt, re.S)
    return dict(re.findall(r'\("(\w+)",\s*"(\w+)"\)', m.group(1))) if m else {}


# ---- analysis of one emitted module ---------------------------------------------------------------

def _dump(n):
    return ast.dump(n)


def _import_binds(n):
    out = []
    for a in n.names:
        out.append(a.asname or a.name.split(".")[0])
    return out


def user_import_nodes(src):
    """The import lines of the Mamba source, parsed as Python (the two syntaxes coincide)."""
    nodes, bad = [], 0
    for line in src.splitlines():
        if IMPORT_LINE.match(line) and not line.lstrip().startswith("#"):
            try:
                t = ast.parse(line.strip())
                if len(t.body) == 1 and isinstance(t.body[0], (ast.Import, ast.ImportFrom)):
                    nodes.append(t.body[0])
                    continue
            except SyntaxError:
                pass
            bad += 1
    return nodes, bad


def _rename_import(n, table):
    r = lambda s: None if s is None else ".".join(table.get(p, p) for p in s.split("."))
    names = [ast.alias(name=r(a.name), asname=r(a.asname)) for a in n.names]
    if isinstance(n, ast.Import):
        return ast.Import(names=names)
    return ast.ImportFrom(module=r(n.module), names=names, level=n.level)


class _Scope:
    def __init__(self, kind, bound, user_bound=None):
        self.kind, self.bound = kind, bound
        self.user_bound = bound if user_bound is None else user_bound     # without the generator's own imports


def _bound_in_body(stmts, args=None, skip=()):
    """Names bound in a function/module/class body, not descending into nested scopes; import statements in
    `skip` (the generator's own) do not count."""
    b = set()
    if args is not None:
        for a in args.posonlyargs + args.args + args.kwonlyargs:
            b.add(a.arg)
        if args.vararg:
            b.add(args.vararg.arg)
        if args.kwarg:
            b.add(args.kwarg.arg)

    def walk(n):
        if isinstance(n, (ast.FunctionDef, ast.AsyncFunctionDef, ast.ClassDef)):
            b.add(n.name)
            return
        if isinstance(n, ast.Lambda):
            return
        if isinstance(n, (ast.ListComp, ast.SetComp, ast.DictComp, ast.GeneratorExp)):
            return
        if isinstance(n, ast.Name) and isinstance(n.ctx, (ast.Store, ast.Del)):
            b.add(n.id)
        if isinstance(n, (ast.Import, ast.ImportFrom)):
            if not any(n is g for g in skip):
                b.update(_import_binds(n))
            return
        if isinstance(n, ast.ExceptHandler) and n.name:
            b.add(n.name)
        for c in ast.iter_child_nodes(n):
            walk(c)
    for s in stmts:
        walk(s)
    return b


class Analysis:
    """Free global names of a module and the generator-use occurrences of support names with their binding."""

    def __init__(self, tree, generated):
        self.tree = tree
        self.generated = generated                      # import nodes attributed to the generator
        self.module_bound = _bound_in_body(tree.body)
        self.free = {}                                  # name -> first line
        self.captures = []                              # (name, where, line)
        # module-level binders of a name other than generated imports
        gd = {_dump(g) for g in generated}     # a user import equal to a generated one binds the same object
        self.module_rebinds = _bound_in_body([s for s in tree.body if not any(s is g for g in generated)
                                              and not (isinstance(s, (ast.Import, ast.ImportFrom)) and _dump(s) in gd)])
        self._stmts(tree.body, [])

    # resolution: function scopes innermost first; class scopes only for code directly in the class body
    def _resolve(self, name, scopes, direct_class=None, user_only=False):
        pick = (lambda sc: sc.user_bound) if user_only else (lambda sc: sc.bound)
        if direct_class is not None and name in pick(direct_class):
            return "class"
        for sc in reversed(scopes):
            if sc.kind == "function" and name in pick(sc):
                return "function"
        return "module" if name in self.module_bound else "free"

    def _walk_expr(self, node, scopes, direct_class, anno=False):
        if isinstance(node, ast.Lambda):
            sc = _Scope("function", _bound_in_body([], node.args))
            for d in node.args.defaults + [d for d in node.args.kw_defaults if d is not None]:
                yield from self._walk_expr(d, scopes, direct_class)
            yield from self._walk_expr(node.body, scopes + [sc], None)
            return
        if isinstance(node, (ast.ListComp, ast.SetComp, ast.DictComp, ast.GeneratorExp)):
            bound = set()
            for g in node.generators:
                for t in ast.walk(g.target):
                    if isinstance(t, ast.Name):
                        bound.add(t.id)
            sc = _Scope("function", bound)
            first = True
            for g in node.generators:
                yield from self._walk_expr(g.iter, scopes if first else scopes + [sc], direct_class if first else None)
                first = False
                for c in g.ifs:
                    yield from self._walk_expr(c, scopes + [sc], None)
            elts = [node.key, node.value] if isinstance(node, ast.DictComp) else [node.elt]
            for e in elts:
                yield from self._walk_expr(e, scopes + [sc], None)
            return
        if isinstance(node, ast.Attribute) and isinstance(node.value, ast.Name) and node.value.id == "math" \
                and node.attr == "sqrt":
            self._gen_use("math", node, scopes, direct_class)
        if isinstance(node, ast.Call) and isinstance(node.func, ast.Name) and node.func.id == "NewType":
            self._gen_use("NewType", node, scopes, direct_class)
        if isinstance(node, ast.Name) and isinstance(node.ctx, ast.Load):
            how = self._resolve(node.id, scopes, direct_class)
            if how == "free" and node.id not in BUILTINS:
                self.free.setdefault(node.id, getattr(node, "lineno", 0))
            if anno and node.id in SUPPORT:
                self._gen_use(node.id, node, scopes, direct_class)
        for c in ast.iter_child_nodes(node):
            if isinstance(c, ast.expr_context):
                continue
            yield from self._walk_expr(c, scopes, direct_class, anno)
        return

    def _gen_use(self, name, node, scopes, direct_class):
        if not any(name in _import_binds(g) for g in self.generated):
            return
        how = self._resolve(name, scopes, direct_class, user_only=True)
        line = getattr(node, "lineno", 0)
        if how in ("function", "class"):
            self.captures.append((name, how + " scope", line))
        elif name in self.module_rebinds:
            self.captures.append((name, "module scope", line))

    def _anno(self, node, scopes, direct_class):
        if node is not None:
            for _ in self._walk_expr(node, scopes, direct_class, anno=True):
                pass

    def _expr(self, node, scopes, direct_class):
        if node is not None:
            for _ in self._walk_expr(node, scopes, direct_class):
                pass

    def _stmts(self, stmts, scopes, direct_class=None):
        for s in stmts:
            self._stmt(s, scopes, direct_class)

    def _stmt(self, s, scopes, dc):
        if isinstance(s, (ast.FunctionDef, ast.AsyncFunctionDef)):
            for d in s.decorator_list:
                if isinstance(d, ast.Name) and d.id == "abstractmethod":
                    self._gen_use("abstractmethod", d, scopes, dc)
                self._expr(d, scopes, dc)
            a = s.args
            for x in a.posonlyargs + a.args + a.kwonlyargs + [y for y in (a.vararg, a.kwarg) if y]:
                self._anno(x.annotation, scopes, dc)
            self._anno(s.returns, scopes, dc)
            for d in a.defaults + [d for d in a.kw_defaults if d is not None]:
                self._expr(d, scopes, dc)
            sc = _Scope("function", _bound_in_body(s.body, a), _bound_in_body(s.body, a, self.generated))
            self._stmts(s.body, scopes + [sc], None)
            return
        if isinstance(s, ast.ClassDef):
            for b in s.bases:
                if isinstance(b, ast.Name) and b.id == "ABC":
                    self._gen_use("ABC", b, scopes, dc)
                self._expr(b, scopes, dc)
            for k in s.keywords:
                self._expr(k.value, scopes, dc)
            for d in s.decorator_list:
                self._expr(d, scopes, dc)
            sc = _Scope("class", _bound_in_body(s.body), _bound_in_body(s.body, None, self.generated))
            self._stmts(s.body, scopes, sc)
            return
        if isinstance(s, ast.AnnAssign):
            self._anno(s.annotation, scopes, dc)
            self._expr(s.value, scopes, dc)
            self._expr(s.target, scopes, dc)
            return
        if isinstance(s, (ast.Import, ast.ImportFrom)):
            return
        for f, v in ast.iter_fields(s):
            if isinstance(v, list):
                for x in v:
                    if isinstance(x, ast.stmt):
                        self._stmt(x, scopes, dc)
                    elif isinstance(x, ast.ExceptHandler):
                        self._expr(x.type, scopes, dc)
                        self._stmts(x.body, scopes, dc)
                    elif isinstance(x, ast.expr):
                        self._expr(x, scopes, dc)
                    elif isinstance(x, ast.withitem):
                        self._expr(x.context_expr, scopes, dc)
                        self._expr(x.optional_vars, scopes, dc)
                    elif hasattr(ast, "match_case") and isinstance(x, ast.match_case):
                        self._expr(x.guard, scopes, dc)
                        self._stmts(x.body, scopes, dc)
            elif isinstance(v, ast.expr):
                self._expr(v, scopes, dc)


def judge(src, py, table):
    """All C16 complaints about one emitted module: list of (kind, detail dict)."""
    try:
        tree = ast.parse(py)
    except SyntaxError:
        return None
    out = []
    users, unparsable = user_import_nodes(src)
    all_imports = [n for n in ast.walk(tree) if isinstance(n, (ast.Import, ast.ImportFrom))]
    unmatched = list(all_imports)
    # (d) user imports unchanged
    for u in users:
        du = _dump(u)
        hit = next((o for o in unmatched if _dump(o) == du), None)
        if hit is not None:
            unmatched = [o for o in unmatched if o is not hit]
            continue
        ren = _rename_import(u, table)
        hit = next((o for o in unmatched if _dump(o) == _dump(ren)), None)
        if hit is not None:
            unmatched = [o for o in unmatched if o is not hit]
            names = [x for x in IDENT.findall(ast.unparse(u)) if table.get(x, x) != x]
            out.append(("user-import", {"line": ast.unparse(u), "emitted": ast.unparse(hit),
                                        "renamed": ",".join(f"{x}->{table[x]}" for x in sorted(set(names)))}))
        else:
            out.append(("user-import", {"line": ast.unparse(u), "emitted": "", "renamed": ""}))
    generated = unmatched
    # (a) the generated imports are the head of the module
    head = []
    for s in tree.body:
        if isinstance(s, (ast.Import, ast.ImportFrom)):
            head.append(s)
        else:
            break
    for g in generated:
        if not any(g is h for h in head):
            out.append(("layout", {"import": ast.unparse(g), "line": g.lineno}))
    # (b) what the generator imports: support names only, each once
    seen_mod, seen_name = set(), set()
    for g in generated:
        if isinstance(g, ast.Import):
            ok = all(a.asname is None and a.name in SUPPORT_PLAIN for a in g.names)
            keys = [("", a.name) for a in g.names]
            mod = None
        else:
            ok = g.level == 0 and g.module in SUPPORT_FROM and all(
                a.asname is None and a.name in SUPPORT_FROM[g.module] for a in g.names)
            keys = [(g.module, a.name) for a in g.names]
            mod = g.module
        if not ok:
            out.append(("unexpected-import", {"import": ast.unparse(g)}))
        if mod is not None:
            if mod in seen_mod:
                out.append(("duplicate", {"import": ast.unparse(g), "what": "module " + mod}))
            seen_mod.add(mod)
        for k in keys:
            if k in seen_name:
                out.append(("duplicate", {"import": ast.unparse(g), "what": ".".join(x for x in k if x)}))
            seen_name.add(k)
    # (c) free names and captures
    an = Analysis(tree, generated)
    src_idents = set(IDENT.findall(src))
    src_idents |= {table.get(x, x) for x in src_idents}
    for name, line in sorted(an.free.items()):
        if name in src_idents:
            continue        # the source mentions the name itself: not introduced by the generator
        out.append(("free-name", {"name": name, "line": line, "support": name in SUPPORT}))
    seen = set()
    for name, where, line in an.captures:
        if (name, where) not in seen:
            seen.add((name, where))
            out.append(("capture", {"name": name, "where": where, "line": line}))
    return out


def source_defines(src, name):
    """Does the Mamba source itself introduce `name` (definition, class, type, parameter, loop variable)?"""
    n = re.escape(name)
    pats = [rf"\bdef\s+(?:fin\s+)?{n}\b", rf"\bclass\s+{n}\b", rf"\btype\s+{n}\b", rf"[(,]\s*(?:vararg\s+)?{n}\s*[:,)]",
            rf"\bfor\s+{n}\b", rf"\\\s*{n}\b", rf"\bas\s+{n}\b", rf"\bimport\s+.*\b{n}\b"]
    return any(re.search(p, src) for p in pats)


def case_text(kind, detail, src, ann, neutral=None):
    lines = [f"KIND:{kind}", f"ANNOTATE:{ann}"]
    for k in sorted(detail):
        lines.append(f"{k.upper()}:{detail[k]}")
    if kind == "capture":
        lines.append("USERDEF:" + ("yes" if source_defines(src, detail["name"]) else "no"))
    if neutral is not None:
        lines.append("NEUTRALISED:" + neutral)
    lines.append("SRC:")
    lines.append(src)
    return "\n".join(lines)



# ---- the oracle judged on hand-made outputs ------------------------------------------------------

SELFTEST = [
    # (source, output, expected complaint kinds)
    ("print(sqrt 4)\n", "import math\nprint(math.sqrt(4))\n", []),
    ("print(sqrt 4)\n", "print(math.sqrt(4))\n", ["free-name"]),
    ("def f(x: Int?) -> Int => 1\n", "def f(x: Optional[int]) -> int:\n    return 1\n", ["free-name"]),
    ("def f(x: Int?) -> Int => 1\n", "from typing import Optional\nfrom typing import Optional\n"
     "def f(x: Optional[int]) -> int:\n    return 1\n", ["duplicate", "duplicate"]),
    ("def f(x: Int?) -> Int => 1\n", "from typing import Optional, Optional\ndef f(x: Optional[int]) -> int:\n    return 1\n",
     ["duplicate"]),
    ("print(1)\nprint(sqrt 4)\n", "print(1)\nimport math\nprint(math.sqrt(4))\n", ["layout"]),
    ("def f() -> Float => sqrt 4\n", "def f() -> float:\n    import math\n    return math.sqrt(4)\n", ["layout"]),
    ("import os\nprint(1)\n", "print(1)\n", ["user-import"]),
    ("import os\nprint(1)\n", "import os as o\nprint(1)\n", ["user-import", "unexpected-import"]),
    ("from a import b,c as c,d\nprint(1)\n", "from a import b, c as c, d\nprint(1)\n", []),
    ("import math\nprint(sqrt 4)\n", "import math\nimport math\nprint(math.sqrt(4))\n", []),
    ("def math := 3\nprint(sqrt 4)\n", "import math\nmath = 3\nprint(math.sqrt(4))\n", ["capture"]),
    ("def f(math: Int) -> Float => sqrt 4\n", "import math\ndef f(math):\n    return math.sqrt(4)\n", ["capture"]),
    ("def f(math: Int) -> Int => math\nprint(sqrt 4)\n",
     "import math\ndef f(math):\n    return math\nprint(math.sqrt(4))\n", []),
    ("type I\n    def fa(self) -> Int\n", "from abc import ABC\nclass I(ABC):\n    @abstractmethod\n    def fa(self): pass\n",
     ["free-name"]),
    ("type T: Str\n", "T = NewType(\"T\", str)\n", ["free-name"]),
    ("print(1)\n", "import random\nprint(1)\n", ["unexpected-import"]),
    ("print(x)\n", "print(x)\n", []),
    ("print(1)\n", "print(helper(1))\n", ["free-name"]),
    ("def l := [x | x in [1]]\n", "l = [x for x in [1]]\n", []),
    ("class C\n    def a: Int := 1\n    def m(self) -> Int => self.a\n",
     "class C:\n    a: int = 1\n    def m(self) -> int:\n        return self.a\n", []),
]


def selftest(table):
    bad = []
    for src, py, want in SELFTEST:
        got = sorted(k for k, _ in (judge(src, py, table) or []))
        if got != sorted(want):
            bad.append({"source": src, "output": py, "expected": sorted(want), "got": got})
    return bad

# ---- programs ------------------------------------------------------------------------------------

# (mamba type, a value of it or None when no literal of the type is accepted by the checker)
TYPES = [
    ("Int?", "None"), ("Str?", "None"), ("(Int, Str)", '(1, "a")'), ("(Int, Int, Bool)", "(1, 2, True)"),
    ("(Int, Str?)", None), ("((Int, Str), Int?)", None), ("Int -> Int", "\\x: Int => x + 1"),
    ("(Int, Int) -> Int?", None), ("(Int) -> (Int, Str)", None), ("{Int, Str}", "3"), ("{Int, Str, Bool}", '"s"'),
    ("Any", None), ("List[(Int, Str)]", '[(1, "a")]'), ("Set[(Int, Int)]", "{(1, 2)}"),
    ("(Int, {Str, Bool})", None), ("Int", "1"), ("Str", '"a"'), ("Float", "2.0"), ("List[Int]", "[1, 2]"),
]
RETS = [("Int", "1"), ("Float", "sqrt 4"), ("Float", "2.0"), ("Str", '"s"'), ("Int?", "None"), ("(Int, Str)", '(1, "a")'),
        ("{Int, Str}", "3")]
USER_IMPORTS = ["import os", "from os import path", "import json as js", "from a import b,c as c,d",
                "from collections import deque", "import sys"]


class Gen16:
    """Programs that use every construct needing a support import, in every position."""

    def __init__(self, rng):
        self.r, self.k, self.lines = rng, 0, []

    def fresh(self, p):
        self.k += 1
        return f"{p}{self.k}"

    def emit(self, ind, s):
        self.lines.append("    " * ind + s)

    def params(self, n, with_self=False):
        ps = ["self"] if with_self else []
        for _ in range(n):
            t, _v = self.r.choice(TYPES)
            ps.append(f"{self.fresh('p')}: {t}")
        return ", ".join(ps)

    def body(self, ind, ret):
        r = self.r
        for _ in range(r.randint(0, 2)):
            k = r.random()
            if k < 0.35:
                self.emit(ind, f"def {self.fresh('y')} := sqrt {r.choice(['4', '2.0', '9'])}")
            elif k < 0.7:
                t, v = r.choice([x for x in TYPES if x[1] is not None])
                self.emit(ind, f"def {self.fresh('l')}: {t} := {v}")
            else:
                self.emit(ind, f"print(sqrt {r.randint(1, 9)})")
        self.emit(ind, ret if r.random() < 0.5 else f"return {ret}")

    def fun(self, ind, method=False):
        name = self.fresh("m" if method else "f")
        rt, rv = self.r.choice(RETS)
        self.emit(ind, f"def {name}({self.params(self.r.randint(0, 3), method)}) -> {rt} =>")
        self.body(ind + 1, rv)
        return name

    def item(self):
        r = self.r
        k = r.choice(["var", "var", "fun", "fun", "class", "alias", "iface", "sqrt", "sqrt", "ctl", "lambda"])
        if k == "var":
            t, v = r.choice([x for x in TYPES if x[1] is not None])
            self.emit(0, f"def {self.fresh('v')}: {t} := {v}")
        elif k == "fun":
            self.fun(0)
            self.emit(0, "")
        elif k == "class":
            c = "C" + self.fresh("c")
            fields = ", ".join(f"def {self.fresh('a')}: {r.choice(['Int', 'Str', 'Float'])}" for _ in range(r.randint(1, 2)))
            self.emit(0, f"class {c}({fields})")
            if r.random() < 0.5:
                t, v = r.choice([x for x in TYPES if x[1] is not None])
                self.emit(1, f"def {self.fresh('fld')}: {t} := {v}")
            for _ in range(r.randint(1, 2)):
                self.fun(1, method=True)
            self.emit(0, "")
        elif k == "alias":
            base = r.choice(["Str", "Int", "Float"])
            cond = "" if r.random() < 0.5 else (" when self >= 0" if base != "Str" else "")
            self.emit(0, f"type T{self.fresh('t')}: {base}{cond}")
        elif k == "iface":
            i = "I" + self.fresh("i")
            self.emit(0, f"type {i}")
            ms = []
            for _ in range(r.randint(1, 2)):
                m = self.fresh("am")
                rt = r.choice(["Int", "Str", "Int?", "(Int, Str)"])
                ms.append((m, rt))
                self.emit(1, f"def {m}(self) -> {rt}")
            self.emit(0, "")
            if r.random() < 0.6:
                self.emit(0, f"class C{self.fresh('c')}: {i}")
                for m, rt in ms:
                    v = {"Int": "1", "Str": '"s"', "Int?": "None", "(Int, Str)": '(1, "a")'}[rt]
                    self.emit(1, f"def {m}(self) -> {rt} => {v}")
                self.emit(0, "")
        elif k == "sqrt":
            self.emit(0, r.choice(["print(sqrt 4)", f"def {self.fresh('s')} := sqrt 16",
                                   f"def {self.fresh('s')} := 1.0 + sqrt 2.0",
                                   f"def {self.fresh('s')} := if True then sqrt 4 else 2.0"]))
        elif k == "ctl":
            kind = r.choice(["for", "if", "while"])
            if kind == "for":
                self.emit(0, f"for {self.fresh('i')} in 0 .. 3 do print(sqrt 4)")
            elif kind == "if":
                self.emit(0, "if True then")
                self.emit(1, f"def {self.fresh('z')}: (Int, Str) := (1, \"a\")")
                self.emit(1, "print(sqrt 9)")
            else:
                w = self.fresh("w")
                self.emit(0, f"def {w} := 0")
                self.emit(0, f"while {w} < 2 do")
                self.emit(1, f"def {self.fresh('z')}: Int? := None")
                self.emit(1, f"{w} := {w} + 1")
        elif k == "lambda":
            self.emit(0, f"def {self.fresh('g')}: Int -> Float := \\x: Int => sqrt x")

    def program(self, n):
        r = self.r
        for _ in range(r.choice([0, 0, 1, 2])):
            self.emit(0, r.choice(USER_IMPORTS))
        for _ in range(n):
            self.item()
        return "\n".join(self.lines) + "\n"


# hand-written: every construct once, and the known hazards
PROBES = [
    "print(sqrt 4)\n",
    "def f(x: Int?) -> Int => 1\nprint(f(1))\n",
    "def t: (Int, Str) := (1, \"a\")\nprint(t)\n",
    "def g(h: Int -> Int, x: Int) -> Int => h(x)\nprint(g(\\x: Int => x + 1, 2))\n",
    "def h(k: (Int, Int) -> Int?) -> Int? => k(1, 2)\n",
    "def k(y: Any) -> Int => 1\n",
    "def u: {Int, Str} := 3\nprint(u)\n",
    "type MyType: Str\n",
    "type PosInt: Int when self >= 0\n",
    "type I\n    def fa(self) -> Int\n\nclass C: I\n    def fa(self) -> Int => 1\n\nprint(C().fa())\n",
    "class C(def a: Int)\n    def m(self, q: Int?) -> Float => sqrt self.a\nprint(C(4).m(None))\n",
    "def s: Set[(Int, Int)] := {(1, 2)}\nprint(s)\n",
    "def f(x: Float) -> Float =>\n    def y := sqrt x\n    y\nprint(f(4.0))\n",
    "import os\nfrom a import b,c as c,d\nprint(sqrt 4)\n",
    "import math\nprint(sqrt 4)\n",
    "def f() -> Int =>\n    import os\n    1\nprint(f())\n",
    "print(1)\nimport os\nprint(2)\n",
    # hazards: a user definition named like a support name (D20), imports of names in the type table
    "def math := 3\nprint(sqrt 4)\n",
    "def f(x: Int) -> Int =>\n    def math := 3\n    print(sqrt 4)\n    x\nprint(f(1))\n",
    "def f(math: Int) -> Float => sqrt 4\nprint(f(1))\n",
    "class Optional(def a: Int)\ndef o: Optional := Optional(1)\ndef p: Int? := None\nprint(o.a)\n",
    "class Tuple(def a: Int)\ndef p: (Int, Int) := (1, 2)\nprint(p)\n",
    "def ABC := 1\ntype I\n    def fa(self) -> Int\n",
    "def NewType := 1\ntype MyType: Str\n",
    "from enum import Enum\nprint(1)\n",
    "import Set\nprint(1)\n",
    "from a import Int as Str\nprint(1)\n",
]


def neutralise_capture(src, name):
    return re.sub(rf"\b{re.escape(name)}\b", name + "_x", src)


def neutralise_import(src, table):
    def fix(line):
        if not IMPORT_LINE.match(line):
            return line
        return IDENT.sub(lambda m: (m.group(0) + "_x") if table.get(m.group(0), m.group(0)) != m.group(0) else m.group(0), line)
    return "\n".join(fix(l) for l in src.splitlines()) + "\n"


def transpile(srcs, ann):
    res = run_sharded(MH, [f"t{i}\ttranspile\t{ann}\t{hexs(s)}" for i, s in enumerate(srcs)],
                      shards=min(8, max(1, len(srcs) // 40)))
    return [res.get(f"t{i}", ["MISSING"]) for i in range(len(srcs))]


def run(tier, replay=None):
    ck = Check("C16", tier)
    quick = tier == "quick"
    ck.proof(["props/C16.vo"], "props.C16",
             ["C16_monotone", "C16_covers", "C16_covers_refuted", "C16_covers_refuted_parent", "C16_reserved_spellings",
              "C16_imports_once", "C16_module_layout", "C16_user_imports_verbatim", "C16_user_imports_renamed_refuted",
              "C16_self_contained"], translators=["names"])
    build_driver(ck.log)
    build_harness(ck.log)
    table = py_names_table()
    st_bad = selftest(table)
    if st_bad:
        ck.broken.append({"kind": "oracle-selftest", "where": "c16.judge on hand-made outputs", "examples": st_bad[:3]})
    ck.cov["oracle_selftest"] = f"{len(SELFTEST) - len(st_bad)}/{len(SELFTEST)} hand-made outputs judged as expected"

    if replay:
        cases = [convcorr.Case(json.load(open(replay))["input"], "replay")]
    else:
        cases = convcorr.programs(ck.rng, 60 if quick else 600)
        cases += [convcorr.Case(gen.program(ck.rng, size=ck.rng.randint(2, 6), features=gen.DEFAULT_FEATURES), "generated-class")
                  for _ in range(30 if quick else 150)]
        for _ in range(240 if quick else 1500):
            cases.append(convcorr.Case(Gen16(ck.rng).program(ck.rng.randint(2, 7)), "support"))
        cases += [convcorr.Case(s, "probe") for s in PROBES]
    t0 = time.time()
    convcorr.run(cases)
    ck.log(f"correspondence run on {len(cases)} programs in {time.time() - t0:.1f}s")
    t0 = time.time()
    tr = {a: transpile([c.src for c in cases], a) for a in "01"}
    ck.log(f"public pipeline run in {time.time() - t0:.1f}s")

    judged = accepted = unparse = 0
    corr_bad, samples = [], []
    kinds, used = {}, {}
    user_import_lines = 0
    for i, c in enumerate(cases):
        for a in "01":
            st = c.status.get(a)
            if st == "disagree":
                corr_bad.append((c.src, a, str(c.impl.get(a, ("", ""))[0])[:400], str(c.model.get(a))[:400]))
            r = tr[a][i]
            if r[0] != "OK":
                continue
            accepted += 1
            py = unhex(r[1])
            res = judge(c.src, py, table)
            if res is None:
                unparse += 1
                continue
            judged += 1
            user_import_lines += len(user_import_nodes(c.src)[0])
            for n in SUPPORT:
                if re.search(rf"\b{n}\b", py):
                    used[n] = used.get(n, 0) + 1
            for kind, detail in res:
                kinds[kind] = kinds.get(kind, 0) + 1
                neutral = None
                if kind == "capture":
                    s2 = neutralise_capture(c.src, detail["name"])
                    r2 = transpile([s2], a)[0]
                    res2 = judge(s2, unhex(r2[1]), table) if r2[0] == "OK" else None
                    neutral = "ok" if res2 is not None and not any(k == "capture" for k, _ in res2) else "no"
                elif kind == "user-import" and detail.get("renamed"):
                    s2 = neutralise_import(c.src, table)
                    r2 = transpile([s2], a)[0]
                    res2 = judge(s2, unhex(r2[1]), table) if r2[0] == "OK" else None
                    neutral = "ok" if res2 is not None and not any(k == "user-import" for k, _ in res2) else "no"
                text = case_text(kind, detail, c.src, a, neutral)
                p = ck.write_replay("oracle", {"input": c.src, "annotate": a, "kind": kind, "detail": detail,
                                               "output": py, "neutralised": neutral})
                ck.violation(f"{kind}: {detail}", p, text)
            if len(samples) < 3 and c.kind == "support" and a == "1" and "import" in py and not res:
                samples.append({"source": c.src[:400], "annotate_on": py[:500]})
    ck.log(f"oracle judged {judged} outputs")
    if corr_bad:
        ck.broken.append({"kind": "correspondence", "where": "gen endpoint: Convert.conv vs generate::convert",
                          "count": len(corr_bad), "examples": [list(x) for x in corr_bad[:2]]})
    agree = sum(1 for c in cases for a in "01" if c.status.get(a) == "agree")
    acc_kind = {}
    for i, c in enumerate(cases):
        acc_kind.setdefault(c.kind, [0, 0])
        acc_kind[c.kind][0] += 1
        acc_kind[c.kind][1] += 1 if tr["1"][i][0] == "OK" else 0
    ck.cov.update({
        "evaluations": 2 * len(cases), "distinct_nontrivial": judged,
        "rule": "generated core programs, generated programs with classes, programs generated to use every construct that "
                "needs a support import (sqrt; nullable, tuple, callable, union and Any types, nested; type aliases; "
                "interfaces) at top level, in functions, methods, class fields, control flow and lambdas, hand-written "
                "probes and every repository sample; each transpiled with annotate off and on; non-trivial = accepted and "
                "parseable as Python, then judged by the oracle",
        "cases_by_kind(total, accepted with annotate on)": acc_kind,
        "accepted_outputs": accepted, "outputs_not_parseable_as_python": unparse,
        "outputs_mentioning_support_name": used,
        "user_import_lines_checked": user_import_lines,
        "oracle_complaints_by_kind": kinds,
        "traces_validated_against_impl": agree,
        "model_status": convcorr.summary(cases),
        "samples": samples or [{"source": cases[0].src[:200]}],
        "trusted_base": [
            "Coq 8.16.1 kernel; no axioms (Print Assumptions: Closed under the global context)",
            "hand model model/Convert.v of src/generate/convert/*.rs, generate/name.rs, generate/mod.rs incl. Imports "
            "(types named Union are outside the model), compared with the implementation on every case (typed AST in, "
            "Core with the import statements out)",
            "definition of `needs` in proofs/ImportsNeeds.v: which Core nodes stand for a use of a support name (the "
            "printer turns Sqrt into math.sqrt, Type into its literal, decorators into @name); the printer itself is "
            "covered by C10's table translator, not re-proved here",
            "translator translate/names.py (Mamba->Python name table)",
            "lib/vlib/rustdebug.py + astsx.py (reading the Debug dumps), extraction + driver.ml",
            "python3 ast and the scope resolution written in c16.py (unit-tested on hand-made bad outputs)",
        ],
    })
    ck.assumptions += ["free-name capture by user definitions is outside the theorems (they speak about the import list); "
                       "it is judged by the direct oracle only",
                       "a free name of the output that the source text mentions is counted as the user's own name"]
    return ck.finish()
