"""python3 as the reference for Python's grammar: tokenisation and AST in the model's notation."""
import ast, io, tokenize

from .common import hexs


def py_tokens(text):
    """Token texts of a Python source fragment (no NEWLINE/INDENT/ENDMARKER/comments)."""
    out = []
    skip = {tokenize.NEWLINE, tokenize.NL, tokenize.INDENT, tokenize.DEDENT, tokenize.ENDMARKER,
            tokenize.COMMENT, tokenize.ENCODING}
    for t in tokenize.generate_tokens(io.StringIO(text).readline):
        if t.type in skip:
            continue
        out.append(t.string)
    return out


_BIN = {ast.Add: "Add", ast.Sub: "Sub", ast.Mult: "Mult", ast.Div: "Div", ast.FloorDiv: "FloorDiv",
        ast.Mod: "Mod", ast.Pow: "Pow", ast.BitAnd: "BitAnd", ast.BitOr: "BitOr", ast.BitXor: "BitXor",
        ast.LShift: "LShift", ast.RShift: "RShift"}
_CMP = {ast.Lt: "Lt", ast.Gt: "Gt", ast.LtE: "LtE", ast.GtE: "GtE", ast.Eq: "Eq", ast.NotEq: "NotEq",
        ast.Is: "Is", ast.IsNot: "IsNot", ast.In: "In", ast.NotIn: "NotIn"}
_UN = {ast.UAdd: "UAdd", ast.USub: "USub", ast.Invert: "Invert", ast.Not: "Not"}


class Outside(Exception):
    """The Python tree uses a construct the expression model does not have."""


def expr_sx(n, src):
    """ast expression -> the S-expression text the OCaml driver prints for a pexpr."""
    def l(es):
        return "[" + " ".join(expr_sx(e, src) for e in es) + "]"
    hs = lambda s: "s:" + hexs(s)
    if isinstance(n, ast.Name):
        return f"(Name {hs(n.id)})"
    if isinstance(n, ast.Constant):
        if n.value is True:
            return "True"
        if n.value is False:
            return "False"
        if n.value is None:
            return "None"
        seg = ast.get_source_segment(src, n)
        if isinstance(n.value, str):
            if seg is None or len(seg) < 2 or seg[0] != '"' or seg[:3] == '"""':
                raise Outside("string form")
            return f"(Str {hs(seg[1:-1])})"
        if isinstance(n.value, (int, float, complex)):
            return f"(Num {hs(seg)})"
        raise Outside("constant")
    if isinstance(n, ast.BinOp):
        return f"(BinOp {_BIN[type(n.op)]} {expr_sx(n.left, src)} {expr_sx(n.right, src)})"
    if isinstance(n, ast.BoolOp):
        return f"(BoolOp {'And' if isinstance(n.op, ast.And) else 'Or'} {l(n.values)})"
    if isinstance(n, ast.Compare):
        ops = " ".join(f"({_CMP[type(o)]} {expr_sx(c, src)})" for o, c in zip(n.ops, n.comparators))
        return f"(Compare {expr_sx(n.left, src)} [{ops}])"
    if isinstance(n, ast.UnaryOp):
        return f"(UnaryOp {_UN[type(n.op)]} {expr_sx(n.operand, src)})"
    if isinstance(n, ast.IfExp):
        return f"(IfExp {expr_sx(n.test, src)} {expr_sx(n.body, src)} {expr_sx(n.orelse, src)})"
    if isinstance(n, ast.Lambda):
        a = n.args
        if a.vararg or a.kwarg or a.kwonlyargs or a.defaults or a.posonlyargs:
            raise Outside("lambda signature")
        return f"(Lambda [{' '.join(hs(x.arg) for x in a.args)}] {expr_sx(n.body, src)})"
    if isinstance(n, ast.Call):
        if n.keywords or any(isinstance(x, ast.Starred) for x in n.args):
            raise Outside("call form")
        return f"(Call {expr_sx(n.func, src)} {l(n.args)})"
    if isinstance(n, ast.Subscript):
        if isinstance(n.slice, ast.Slice):
            raise Outside("slice")
        return f"(Subscript {expr_sx(n.value, src)} {expr_sx(n.slice, src)})"
    if isinstance(n, ast.Attribute):
        return f"(Attribute {expr_sx(n.value, src)} {hs(n.attr)})"
    if isinstance(n, ast.Tuple):
        return f"(Tuple {l(n.elts)})"
    if isinstance(n, ast.List):
        return f"(List {l(n.elts)})"
    if isinstance(n, ast.Set):
        return f"(Set {l(n.elts)})"
    raise Outside(type(n).__name__)


def parse_expr_sx(text):
    """Parse `text` as ONE Python expression (grammar symbol `test`): it is put in keyword-argument
    position, where a bare tuple `a, b` is not an expression.
    Returns ('OK', sx) | ('SYNTAX', msg) | ('OUTSIDE', why)."""
    src = "f(x=" + text.strip() + ")"
    try:
        tree = ast.parse(src, mode="eval")
        node = tree.body.keywords[0].value
        if len(tree.body.keywords) != 1 or tree.body.args:
            return "SYNTAX", "not a single expression"
    except (SyntaxError, ValueError, MemoryError, RecursionError, IndexError, AttributeError) as e:
        return "SYNTAX", str(e)
    try:
        return "OK", expr_sx(node, src)
    except Outside as e:
        return "OUTSIDE", str(e)
