"""Rust Debug dumps of the typed AST (ASTTy) and of Core  ->  the S-expression notation of the Coq models."""
from .common import hexs
from .rustdebug import Node, Set, parse


class Outside(Exception):
    pass


def S(s):
    return "s:" + hexs(s)


def B(b):
    return "T" if b else "F"


# ---- names -------------------------------------------------------------------------------------

def _tn_key(t):
    v = t["variant"]
    return (v["name"], repr(v["generics"]), t["is_nullable"], t["is_mutable"])


def nm_sx(n):
    members = sorted(n["names"], key=_tn_key)
    return "(NM [" + " ".join(tn_sx(t) for t in members) + "])"


def tn_sx(t):
    v = t["variant"]
    return f"(TN {B(t['is_nullable'])} {S(v['name'])} [{' '.join(nm_sx(g) for g in v['generics'])}])"


def opt(o, f):
    if isinstance(o, Node) and o.name == "None" and o.fields is None and o.args is None:
        return "~"
    if isinstance(o, Node) and o.name == "Some":
        return f(o[0])
    raise Outside(f"option expected, got {o!r}")


# ---- typed AST ---------------------------------------------------------------------------------

_BIN = {"Add", "Sub", "Mul", "Div", "FDiv", "Mod", "Pow", "BAnd", "BOr", "BXOr", "BLShift", "BRShift", "And", "Or",
        "Eq", "Neq", "Is", "IsN", "IsA", "IsNA", "In", "Le", "Leq", "Ge", "Geq", "Question"}
_UN = {"AddU", "SubU", "Not", "BOneCmpl", "Sqrt"}


def ast_sx(a):
    return f"(A {opt(a['ty'], nm_sx)} {node_sx(a['node'])})"


def asts(l):
    return "[" + " ".join(ast_sx(x) for x in l) + "]"


def node_sx(n):
    k = n.name
    f = n.fields or {}
    if k in _BIN:
        return f"(NBin {k} {ast_sx(f['left'])} {ast_sx(f['right'])})"
    if k in _UN:
        return f"(NUn {k} {ast_sx(f['expr'])})"
    if k == "Int":
        return f"(NInt {S(f['lit'])})"
    if k == "Real":
        return f"(NReal {S(f['lit'])})"
    if k == "ENum":
        return f"(NENum {S(f['num'])} {S(f['exp'])})"
    if k == "Str":
        return f"(NStr {S(f['lit'])} {B(len(f['expressions']) > 0)})"
    if k == "DocStr":
        return f"(NDocStr {S(f['lit'])})"
    if k == "Bool":
        return f"(NBool {B(f['lit'])})"
    if k == "Id":
        return f"(NId {S(f['lit'])})"
    if k in ("Undefined", "Underscore", "Pass", "Break", "Continue", "ReturnEmpty"):
        return "N" + k
    if k in ("Tuple", "List", "Set"):
        return f"(N{k} {asts(f['elements'])})"
    if k == "Index":
        return f"(NIndex {ast_sx(f['item'])} {ast_sx(f['range'])})"
    if k in ("Range", "Slice"):
        return f"(N{k} {ast_sx(f['from'])} {ast_sx(f['to'])} {B(f['inclusive'])} {opt(f['step'], ast_sx)})"
    if k == "FunctionCall":
        nm = f["name"]
        return f"(NCall {S(nm['name'])} [{' '.join(nm_sx(g) for g in nm['generics'])}] {asts(f['args'])})"
    if k == "PropertyCall":
        return f"(NProp {ast_sx(f['instance'])} {ast_sx(f['property'])})"
    if k == "AnonFun":
        return f"(NAnonFun {asts(f['args'])} {ast_sx(f['body'])})"
    if k == "ExpressionType":
        return f"(NExprType {ast_sx(f['expr'])} {opt(f['ty'], nm_sx)})"
    if k == "VariableDef":
        if f["forward"]:
            raise Outside("forward")
        return f"(NVarDef {ast_sx(f['var'])} {opt(f['ty'], nm_sx)} {opt(f['expr'], ast_sx)})"
    if k == "Reassign":
        return f"(NReassign {ast_sx(f['left'])} {ast_sx(f['right'])} {f['op'].name})"
    if k == "FunDef":
        return f"(NFunDef {ast_sx(f['id'])} {asts(f['args'])} {opt(f['ret'], nm_sx)} {opt(f['body'], ast_sx)})"
    if k == "FunArg":
        return f"(NFunArg {B(f['vararg'])} {ast_sx(f['var'])} {opt(f['ty'], nm_sx)} {opt(f['default'], ast_sx)})"
    if k == "Block":
        return f"(NBlock {asts(f['statements'])})"
    if k == "Return":
        return f"(NReturn {ast_sx(f['expr'])})"
    if k == "IfElse":
        return f"(NIfElse {ast_sx(f['cond'])} {ast_sx(f['then'])} {opt(f['el'], ast_sx)})"
    if k == "Match":
        return f"(NMatch {ast_sx(f['cond'])} {asts(f['cases'])})"
    if k == "Case":
        return f"(NCase {ast_sx(f['cond'])} {ast_sx(f['body'])})"
    if k == "While":
        return f"(NWhile {ast_sx(f['cond'])} {ast_sx(f['body'])})"
    if k == "For":
        return f"(NFor {ast_sx(f['expr'])} {ast_sx(f['col'])} {ast_sx(f['body'])})"
    if k == "Raise":
        return f"(NRaise {ast_sx(f['error'])})"
    if k == "Handle":
        return f"(NHandle {ast_sx(f['expr_or_stmt'])} {asts(f['cases'])})"
    if k == "Import":
        return f"(NImport {opt(f['from'], ast_sx)} {asts(f['import'])} {asts(f['alias'])})"
    if k == "Dict":
        return "(NDict [" + " ".join(f"[{ast_sx(a)} {ast_sx(b)}]" for a, b in f["elements"]) + "])"
    if k in ("ListBuilder", "SetBuilder"):
        return f"(N{k} {ast_sx(f['item'])} {asts(f['conditions'])})"
    if k == "DictBuilder":
        return f"(NDictBuilder {ast_sx(f['from'])} {ast_sx(f['to'])} {asts(f['conditions'])})"
    if k == "With":
        al = f["alias"]
        al_sx = "~" if (isinstance(al, Node) and al.name == "None") else ast_sx(al[0][0])
        return f"(NWith {ast_sx(f['resource'])} {al_sx} {ast_sx(f['expr'])})"
    if k == "Class":
        nm = f["ty"]
        return (f"(NClass {S(nm['name'])} [{' '.join(nm_sx(g) for g in nm['generics'])}] {asts(f['args'])} "
                f"{asts(f['parents'])} {opt(f['body'], ast_sx)})")
    if k == "Parent":
        nm = f["ty"]
        return f"(NParent {S(nm['name'])} [{' '.join(nm_sx(g) for g in nm['generics'])}] {asts(f['args'])})"
    if k == "TypeDef":
        nm = f["ty"]
        return (f"(NTypeDef {S(nm['name'])} [{' '.join(nm_sx(g) for g in nm['generics'])}] {opt(f['isa'], nm_sx)} "
                f"{opt(f['body'], ast_sx)} {B(_CTX.has_abstract_parent(nm['name']))})")
    if k == "TypeAlias":
        nm = f["ty"]
        return f"(NTypeAlias {S(nm['name'])} [{' '.join(nm_sx(g) for g in nm['generics'])}] {nm_sx(f['isa'])})"
    raise Outside(k)


# ---- the part of the context that extract_class consults (has_abstract_parent) -----------------

class _Ctx:
    """Class table of one file: user classes are concrete, type definitions and the built-in stub
    classes are not (src/check/context/clss/{generic,python}.rs)."""

    def __init__(self):
        self.user = {}
        self._builtins = None

    def builtins(self):
        if self._builtins is None:
            import ast as pyast, glob, os
            from .common import REPO
            names = set()
            for f in glob.glob(os.path.join(REPO, "src/check/resource/**/*.py"), recursive=True):
                try:
                    for n in pyast.walk(pyast.parse(open(f).read())):
                        if isinstance(n, pyast.ClassDef):
                            names.add(n.name)
                except SyntaxError:
                    pass
            conv = {"int": "Int", "float": "Float", "str": "Str", "bool": "Bool", "complex": "Complex",
                    "list": "List", "set": "Set", "dict": "Dict", "tuple": "Tuple", "range": "Range",
                    "slice": "Slice", "enum": "Enum", "collection": "Collection"}
            self._builtins = {conv.get(n, n) for n in names} | names
        return self._builtins

    def load(self, root):
        self.user = {}

        def walk(a):
            n = a["node"]
            if n.name == "Class":
                ps = [p["node"]["ty"]["name"] for p in n["parents"] if p["node"].name == "Parent"]
                self.user[n["ty"]["name"]] = (True, ps)
            elif n.name == "TypeDef":
                isa = n["isa"]
                ps = [t["variant"]["name"] for t in isa[0]["names"]] if isa.name == "Some" else []
                self.user[n["ty"]["name"]] = (False, ps)
            if n.name == "Block":
                for s_ in n["statements"]:
                    walk(s_)
        walk(root)

    def known(self, name):
        return name in self.user or name in self.builtins()

    def is_abstract(self, name, seen=()):
        if name in seen or not self.known(name):
            return False
        if name in self.user:
            concrete, ps = self.user[name]
            return (not concrete) or any(self.has_abstract_parent(p, seen + (name,)) for p in ps)
        return True   # built-in stub classes are recorded as not concrete

    def has_abstract_parent(self, name, seen=()):
        if name in seen or name not in self.user:
            return False if name not in self.builtins() else False
        return any(self.is_abstract(p, seen + (name,)) for p in self.user[name][1])


_CTX = _Ctx()


# ---- Core ----------------------------------------------------------------------------------------

_OPT_FIELDS = {("Import", "from"), ("VarDef", "ty"), ("VarDef", "expr"), ("FunDefOp", "ty"), ("FunDef", "ty"),
               ("FunArg", "ty"), ("FunArg", "default"), ("TryExcept", "setup")}


def core_sx(c):
    if isinstance(c, Node):
        if c.fields is None and c.args is None:
            return c.name          # Break, Continue, Pass, None, Empty, UnderScore
        if c.fields is None:
            raise Outside(f"core {c!r}")
        parts = []
        for k, v in c.fields.items():
            if (c.name, k) in _OPT_FIELDS:
                parts.append(opt(v, core_sx))
            elif isinstance(v, str):
                parts.append(S(v))
            elif isinstance(v, bool):
                parts.append(B(v))
            elif isinstance(v, list):
                if c.name == "FunDef" and k == "dec":
                    parts.append("[" + " ".join(S(x) for x in v) + "]")
                elif c.name == "Dictionary":
                    parts.append("[" + " ".join(f"[{core_sx(a)} {core_sx(b)}]" for a, b in v) + "]")
                else:
                    parts.append("[" + " ".join(core_sx(x) for x in v) + "]")
            elif isinstance(v, Node) and k == "op":
                parts.append(v.name)
            else:
                parts.append(core_sx(v))
        return f"({c.name} {' '.join(parts)})"
    raise Outside(f"core {c!r}")


def from_debug_ast(text):
    root = parse(text)
    _CTX.load(root)
    return ast_sx(root)


def from_debug_core(text):
    return core_sx(parse(text))
