"""Shared by the checks built on the desugaring model (C11, C15, C16, C17, C01, C02):
run programs through the `gen` endpoint (typed AST + Core + text of the implementation) and through
the extracted `Convert.gen`, and compare."""
import glob, os

from .common import hexs, unhex, run_sharded, MH, DRIVER, REPO
from . import astsx, gen


class Case:
    __slots__ = ("src", "kind", "impl", "model", "status", "note", "ast_sx")

    def __init__(self, src, kind):
        self.src, self.kind = src, kind
        self.impl = {}      # annotate -> (core_sx, python text)
        self.model = {}     # annotate -> core_sx | None (conversion error)
        self.status = {}    # annotate -> 'agree' | 'disagree' | 'outside' | 'rejected:<stage>'
        self.note = {}
        self.ast_sx = {}


def sample_sources():
    out = []
    for f in sorted(glob.glob(os.path.join(REPO, "tests/resource/valid/**/*.mamba"), recursive=True)):
        try:
            out.append(open(f, encoding="utf-8").read())
        except Exception:
            pass
    return out


# programs exercising constructs the random generator reaches rarely
EXTRA = [
    "def f(x: Int) -> Int => x + 1\nprint(f(2))\n",
    "def a := if True then 1 else 2\nprint(a)\n",
    "def x := [1, 2]\nfor i in 0 ..= 3 .. 2 do print(i)\n",
    "class E: Exception(\"e\")\ndef g() -> Int raise [E] => raise E()\ndef a := g() handle\n    err: E => 0\nprint(a)\n",
    "def a: Int? := None\ndef b := a ? 3\nprint(b)\n",
    "def m(x: Int) -> Int => match x\n    0 => 1\n    n => n * 2\nprint(m(3))\n",
    "def t := (1, \"a\")\ndef (p, q) := (1, 2)\nprint(p + q)\n",
    "def s := {1, 2, 3}\ndef l := [x * 2 | x in s]\n",
    "def f(x: Int, y: Int := 3) -> Int => x * y\nprint(f(2))\nprint(f(2, 4))\n",
    "def g(h: (Int) -> Int, x: Int) -> Int => h(x)\nprint(g(\\x: Int => x + 1, 2))\n",
    "def x := 10\nx += 2\nx -= 1\nx *= 3\nprint(x)\n",
    "def w := 0\nwhile w < 3 do\n    w := w + 1\n    if w = 2 then break\nprint(w)\n",
    "def a := 1.5 + 2E3\nprint(sqrt 4)\n",
    "def s := \"v\"\nprint(\"a{s}b\")\n",
    "def l := [1, 2, 3]\nprint(l[0])\nprint(1 in l)\n",
    "def f(x: Int) -> Str =>\n    if x > 0 then\n        \"pos\"\n    else\n        \"neg\"\nprint(f(1))\n",
    "def f(x: Int) -> Int =>\n    def y := match x\n        0 => 10\n        _ => 20\n    y\nprint(f(0))\n",
    "def a := 5\ndef b := if a > 3 then \"big\" else \"small\"\nprint(b)\n",
    "def u(a: Int?) -> Int => a ? 0\nprint(u(None))\n",
    "def p(x: (Int, Str)) -> Int => 1\nprint(p((1, \"a\")))\n",
    # statements whose POSITION matters: imports and doc strings after other statements, with and without
    # annotation-only support imports
    "def lim: Int? := 3\nprint(\"start\")\nimport sys\nprint(\"end\")\n",
    "print(1)\nimport math\ndef t: (Int, Str) := (1, \"a\")\nfrom os import path\nprint(2)\n",
    "def a := sqrt 16\nimport sys\nprint(a)\n",
    "print(0)\n\"\"\"late doc\"\"\"\ndef q: Int? := None\nprint(1)\n",
    # definitions without a value, at top level and as class fields, read before they are assigned
    "class Acc\n    def total: Int\n    def name: Str?\n    def show(self) =>\n        print(self.total)\n\ndef a := Acc()\na.show()\n",
    "def y: Int\ndef z: Str?\nprint(1)\n",
    "type Shape\n    def area(self) -> Int\nclass Base\n    def b: Int := 1\ntype Solid: Base\n    def vol(self) -> Int\n",
    # an interface whose only parent is a concrete class / another interface, with no parentless interface in the module
    "class Base\n    def b: Int := 1\ntype Solid: Base\n    def vol(self) -> Int\n",
    "class Base2\n    def b: Int := 1\ntype Mid: Base2\n    def m(self) -> Int\ntype Leaf: Mid\n    def l(self) -> Int\n",
    # variadic parameters of functions, methods and constructors
    "def total(scale: Int, vararg rest: Int) -> Int => scale\nprint(total(2, 5))\nclass Bag(vararg items: Int)\n    def n: Int := 0\n    def add(self, vararg more: Int) => print(1)\n",
    "class Base(def label: Str)\n    def show(self) -> Str => self.label\nclass Item(def name: Str, def nickname: Str): Base(\"<{nickname}>\")\ndef i := Item(\"p\", \"q\")\nprint(i.name)\nprint(i.show())\n",
]


def programs(rng, n, features=None, size=(2, 9), with_samples=True, with_extra=True):
    out = []
    feats = features if features is not None else gen.DEFAULT_FEATURES - {"class"}
    for _ in range(n):
        out.append(Case(gen.program(rng, size=rng.randint(*size), features=feats), "generated"))
    if with_extra:
        out += [Case(s, "extra") for s in EXTRA]
    if with_samples:
        out += [Case(s, "sample") for s in sample_sources()]
    return out


def run(cases, annotates=("0", "1")):
    """Fill impl/model/status of every case for the given annotate settings."""
    for ann in annotates:
        res = run_sharded(MH, [f"p{i}\tgen\t{ann}\t{hexs(c.src)}" for i, c in enumerate(cases)])
        lines = []
        for i, c in enumerate(cases):
            r = res.get(f"p{i}", ["MISSING"])
            if r[0] != "OK":
                c.status[ann] = "rejected:" + (r[1] if len(r) > 1 else r[0])
                continue
            try:
                a = astsx.from_debug_ast(unhex(r[1]))
                core = astsx.from_debug_core(unhex(r[2]))
            except astsx.Outside as e:
                c.status[ann] = "outside"
                c.note[ann] = str(e)[:40]
                c.impl[ann] = (None, unhex(r[3]))
                continue
            c.impl[ann] = (core, unhex(r[3]))
            c.ast_sx[ann] = a
            lines.append(f"p{i}\tgen\t{ann}\t{a}")
        mod = run_sharded(DRIVER, lines) if lines else {}
        for i, c in enumerate(cases):
            if ann in c.status:
                continue
            m = mod.get(f"p{i}", ["MISSING"])
            if m[0] == "OUTSIDE":
                c.status[ann] = "outside"
                c.note[ann] = m[1][:40] if len(m) > 1 else ""
            elif m[0] == "OK":
                c.model[ann] = m[1]
                c.status[ann] = "agree" if m[1] == c.impl[ann][0] else "disagree"
            elif m[0] == "NONE":
                c.model[ann] = None
                c.status[ann] = "disagree"   # the implementation produced Core, the model an error
            else:
                c.status[ann] = "disagree"
                c.note[ann] = str(m)[:80]
    return cases


def summary(cases, annotates=("0", "1")):
    s = {}
    for c in cases:
        for ann in annotates:
            k = c.status.get(ann, "?")
            s[k] = s.get(k, 0) + 1
    return s
