"""C06 - null safety: None and T? never flow into non-nullable positions.

proof         : rule level `T? >= T`, `T? >= None`, not `T >= T?`, not `T >= None`: C06_nullable_rule (props/C20.v,
                re-exported); position level props/C06.v over model/Typing.v: `C06_null_flow` (every consuming position
                of a conforming program), `C06_quest_is_nonnull`, `C06_nullable_accepts`, the implementation's rules
                outside the known classes, refutations.
tie           : as C05 (regenerated signatures + verdict correspondence), with the generator's "null" profile: nullable
                variables, parameters, fields and returns, `x ? d` at typed positions.
direct oracle : None -> T? and T -> T? accepted (generated conforming programs + corpus), None / T? -> T rejected at every
                consuming position (mutants `none` and `nullable`: argument, operand, receiver of operator / method /
                field / print / condition, initialiser, new value of variable or field, return value, default, range
                bound, handle arm value), judged by typing_common.Spec."""
from . import typing_common as tc

KINDS = {"none", "nullable", "nullable-subtype", "unwrap"}
THEOREMS = ["C06_rule", "C06_nonnull_accepted", "C06_null_flow", "C06_null_flow_impl_outside_known",
            "C06_nullable_accepts", "C06_quest_is_nonnull", "C06_null_flow_refuted",
            "C06_rejects_none_for_nullable_formal"]


def run(tier, replay=None):
    return tc.run_check("C06", tier, replay, THEOREMS, ["props/C06.vo"], "props.C06", KINDS, "null",
                        with_python=False)
