(** * C14 - layout trivia never changes meaning (lexer level)

    Objects: [tokenize] of model/Lex.v (tied to the Rust lexer by the generated keyword/spelling
    tables and the byte-for-byte `lex` correspondence); [run_tls s] is the token list of
    [tokenize s] before the tokens of interpolated expressions are flattened in (C18:
    [tokenize_run]); [norm_of s] is what [AST::from_str] hands to the parser: [None] when the
    lexer rejects, else the token kinds with payloads, Comment tokens removed ([kinds_norm]);
    [nl_norm_of] additionally collapses runs of NL (a variant, NOT what the parser sees today).

    An edit is made at a point [pre | R] of the text where
      - [pre] is accepted by the lexer on its own ([accepted]) and is lexically complete
        ([complete eol pre]: no string literal left open; no lone carriage return at its end; and,
        when [eol = false], no comment running to its very end), and
      - [R] is empty or starts with a line break ([hd_eol]).
    [tl_eqv]/[tok_eqv]: same token (kind and payload), same nesting flag, identical span unless
    the token is one of the synthetic layout tokens NL / Indent / Dedent / Eof.
    [opt_rel R x y]: both runs are rejected, or both are accepted with [R]-related token lists.

    Proved for ALL inputs:
    - [C14_tokenize_total]    the model never runs out of fuel (so every statement below is
                              about real answers of [tokenize]);
    - [C14_crlf_same]         writing every LF as CRLF changes neither a token nor a position nor
                              a lexical error, provided no token starts with a carriage return and
                              every string literal is closed and holds no line feed ([crlf_ok]);
    - [C14_trailing_spaces]   [n] blanks before a line break / at the end of input: same verdict,
                              [tl_eqv] tokens (only the NL token of that line, or the closing
                              Dedent/Eof tokens, move);   [.._norm]: [norm_of] is unchanged;
    - [C14_trailing_comment]  [k+1] blanks and [# text] before a line break, on a line that holds
                              a token: same verdict and exactly one more token, the Comment,
                              everything else [tl_eqv];   [.._norm]: [norm_of] is unchanged;
    - [C14_final_newline]     a line feed appended to a complete text adds NO token (the pending
                              NL is dropped at end of input), the closing Dedent/Eof tokens move;
                              [.._norm]: [norm_of] is unchanged.
    - [C14_blank_line]        a line holding only [n] blanks inserted after a line break point:
                              same verdict; either nothing changes (no token follows) or exactly
                              one NL token is added - handed out with the next token, after the
                              NL of the line and after the Indent/Dedent tokens - the tokens before
                              it are [tl_eqv], the tokens after it are the same tokens one line
                              further down ([tl_sh 1]);   [.._norm]: [norm_of] is unchanged or has
                              exactly one more MNL;   [.._repaired]: the extra MNL directly follows
                              an MNL or an MIndent, so under the filter of the proposed repair
                              ([nl_drop]: an NL after an NL or an Indent is dropped, see
                              repo_patches/c14_nl.diff) the parser is given the SAME token kinds
                              with and without the blank line.
    - [C14_comment_after_token] a comment-only line inserted directly after a token line and
                              indented like it ([last_indent pre = Some (1 + k)]): same verdict and
                              exactly two more tokens, [NL; Comment], at the end of that line;
                              later tokens are the same tokens one line further down;
                              [.._norm]: [norm_of] gains exactly one MNL, and when the next kind is
                              an MNL (a token line follows) [nl_collapse] and [nl_drop] of the
                              two are equal.
    False of the faithful model (witnesses evaluated below):
    - [C14_blank_line_refuted]   a blank line (hence also a comment-only line, whose Comment token
                              is filtered) adds an NL token that can land directly after an Indent:
                              [norm_of] changes and even [nl_norm_of] (NL runs collapsed) changes.
                              This is what makes the parser reject such lines between `match x`
                              and its first arm (finding D5).
    NOT proved ([C14_partial] is this list, there is no theorem of that name):
    - whole-line comments in the other placements (indented like the NEXT statement, or after
      blank lines): the Comment token goes through the indentation machine like any token, so
      the line hands out pending NL tokens early and can add the Indent/Dedent tokens itself;
      that [norm_of] then changes only in NL tokens (at most two more) is checked on the
      implementation's tokens by lib/vlib/c14.py, not proved;
    - the step from "same [norm_of]" to "same verdict and same Python" needs the parser, checker
      and generator to depend on positions only up to an order-preserving renaming; none of them
      is modelled.  That step, and the redundant-parentheses edit, are covered by the end-to-end
      metamorphic runs only. *)
From Coq Require Import List Ascii ZArith String.
From MambaModel Require Import model.LexTok gen.LexTables model.Lex proofs.LexProps model.Trivia
  proofs.TriviaFuel proofs.TriviaScan proofs.TriviaSim proofs.TriviaCrlf proofs.TriviaProps
  proofs.TriviaShift proofs.TriviaBlank proofs.TriviaComment.
Import ListNotations.
Local Open Scope Z_scope.

Theorem C14_tokenize_total : forall s, tokenize s <> OutOfFuel.
Proof. exact tokenize_total. Qed.

Theorem C14_crlf_same : forall s, crlf_ok (run_fuel s) s = true -> tokenize (crlf s) = tokenize s.
Proof. exact crlf_same. Qed.

Theorem C14_trailing_spaces :
  forall pre R n, accepted pre = true -> complete false pre = true -> hd_eol R = true ->
    opt_rel (Forall2 tl_eqv) (run_tls (pre ++ R)) (run_tls (pre ++ spaces n ++ R)).
Proof. exact trailing_spaces. Qed.

Theorem C14_trailing_spaces_norm :
  forall pre R n, accepted pre = true -> complete false pre = true -> hd_eol R = true ->
    norm_of (pre ++ spaces n ++ R) = norm_of (pre ++ R).
Proof. exact trailing_spaces_norm. Qed.

Theorem C14_trailing_comment :
  forall pre R k text,
    ends_on_token_line pre = true -> complete false pre = true ->
    no_eol text = true -> hd_eol R = true ->
    opt_rel (one_more_comment text)
            (run_tls (pre ++ R)) (run_tls (pre ++ spaces (S k) ++ c_hash :: text ++ R)).
Proof. exact trailing_comment. Qed.

Theorem C14_trailing_comment_norm :
  forall pre R k text,
    ends_on_token_line pre = true -> complete false pre = true ->
    no_eol text = true -> hd_eol R = true ->
    norm_of (pre ++ spaces (S k) ++ c_hash :: text ++ R) = norm_of (pre ++ R).
Proof. exact trailing_comment_norm. Qed.

Theorem C14_final_newline :
  forall s, accepted s = true -> complete true s = true ->
    opt_rel (Forall2 tl_eqv) (run_tls s) (run_tls (s ++ [c_nl])).
Proof. exact final_newline. Qed.

Theorem C14_final_newline_norm :
  forall s, accepted s = true -> complete true s = true -> norm_of (s ++ [c_nl]) = norm_of s.
Proof. exact final_newline_norm. Qed.

Theorem C14_blank_line :
  forall pre R n, accepted pre = true -> complete true pre = true -> hd_eol R = true ->
    opt_rel (fun l1 l2 => Forall2 tl_eqv l1 l2 \/ nl_inserted l1 l2)
            (run_tls (pre ++ R)) (run_tls (pre ++ c_nl :: spaces n ++ R)).
Proof. exact blank_line. Qed.

Theorem C14_blank_line_norm :
  forall pre R n, accepted pre = true -> complete true pre = true -> hd_eol R = true ->
    norm_of (pre ++ c_nl :: spaces n ++ R) = norm_of (pre ++ R)
    \/ exists k1 k2, norm_of (pre ++ R) = Some (k1 ++ k2)
                     /\ norm_of (pre ++ c_nl :: spaces n ++ R) = Some (k1 ++ MNL :: k2).
Proof. exact blank_line_norm. Qed.

Theorem C14_comment_after_token :
  forall pre R k text,
    ends_on_token_line pre = true -> last_indent pre = Some (1 + Z.of_nat k) ->
    complete true pre = true -> no_eol text = true -> hd_eol R = true ->
    opt_rel (comment_line_rel text)
            (run_tls (pre ++ R)) (run_tls (pre ++ c_nl :: spaces k ++ c_hash :: text ++ R)).
Proof. exact comment_after_token. Qed.

Theorem C14_comment_after_token_norm :
  forall pre R k text,
    ends_on_token_line pre = true -> last_indent pre = Some (1 + Z.of_nat k) ->
    complete true pre = true -> no_eol text = true -> hd_eol R = true ->
    match norm_of (pre ++ R), norm_of (pre ++ c_nl :: spaces k ++ c_hash :: text ++ R) with
    | Some n1, Some n2 =>
        exists k1 k2, n1 = k1 ++ k2 /\ n2 = k1 ++ MNL :: k2
                      /\ (forall k3, k2 = MNL :: k3 ->
                            nl_collapse n2 = nl_collapse n1 /\ nl_drop None n2 = nl_drop None n1)
    | None, None => True
    | _, _ => False
    end.
Proof. exact comment_after_token_norm. Qed.

Theorem C14_blank_line_repaired :
  forall pre R n, accepted pre = true -> complete true pre = true -> hd_eol R = true ->
    repaired_norm_of (pre ++ c_nl :: spaces n ++ R) = repaired_norm_of (pre ++ R).
Proof. exact blank_line_repaired. Qed.

(** ** Non-vacuity: the hypotheses hold at every line end of a nested program *)
Definition pre1 : str :=
  s "def f(x: Int) -> Int =>
    if x >= 10 then
        return ""a{x + 1}b""".
Definition rest1 : str :=
  s "
    x + 2

print(f(1.5), 2E3, 1..3)
".
Example pre1_accepted : accepted pre1 = true.
Proof. vm_compute. reflexivity. Qed.
Example pre1_complete : complete false pre1 = true.
Proof. vm_compute. reflexivity. Qed.
Example pre1_token_line : ends_on_token_line pre1 = true.
Proof. vm_compute. reflexivity. Qed.
Example rest1_eol : hd_eol rest1 = true.
Proof. reflexivity. Qed.
Example whole1_crlf_ok : crlf_ok (run_fuel (pre1 ++ rest1)) (pre1 ++ rest1) = true.
Proof. vm_compute. reflexivity. Qed.
Example whole1_complete : accepted (pre1 ++ rest1) = true /\ complete true (pre1 ++ rest1) = true.
Proof. split; vm_compute; reflexivity. Qed.
(** the conclusions, computed on this instance (40 tokens) *)
Example whole1_comment :
  norm_of (pre1 ++ spaces 2 ++ c_hash :: s " note" ++ rest1) = norm_of (pre1 ++ rest1)
  /\ exists ks, norm_of (pre1 ++ rest1) = Some ks /\ (List.length ks > 40)%nat.
Proof. split; [vm_compute; reflexivity|]. eexists. split; [vm_compute; reflexivity | vm_compute; repeat constructor]. Qed.
Example whole1_crlf : tokenize (crlf (pre1 ++ rest1)) = tokenize (pre1 ++ rest1).
Proof. vm_compute. reflexivity. Qed.

(** ** Refutation: a blank line is visible to the parser, even with NL runs collapsed *)
Definition blank_witness1 : str := s "match x
    1 => a
".
Definition blank_witness2 : str := s "match x

    1 => a
".
Theorem C14_blank_line_refuted :
  norm_of blank_witness2 <> norm_of blank_witness1
  /\ nl_norm_of blank_witness2 <> nl_norm_of blank_witness1
  /\ nl_norm_of blank_witness2
     = Some [MMatch; MId (s "x"); MNL; MIndent; MNL; MInt (s "1"); MBTo; MId (s "a"); MDedent; MEof].
Proof. split; [|split]; vm_compute; [discriminate | discriminate | reflexivity]. Qed.

(** with the filter of the proposed repair (an NL after an NL or an Indent is dropped) the
    two witnesses are the same for the parser *)
Example blank_line_repaired :
  repaired_norm_of blank_witness2 = repaired_norm_of blank_witness1
  /\ repaired_norm_of (s "if c then
    x
    # c

else
    y
") = repaired_norm_of (s "if c then
    x
else
    y
").
Proof. split; vm_compute; reflexivity. Qed.

(** between statements of one block the extra NL is absorbed by collapsing NL runs *)
Example blank_between_statements :
  nl_norm_of (s "a
b
") = nl_norm_of (s "a

  # c
b
").
Proof. vm_compute. reflexivity. Qed.

Example pre1_complete_eol : complete true pre1 = true.
Proof. vm_compute. reflexivity. Qed.
(** on this instance the blank line does add its NL (the second disjunct) *)
Example whole1_blank :
  exists k1 k2, norm_of (pre1 ++ rest1) = Some (k1 ++ k2)
                /\ norm_of (pre1 ++ c_nl :: spaces 4 ++ rest1) = Some (k1 ++ MNL :: k2).
Proof.
  destruct (C14_blank_line_norm pre1 rest1 4 pre1_accepted pre1_complete_eol rest1_eol) as [H | H]; [|exact H].
  exfalso. vm_compute in H. discriminate H.
Qed.

Example pre1_last_indent : last_indent pre1 = Some (1 + Z.of_nat 8).
Proof. vm_compute. reflexivity. Qed.
Example whole1_comment_line :
  nl_norm_of (pre1 ++ c_nl :: spaces 8 ++ c_hash :: s " note" ++ rest1) = nl_norm_of (pre1 ++ rest1).
Proof. vm_compute. reflexivity. Qed.

(* statement pins *)
Check C14_tokenize_total : forall s, tokenize s <> OutOfFuel.
Check C14_crlf_same : forall s, crlf_ok (run_fuel s) s = true -> tokenize (crlf s) = tokenize s.
Check C14_trailing_spaces :
  forall pre R n, accepted pre = true -> complete false pre = true -> hd_eol R = true ->
    opt_rel (Forall2 tl_eqv) (run_tls (pre ++ R)) (run_tls (pre ++ spaces n ++ R)).
Check C14_trailing_spaces_norm :
  forall pre R n, accepted pre = true -> complete false pre = true -> hd_eol R = true ->
    norm_of (pre ++ spaces n ++ R) = norm_of (pre ++ R).
Check C14_trailing_comment :
  forall pre R k text, ends_on_token_line pre = true -> complete false pre = true ->
    no_eol text = true -> hd_eol R = true ->
    opt_rel (one_more_comment text)
            (run_tls (pre ++ R)) (run_tls (pre ++ spaces (S k) ++ c_hash :: text ++ R)).
Check C14_trailing_comment_norm :
  forall pre R k text, ends_on_token_line pre = true -> complete false pre = true ->
    no_eol text = true -> hd_eol R = true ->
    norm_of (pre ++ spaces (S k) ++ c_hash :: text ++ R) = norm_of (pre ++ R).
Check C14_final_newline :
  forall s, accepted s = true -> complete true s = true ->
    opt_rel (Forall2 tl_eqv) (run_tls s) (run_tls (s ++ [c_nl])).
Check C14_final_newline_norm :
  forall s, accepted s = true -> complete true s = true -> norm_of (s ++ [c_nl]) = norm_of s.
Check C14_blank_line :
  forall pre R n, accepted pre = true -> complete true pre = true -> hd_eol R = true ->
    opt_rel (fun l1 l2 => Forall2 tl_eqv l1 l2 \/ nl_inserted l1 l2)
            (run_tls (pre ++ R)) (run_tls (pre ++ c_nl :: spaces n ++ R)).
Check C14_blank_line_norm :
  forall pre R n, accepted pre = true -> complete true pre = true -> hd_eol R = true ->
    norm_of (pre ++ c_nl :: spaces n ++ R) = norm_of (pre ++ R)
    \/ exists k1 k2, norm_of (pre ++ R) = Some (k1 ++ k2)
                     /\ norm_of (pre ++ c_nl :: spaces n ++ R) = Some (k1 ++ MNL :: k2).
Check C14_comment_after_token :
  forall pre R k text,
    ends_on_token_line pre = true -> last_indent pre = Some (1 + Z.of_nat k) ->
    complete true pre = true -> no_eol text = true -> hd_eol R = true ->
    opt_rel (comment_line_rel text)
            (run_tls (pre ++ R)) (run_tls (pre ++ c_nl :: spaces k ++ c_hash :: text ++ R)).
Check C14_comment_after_token_norm :
  forall pre R k text,
    ends_on_token_line pre = true -> last_indent pre = Some (1 + Z.of_nat k) ->
    complete true pre = true -> no_eol text = true -> hd_eol R = true ->
    match norm_of (pre ++ R), norm_of (pre ++ c_nl :: spaces k ++ c_hash :: text ++ R) with
    | Some n1, Some n2 =>
        exists k1 k2, n1 = k1 ++ k2 /\ n2 = k1 ++ MNL :: k2
                      /\ (forall k3, k2 = MNL :: k3 ->
                            nl_collapse n2 = nl_collapse n1 /\ nl_drop None n2 = nl_drop None n1)
    | None, None => True
    | _, _ => False
    end.
Check C14_blank_line_repaired :
  forall pre R n, accepted pre = true -> complete true pre = true -> hd_eol R = true ->
    repaired_norm_of (pre ++ c_nl :: spaces n ++ R) = repaired_norm_of (pre ++ R).
Print Assumptions C14_tokenize_total.
Print Assumptions C14_crlf_same.
Print Assumptions C14_trailing_spaces.
Print Assumptions C14_trailing_spaces_norm.
Print Assumptions C14_trailing_comment.
Print Assumptions C14_trailing_comment_norm.
Print Assumptions C14_final_newline.
Print Assumptions C14_final_newline_norm.
Print Assumptions C14_blank_line.
Print Assumptions C14_blank_line_norm.
Print Assumptions C14_blank_line_repaired.
Print Assumptions C14_comment_after_token.
Print Assumptions C14_comment_after_token_norm.
Print Assumptions C14_blank_line_refuted.
