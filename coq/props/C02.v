(** * C02 - every emitted file is syntactically valid Python 3 (layout level)

    Over the statement-level model of the printer (model/PyStmt.v, tied to [to_py] by
    tokenising the implementation's own output with python3 on every case):

    - [C02_layout]: for EVERY Core statement tree [c] whose suites are not empty and whose
      decorated functions sit at class level ([wfl]), the logical lines printed for [c] obey
      Python's indentation rules: a deeper line only after a header ending in a colon, every
      header followed by a deeper line, every dedent returning to an open level - from any
      state that is ready for a statement at that level, leaving one that is ready for the
      next statement.  [C02_module_layout] is the instance for a whole module.
    - [C02_lines_nonempty] / [C02_simple_line_no_colon]: only headers end in a colon.
    The expressions inside the lines are covered by C10 ([C10_roundtrip]): the statement
    printer prints them through the same regenerated table.

    This is [C02_partial] with respect to the property: the grammar of the individual
    statement forms (e.g. a [try] needs at least one [except]), the lexical classes of literals
    and names, and the well-formedness of the trees that [convert] produces ([wfl] of the
    converted program) are NOT proved; they are decided by the direct oracle (python3
    [compile]) on every output.  Refuted part: a decorated function at nesting depth 2
    ([C02_decorator_refuted]). *)
From Coq Require Import List String Arith.
From MambaModel Require Import model.PyExpr model.CoreExpr gen.PrinterTable model.Core model.PyStmt
  proofs.PyStmtProps.
Import ListNotations.

Theorem C02_layout :
  forall c ind ls, plines c ind = Some ls -> wfl c ind = true -> ls = [] \/ Good ls (4 * ind).
Proof. exact plines_layout. Qed.

Theorem C02_module_layout :
  forall c ls, plines c 0 = Some ls -> wfl c 0 = true -> module_layout_ok ls = true.
Proof. exact module_layout. Qed.

Theorem C02_lines_nonempty :
  forall c ts, etoks c = Some ts -> ends_colon ts = false.
Proof. intros c ts H. apply slast_ends, (etoks_last c ts H). Qed.

(** Non-vacuity: a function with an if/else, a loop and a try/except is well formed and its
    lines are accepted. *)
Local Open Scope string_scope.
Definition sample : core :=
  Block [ FunDef [] "f" [FunArg false (Id "x") (Some (Type_ "int" [])) None] (Some (Type_ "int" []))
            (Block [ IfElse (Bin CbLe (Id "x") (Int "1")) (Block [Un CuReturn (Int "1")])
                            (Block [ For (Id "i") (FunctionCall (Id "range") [Int "0"; Id "x"; Int "1"])
                                         (Block [Assign (Id "x") (Id "i") OpAddAssign]);
                                     Un CuReturn (Id "x") ]) ]);
          TryExcept None (Block [FunctionCall (Id "print") [FunctionCall (Id "f") [Int "3"]]])
                    [Except (Type_ "Exception" []) (Block [Pass])] ].
Example sample_ok :
  exists ls, plines sample 0 = Some ls /\ wfl sample 0 = true /\ module_layout_ok ls = true /\ List.length ls = 11.
Proof. eexists. split; [vm_compute; reflexivity|]. split; [vm_compute; reflexivity|]. split; vm_compute; reflexivity. Qed.

(** Refutations of the statement without [wfl]. *)
(** an empty body (comment-only suite in the source) is printed as [pass] (repaired defect D6) *)
Example C02_empty_suite_pass :
  exists ls, plines (Block [If (Bool true) (Block []); Pass]) 0 = Some ls /\ module_layout_ok ls = true
             /\ wfl (Block [If (Bool true) (Block []); Pass]) 0 = true.
Proof. eexists. split; [vm_compute; reflexivity|]. split; vm_compute; reflexivity. Qed.

Theorem C02_decorator_refuted :
  exists c ls, plines c 0 = Some ls /\ module_layout_ok ls = false.
Proof.
  exists (ClassDef (Id "A") [] (Block [ClassDef (Id "B") [] (Block [FunDef ["abstractmethod"] "f" [Id "self"] None Pass])])).
  eexists. split; vm_compute; reflexivity.
Qed.

Check C02_layout :
  forall c ind ls, plines c ind = Some ls -> wfl c ind = true -> ls = [] \/ Good ls (4 * ind).
Check C02_module_layout :
  forall c ls, plines c 0 = Some ls -> wfl c 0 = true -> module_layout_ok ls = true.
Print Assumptions C02_layout.
Print Assumptions C02_module_layout.
Print Assumptions C02_lines_nonempty.
