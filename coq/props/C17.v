(** * C17 - Interoperability: the Python API of the emitted module mirrors the Mamba definitions

    Over the model [Convert.conv] of the desugaring, for EVERY typed AST and both settings of the
    annotate flag:
    - [C17_api]: if the file converts and is well formed ([wf_api], decidable: function ids are
      identifiers, parameters and class arguments are named by identifiers, no class member shares its
      name with a method, no field is called [__init__], class arguments and an explicit constructor
      do not occur together, an explicit constructor starts with [self]), then the list of
      signatures read off the emitted [Core] ([api_py]: functions, classes with parents, constructor and
      methods, each with parameter names in order, variadic markers and presence of defaults) is the list
      read off the Mamba definitions ([api_src]) with names mapped by [py_sig] (the Mamba -> Python name
      table; operators under their dunder name; [size] -> [__size__]).
    - [C17_api_same_names]: when no name is renamed by [py_sig] the two lists are equal verbatim.
    - pieces: [C17_fun_sig_preserved], [C17_fun_arg_preserved], [C17_class_parents_preserved],
      [C17_init_signature] + [C17_init_exists] + [C17_class_body] (constructor), [C17_methods_preserved].
    - refuted for the faithful model: [C17_same_names_refuted] ([size], D14), [C17_duplicate_member_refuted],
      [C17_method_shadowed_by_field_refuted], [C17_class_args_lost_refuted] (unreachable: the checker
      rejects such classes), [C17_plain_statement_dropped] (statements keyed ["@"]).
    The tie to the Rust code is the `gen` correspondence (typed AST in, Core out) on class-heavy programs and
    the direct oracle (python3 [ast] of the emitted text against the generator's own definition list). *)
From Coq Require Import List String Bool.
From MambaModel Require Import model.Core gen.Names model.Convert model.Api
  proofs.ApiBase proofs.ApiClass proofs.ApiProps proofs.ApiWitness.
Import ListNotations.
Local Open Scope string_scope.

Theorem C17_api :
  forall ann a c j,
    conv a (state0 ann) imports0 = Some (c, j) -> wf_api a = true -> api_py c = map py_sig (api_src a).
Proof. exact api_preserved. Qed.

Theorem C17_api_same_names :
  forall ann a c j,
    conv a (state0 ann) imports0 = Some (c, j) -> wf_api a = true ->
    forallb plain_sig (api_src a) = true -> api_py c = api_src a.
Proof. exact api_same. Qed.

Theorem C17_fun_sig_preserved :
  forall a st i c j,
    wf_fun a = true -> clean st -> conv a st i = Some (c, j) ->
    exists f, fsig_src a = Some f /\ fsig_py c = Some (py_fsig f) /\ isfun c = true
              /\ forallb funarg_id (fun_args c) = true.
Proof. exact fun_sig_preserved. Qed.

Theorem C17_fun_arg_preserved :
  forall a st i c j,
    wf_param a = true -> clean st -> conv a st i = Some (c, j) ->
    param_py c = py_param (param_src a) /\ funarg_id c = true.
Proof. exact fun_arg_preserved. Qed.

Theorem C17_class_parents_preserved :
  forall parents st ps pn,
    forallb is_parent parents = true -> clean st ->
    Forall2 (fun x y => exists i j, conv x st i = Some (y, j)) parents ps ->
    map parent_name ps = map Some pn ->
    map core_name pn = map concrete_to_python (map parent_src parents).
Proof. exact parents_preserved. Qed.

(** the synthesised constructor: parameters of the explicit [__init__] if there is one (class arguments are
    then lost), else the class arguments; [self] in front unless already there *)
Theorem C17_init_signature :
  forall o ca ps ni,
    class_init o ca ps = Some ni ->
    fsig_py ni = Some (n_init, map param_py (let args := init_args o ca in
                                              if first_is_self_core args then args else Id n_self_ :: args)).
Proof. exact class_init_sig. Qed.

(** exactly when class arguments are the parameters: without an explicit [__init__] in the body they are,
    with one they are not (whatever they are) *)
Theorem C17_class_args_kept :
  forall ca ps ni,
    class_init None ca ps = Some ni -> forallb funarg_id ca = true ->
    fsig_py ni = Some (n_init, with_self (map param_py ca)).
Proof. exact class_args_kept. Qed.

Theorem C17_class_args_lost :
  forall d id arg t b ca ps ni,
    class_init (Some (FunDef d id arg t b)) ca ps = Some ni -> forallb funarg_id arg = true ->
    fsig_py ni = Some (n_init, with_self (map param_py arg)).
Proof. exact class_args_lost. Qed.

Theorem C17_init_field_clobbers :
  forall v t e ca ps ni,
    class_init (Some (VarDef v t e)) ca ps = Some ni -> fsig_py ni = Some (n_init, [self_param]).
Proof. exact init_field_clobbers. Qed.

Theorem C17_init_exists :
  forall ca ps, forallb funarg_id ca = true -> (class_init None ca ps = None <-> ca = [] /\ ps = []).
Proof. exact class_init_none_iff. Qed.

(** constructor and methods of a converted class body, in terms of the source *)
Theorem C17_class_body :
  forall st body b i0 j0 cargs ca ps pn bs,
    clean st -> wf_body cargs body = true ->
    mopt (fun x => conv x st) body i0 = Some (b, j0) ->
    map param_py ca = map py_param cargs -> forallb funarg_id ca = true ->
    assemble_class (match b with Some x => block_stmts x | None => [] end) ca ps = Some (pn, bs) ->
    find is_init (funs_py bs) = option_map py_fsig (ctor_src cargs (List.length ps) (funs_src (members_of body))) /\
    filter (fun f => negb (is_init f)) (funs_py bs)
    = map py_fsig (filter (fun f => negb (is_init f)) (funs_src (members_of body))).
Proof. exact body_api. Qed.

(** every function of a class body other than [__init__] appears exactly once, in source order, provided
    no statement of the body shares its key with a function *)
Theorem C17_methods_preserved :
  forall cs ca ps pn body,
    assemble_class cs ca ps = Some (pn, body) -> kok cs -> filter is_meth body = filter is_meth cs.
Proof. exact assemble_methods. Qed.

Theorem C17_same_names_refuted :
  exists ann a c j, conv a (state0 ann) imports0 = Some (c, j) /\ wf_api a = true /\ api_py c <> api_src a.
Proof. exact same_names_refuted. Qed.

Theorem C17_duplicate_member_refuted :
  exists ann a c j, conv a (state0 ann) imports0 = Some (c, j) /\ api_py c <> map py_sig (api_src a).
Proof. exact duplicate_member_refuted. Qed.

Theorem C17_method_shadowed_by_field_refuted :
  exists ann a c j, conv a (state0 ann) imports0 = Some (c, j) /\
    api_py c = [SClass "C" [] None []] /\ api_src a = [SClass "C" [] None [("f", [("self", false, false)])]].
Proof. exact method_shadowed_by_field_refuted. Qed.

Theorem C17_class_args_lost_refuted :
  exists ann a c j, conv a (state0 ann) imports0 = Some (c, j) /\
    api_py c = [SClass "C" [] (Some ("__init__", [("self", false, false); ("b", false, false)])) []] /\
    map py_sig (api_src a) = [SClass "C" [] (Some ("__init__", [("self", false, false); ("a", false, false)])) []].
Proof. exact class_args_lost_refuted. Qed.

Theorem C17_plain_statement_dropped :
  assemble_class [DocStr "one"; DocStr "two"] [] [] = Some ([], [DocStr "two"]).
Proof. exact plain_statement_dropped_core. Qed.

(** Non-vacuity: [ApiWitness.sample] (function with default and variadic parameter, interface, class
    arguments, parents with arguments, two parents, explicit constructor, operator, [size]) is well formed,
    converts under both settings and has the API listed in [sample_api]. *)
Example C17_sample_wf : wf_api sample = true.
Proof. exact sample_wf. Qed.
Example C17_sample_plain :
  wf_api sample_plain = true /\ forallb plain_sig (api_src sample_plain) = true /\
  exists c j, conv sample_plain (state0 true) imports0 = Some (c, j).
Proof. exact sample_plain_ok. Qed.

(* statement pins *)
Check C17_api :
  forall ann a c j,
    conv a (state0 ann) imports0 = Some (c, j) -> wf_api a = true -> api_py c = map py_sig (api_src a).
Check C17_api_same_names :
  forall ann a c j,
    conv a (state0 ann) imports0 = Some (c, j) -> wf_api a = true ->
    forallb plain_sig (api_src a) = true -> api_py c = api_src a.
Check C17_methods_preserved :
  forall cs ca ps pn body,
    assemble_class cs ca ps = Some (pn, body) -> kok cs -> filter is_meth body = filter is_meth cs.
Check C17_same_names_refuted :
  exists ann a c j, conv a (state0 ann) imports0 = Some (c, j) /\ wf_api a = true /\ api_py c <> api_src a.
Print Assumptions C17_api.
Print Assumptions C17_api_same_names.
Print Assumptions C17_fun_sig_preserved.
Print Assumptions C17_fun_arg_preserved.
Print Assumptions C17_class_parents_preserved.
Print Assumptions C17_init_signature.
Print Assumptions C17_class_args_kept.
Print Assumptions C17_class_args_lost.
Print Assumptions C17_init_field_clobbers.
Print Assumptions C17_init_exists.
Print Assumptions C17_class_body.
Print Assumptions C17_methods_preserved.
Print Assumptions C17_same_names_refuted.
Print Assumptions C17_duplicate_member_refuted.
Print Assumptions C17_method_shadowed_by_field_refuted.
Print Assumptions C17_class_args_lost_refuted.
Print Assumptions C17_plain_statement_dropped.
