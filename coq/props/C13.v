(** * C13 - projects: all-or-nothing, mirrored layout, order-independent, non-interfering

    Model: [model/Project.v] ([transpile_dir], [mamba_to_python], io.rs, the context merge) over an
    abstract file system; the per-file stages and the built-in tables are the fields of a [world].
    Every theorem is for ALL worlds, ALL file systems (association lists path -> node), ALL file lists
    and ALL enumeration orders of the context's hash sets, unless a hypothesis says otherwise.

    Hypotheses that are about the stage parameters (validated by the correspondence runs, not proved
    of the Rust code): [key_compat] (equal set keys have equal look-up names), [stages_extensional] /
    [stages_local] (the checker and generator read the context only through the four by-name
    look-ups), [ord_ok] (a hash set enumerates exactly its elements).
    The model follows /repo as of 2d1bc77 (glob skips non-files: c8709a7; context errors name files: 2d1bc77). *)
From Coq Require Import List String Bool Permutation.
Import ListNotations.
Local Open Scope string_scope.
Local Open Scope list_scope.
Local Open Scope bool_scope.
From MambaModel Require Import model.Project proofs.ProjectFs proofs.ProjectProps proofs.ProjectToy.

(** ** all or nothing *)

(** Any error result whose diagnostics are not a failed write leaves the tree as it was, except that
    the (empty) target directory may have been created. *)
Theorem C13_all_or_nothing :
  forall (W : world) ord fs dir src target ann fs' es,
    tdir W ord fs dir src target ann = (fs', Err es) ->
    existsb is_write_err es = false ->
    only_target_created fs fs' (out_of dir target).
Proof. exact all_or_nothing. Qed.

(** If the pipeline rejects the project (some file fails a stage), the run is an error carrying exactly
    the pipeline's diagnostics and no file appears, disappears or changes. *)
Theorem C13_stage_failure_writes_nothing :
  forall (W : world) ord fs dir src target ann fs1 sources es,
    negb (is_file fs (src_of dir src)) && negb (is_dir fs (src_of dir src)) = false ->
    prepare fs (out_of dir target) = Some fs1 ->
    @read_all (w_msg W) fs1 (inputs_of fs1 (src_of dir src)) = Ok sources ->
    m2p W ord ann (combine sources (map Some (inputs_of fs1 (src_of dir src)))) (src_of dir src) = Err es ->
    tdir W ord fs dir src target ann = (fs1, Err es) /\ only_target_created fs fs1 (out_of dir target) /\
    (forall q t, fs_get fs1 q = Some (File t) <-> fs_get fs q = Some (File t)).
Proof. exact stage_failure_writes_nothing. Qed.

(** The pipeline succeeds exactly when the shared context builds and every file passes every stage
    against it; so "some file has a lexical, syntax or type error" is exactly [m2p = Err _]. *)
Theorem C13_pipeline_ok_iff :
  forall (W : world) ord ann source dir pys,
    m2p W ord ann source dir = Ok pys <->
    exists ctx, w_build_ctx W (asts_of W source) = Ok ctx /\
                Forall2 (fun (sp : input) py => file_out W ann (w_lookups W ord ctx) (fst sp) = Some py) source pys.
Proof. exact m2p_ok_iff. Qed.

(** Diagnostics name their files: every diagnostic of every stage carries the stripped path of an input
    that fails that stage with that message; for the context stage (since 2d1bc77) the file is one
    whose own context - its declarations alone - cannot be built.  The fallback branch of the Rust code
    (no file fails alone: errors without path) is in the model and is reached only with an empty error
    list, because in the model the shared context fails exactly when some file's own context fails.
    STILL PARTIAL with respect to the code: a failure to load the built-in stubs is not modelled; that
    is the one way the real fallback can produce path-less diagnostics. *)
Theorem C13_errors_name_files :
  forall (W : world) ord ann source dir es,
    m2p W ord ann source dir = Err es -> Forall (blames W ord ann source dir) es.
Proof. exact m2p_errors_blame. Qed.

(** what [blames] says for a context-stage diagnostic, spelled out *)
Theorem C13_ctx_errors_name_files :
  forall (W : world) ord ann source dir es p m,
    m2p W ord ann source dir = Err es -> In (EStage SCtx p m) es ->
    exists s p0 a ms, In (s, p0) source /\ p = option_map (strip_prefix dir) p0 /\ w_parse W s = Ok a /\
                      w_build_ctx W [a] = Err ms /\ In m ms.
Proof.
  intros W ord ann source dir es p m H I. apply m2p_errors_blame in H.
  exact (proj1 (Forall_forall _ _) H _ I).
Qed.

Theorem C13_pathless_error_pathless_input :
  forall (W : world) ord ann source dir es st m,
    m2p W ord ann source dir = Err es -> In (EStage st None m) es -> exists s, In (s, None) source.
Proof. exact pathless_error_pathless_input. Qed.

Theorem C13_ctx_failure_reported :
  forall (W : world) ord ann source dir s p0 a ms,
    parse_errs W (stripped dir source) = [] ->
    In (s, p0) source -> w_parse W s = Ok a -> w_build_ctx W [a] = Err ms ->
    exists es, m2p W ord ann source dir = Err es /\
               (forall m, In m ms -> In (EStage SCtx (option_map (strip_prefix dir) p0) m) es) /\
               Forall (fun e => exists p m', e = EStage SCtx p m') es.
Proof. exact ctx_failure_reported. Qed.

Theorem C13_parse_failure_reported :
  forall (W : world) ord ann source dir s p0 m,
    In (s, p0) source -> w_parse W s = Err m ->
    exists es, m2p W ord ann source dir = Err es /\
               In (EStage SParse (option_map (strip_prefix dir) p0) m) es /\
               Forall (fun e => exists p m', e = EStage SParse p m') es.
Proof. exact parse_failure_reported. Qed.

Theorem C13_check_failure_reported :
  forall (W : world) ord ann source dir ctx s p0 a ms,
    parse_errs W (stripped dir source) = [] -> w_build_ctx W (asts_of W source) = Ok ctx ->
    In (s, p0) source -> w_parse W s = Ok a -> w_check W (w_lookups W ord ctx) a = Err ms ->
    exists es, m2p W ord ann source dir = Err es /\
               (forall m, In m ms -> In (EStage SCheck (option_map (strip_prefix dir) p0) m) es) /\
               Forall (fun e => exists p m', e = EStage SCheck p m') es.
Proof. exact check_failure_reported. Qed.

(** ** mirrored layout *)

(** On success: the run went through every step; the i-th output path (target / relative path with
    extension py) holds the CRLF-normalised Python of the i-th source (when output paths are pairwise
    distinct); every output path is a file; any other path is unchanged or is a newly created
    directory that is a proper ancestor of an output path; directories stay directories. *)
Theorem C13_mirrored :
  forall (W : world) ord fs dir src target ann fs' o,
    tdir W ord fs dir src target ann = (fs', Ok o) ->
    exists fs1 sources pys,
      let sp := src_of dir src in
      let ins := inputs_of fs1 sp in
      let outs := out_paths fs1 sp o in
      o = out_of dir target /\ negb (is_file fs sp) && negb (is_dir fs sp) = false /\
      prepare fs o = Some fs1 /\ only_target_created fs fs1 o /\
      @read_all (w_msg W) fs1 ins = Ok sources /\
      m2p W ord ann (combine sources (map Some ins)) sp = Ok pys /\
      List.length pys = List.length outs /\ List.length sources = List.length outs /\
      (NoDup outs -> forall py out, In (py, out) (combine pys outs) -> fs_get fs' out = Some (File (crlf py))) /\
      (forall out, In out outs -> exists t, fs_get fs' out = Some (File t)) /\
      (forall q, ~ In q outs ->
         fs_get fs' q = fs_get fs1 q \/
         (changed_to_dir fs1 fs' q /\ exists out, In out outs /\ strict_prefix q out)) /\
      keeps_dirs fs1 fs' /\
      (forall py out, In (py, out) (combine pys outs) -> dirs_exist fs' [] (parent out)) /\
      write_all fs1 (combine pys (map (fun r => o ++ r) (relative_files fs1 sp))) = (fs', @None (err (w_msg W))).
Proof. exact mirrored. Qed.

(** Output paths are pairwise distinct when the tree has one node per path and no node is named
    exactly ".mamba". *)
Theorem C13_out_paths_nodup :
  forall fs1 sp od,
    NoDup (map fst fs1) ->
    (forall p, In p (map fst fs1) -> file_name p <> ".mamba") ->
    NoDup (out_paths fs1 sp od).
Proof. exact out_paths_nodup. Qed.

(** ** running again into the populated target changes nothing *)
Theorem C13_rerun_idempotent :
  forall (W : world) ord fs dir src target ann fs' o,
    ~ is_prefix (src_of dir src) (out_of dir target) ->
    ~ is_prefix (out_of dir target) (src_of dir src) ->
    (forall fs1, prepare fs (out_of dir target) = Some fs1 ->
                 NoDup (out_paths fs1 (src_of dir src) (out_of dir target))) ->
    tdir W ord fs dir src target ann = (fs', Ok o) ->
    tdir W ord fs' dir src target ann = (fs', Ok o).
Proof. exact rerun_idempotent. Qed.

(** the same with the side condition on output paths discharged from the shape of the tree: one node
    per path, nothing named exactly ".mamba" *)
Theorem C13_rerun_idempotent_wf :
  forall (W : world) ord fs dir src target ann fs' o,
    ~ is_prefix (src_of dir src) (out_of dir target) ->
    ~ is_prefix (out_of dir target) (src_of dir src) ->
    NoDup (map fst fs) ->
    (forall p, In p (map fst fs) -> file_name p <> ".mamba") ->
    file_name (out_of dir target) <> ".mamba" ->
    tdir W ord fs dir src target ann = (fs', Ok o) ->
    tdir W ord fs' dir src target ann = (fs', Ok o).
Proof. exact rerun_idempotent_wf. Qed.

(** ** order independence *)
Theorem C13_order_independent :
  forall (W : world) ord ord' ann source source' dir dir' pys,
    key_compat W -> ord_ok ord -> ord_ok ord' -> stages_extensional W ->
    Permutation source source' -> uniq_names W (asts_of W source) ->
    m2p W ord ann source dir = Ok pys ->
    exists (f : input -> string) pys',
      m2p W ord' ann source' dir' = Ok pys' /\ pys = map f source /\ pys' = map f source'.
Proof. exact order_independent. Qed.

Theorem C13_order_independent_verdict :
  forall (W : world) ord ord' ann source source' dir dir',
    key_compat W -> ord_ok ord -> ord_ok ord' -> stages_extensional W ->
    Permutation source source' -> uniq_names W (asts_of W source) ->
    ((exists pys, m2p W ord ann source dir = Ok pys) <-> (exists pys', m2p W ord' ann source' dir' = Ok pys')).
Proof. exact order_independent_verdict. Qed.

(** ** an unrelated file does not interfere *)
Theorem C13_fresh_file_inert :
  forall (W : world) ord ord' ann refs l1 l2 new_s new_p new_a new_d ctx ctx',
    key_compat W -> ord_ok ord -> ord_ok ord' -> stages_local W refs ->
    w_parse W new_s = Ok new_a -> w_decls_of W new_a = Ok new_d ->
    uniq_names W (asts_of W (l1 ++ (new_s, new_p) :: l2)) ->
    w_build_ctx W (asts_of W (l1 ++ l2)) = Ok ctx ->
    w_build_ctx W (asts_of W (l1 ++ (new_s, new_p) :: l2)) = Ok ctx' ->
    (forall s p a, In (s, p) (l1 ++ l2) -> w_parse W s = Ok a ->
                   forall k, In k (refs a) -> ~ In k (declared_names W new_d)) ->
    forall s p, In (s, p) (l1 ++ l2) ->
      file_out W ann (w_lookups W ord' ctx') s = file_out W ann (w_lookups W ord ctx) s.
Proof. exact fresh_file_inert. Qed.

Theorem C13_fresh_file_project :
  forall (W : world) ord ord' ann refs l1 l2 new_s new_p new_a new_d dir dir' pys py_new,
    key_compat W -> ord_ok ord -> ord_ok ord' -> stages_local W refs ->
    w_parse W new_s = Ok new_a -> w_decls_of W new_a = Ok new_d ->
    uniq_names W (asts_of W (l1 ++ (new_s, new_p) :: l2)) ->
    (forall s p a, In (s, p) (l1 ++ l2) -> w_parse W s = Ok a ->
                   forall k, In k (refs a) -> ~ In k (declared_names W new_d)) ->
    (forall ctx', w_build_ctx W (asts_of W (l1 ++ (new_s, new_p) :: l2)) = Ok ctx' ->
                  file_out W ann (w_lookups W ord' ctx') new_s = Some py_new) ->
    m2p W ord ann (l1 ++ l2) dir = Ok pys ->
    exists p1 p2, pys = p1 ++ p2 /\ List.length p1 = List.length l1 /\
                  m2p W ord' ann (l1 ++ (new_s, new_p) :: l2) dir' = Ok (p1 ++ py_new :: p2).
Proof. exact fresh_file_project. Qed.

(** ** definitions of one file are visible to the checker in every other *)
Theorem C13_cross_file_visible :
  forall (W : world) ord source ctx s p a d,
    key_compat W -> ord_ok ord -> w_build_ctx W (asts_of W source) = Ok ctx ->
    In (s, p) source -> w_parse W s = Ok a -> w_decls_of W a = Ok d ->
    (forall c, In c (d_classes d) ->
       exists c', lk_class (w_lookups W ord ctx) (w_c_base W c) = Some c' /\ w_c_base W c' = w_c_base W c /\
                  (uniq_names W (asts_of W source) -> c' = c)) /\
    (forall f, In f (d_funs d) ->
       exists f', lk_fun (w_lookups W ord ctx) (w_f_name W f) = Some f' /\ w_f_name W f' = w_f_name W f /\
                  (uniq_names W (asts_of W source) -> f' = f)) /\
    (forall x, In x (d_fields d) ->
       exists x', lk_field (w_lookups W ord ctx) (w_d_name W x) = Some x' /\ w_d_name W x' = w_d_name W x /\
                  (uniq_names W (asts_of W source) -> x' = x)).
Proof. exact cross_file_visible. Qed.

(** ** what is FALSE of the faithful model (each with a witness) *)

(** without unique names, file order decides which duplicate class wins *)
Theorem C13_order_independent_without_unique_names_refuted :
  exists (source source' : list input) pys pys' i py py',
    key_compat toy /\ stages_extensional toy /\ ord_ok ord_id /\ Permutation source source' /\
    m2p toy ord_id false source ["src"] = Ok pys /\ m2p toy ord_id false source' ["src"] = Ok pys' /\
    In (i, py) (combine source pys) /\ In (i, py') (combine source' pys') /\ py <> py'.
Proof. exact order_independent_without_unique_names_refuted. Qed.

(** same-named functions with different signatures: the hash enumeration decides *)
Theorem C13_enumeration_dependent_refuted :
  exists (source : list input) pys pys',
    key_compat toy /\ stages_extensional toy /\ ord_ok ord_id /\ ord_ok ord_rev /\
    m2p toy ord_id false source [] = Ok pys /\ m2p toy ord_rev false source [] = Ok pys' /\ pys <> pys'.
Proof. exact enumeration_dependent_refuted. Qed.

(** "error implies nothing written" fails when a write fails in the middle of the loop *)
Theorem C13_error_implies_nothing_written_refuted :
  exists fs fs' es p t,
    tdir toy ord_id fs [] None None false = (fs', Err es) /\
    fs_get fs p = None /\ fs_get fs' p = Some (File t).
Proof. exact error_implies_nothing_written_refuted. Qed.

(** "exactly one .py per .mamba" fails for the pair .mamba / .mamba.mamba *)
Theorem C13_one_output_per_source_refuted :
  exists fs fs' o,
    NoDup (map fst fs) /\
    tdir toy ord_id fs [] None None false = (fs', Ok o) /\
    List.length (relative_files fs ["src"]) = 2 /\
    out_paths fs' ["src"] o = [["target"; ".mamba.py"]; ["target"; ".mamba.py"]].
Proof. exact one_output_per_source_refuted. Qed.

(** ** the hypotheses are satisfiable (toy world, project with cross-file use) *)
Example C13_hypotheses_satisfiable :
  key_compat toy /\ stages_extensional toy /\ stages_local toy trefs /\ ord_ok ord_id /\ ord_ok ord_rev /\
  uniq_names toy (asts_of toy source0) /\
  m2p toy ord_id false source0 ["src"] = Ok ["CFFh"; "xix"] /\
  m2p toy ord_rev false (rev source0) ["src"] = Ok ["xix"; "CFFh"].
Proof. exact toy_hypotheses. Qed.

Example C13_example_ctx_error_attributed :
  m2p toy ord_id false [("cFx", Some ["src"; "a.mamba"]); ("?__", Some ["src"; "b.mamba"]); ("uF_", Some ["src"; "u.mamba"])] ["src"]
  = Err [EStage SCtx (Some ["src"; "b.mamba"]) "bad declaration"].
Proof. exact ctx_error_attributed. Qed.

Example C13_example_dir_named_mamba_skipped :
  tdir toy ord_id [ (["src"], Dir); (["src"; "x.mamba"], File "cAx"); (["src"; "d.mamba"], Dir) ] [] None None false =
  ([ (["src"], Dir); (["src"; "x.mamba"], File "cAx"); (["src"; "d.mamba"], Dir); (["target"], Dir);
     (["target"; "x.py"], File "CA") ], Ok ["target"]).
Proof. exact dir_named_mamba_skipped. Qed.

Example C13_example_run : tdir toy ord_id fs0 [] None None false = (fs0_after, Ok ["target"]).
Proof. exact toy_run. Qed.

Example C13_example_rerun : tdir toy ord_id fs0_after [] None None false = (fs0_after, Ok ["target"]).
Proof. exact toy_rerun. Qed.

Example C13_example_faulty :
  tdir toy ord_id (fs_set fs0 ["src"; "c.mamba"] (File "uZ_")) [] None None false =
  (fs_set fs0 ["src"; "c.mamba"] (File "uZ_"),
   Err [EStage SCheck (Some ["src"; "c.mamba"]) "class Z is undefined"]).
Proof. exact toy_faulty. Qed.

(* statement pins *)
Check C13_all_or_nothing :
  forall (W : world) ord fs dir src target ann fs' es,
    tdir W ord fs dir src target ann = (fs', Err es) ->
    existsb is_write_err es = false ->
    only_target_created fs fs' (out_of dir target).
Check C13_rerun_idempotent :
  forall (W : world) ord fs dir src target ann fs' o,
    ~ is_prefix (src_of dir src) (out_of dir target) ->
    ~ is_prefix (out_of dir target) (src_of dir src) ->
    (forall fs1, prepare fs (out_of dir target) = Some fs1 ->
                 NoDup (out_paths fs1 (src_of dir src) (out_of dir target))) ->
    tdir W ord fs dir src target ann = (fs', Ok o) ->
    tdir W ord fs' dir src target ann = (fs', Ok o).
Check C13_order_independent :
  forall (W : world) ord ord' ann source source' dir dir' pys,
    key_compat W -> ord_ok ord -> ord_ok ord' -> stages_extensional W ->
    Permutation source source' -> uniq_names W (asts_of W source) ->
    m2p W ord ann source dir = Ok pys ->
    exists (f : input -> string) pys',
      m2p W ord' ann source' dir' = Ok pys' /\ pys = map f source /\ pys' = map f source'.
Check C13_pipeline_ok_iff :
  forall (W : world) ord ann source dir pys,
    m2p W ord ann source dir = Ok pys <->
    exists ctx, w_build_ctx W (asts_of W source) = Ok ctx /\
                Forall2 (fun (sp : input) py => file_out W ann (w_lookups W ord ctx) (fst sp) = Some py) source pys.

Print Assumptions C13_all_or_nothing.
Print Assumptions C13_stage_failure_writes_nothing.
Print Assumptions C13_pipeline_ok_iff.
Print Assumptions C13_errors_name_files.
Print Assumptions C13_ctx_errors_name_files.
Print Assumptions C13_pathless_error_pathless_input.
Print Assumptions C13_ctx_failure_reported.
Print Assumptions C13_parse_failure_reported.
Print Assumptions C13_check_failure_reported.
Print Assumptions C13_mirrored.
Print Assumptions C13_out_paths_nodup.
Print Assumptions C13_rerun_idempotent.
Print Assumptions C13_rerun_idempotent_wf.
Print Assumptions C13_order_independent.
Print Assumptions C13_order_independent_verdict.
Print Assumptions C13_fresh_file_inert.
Print Assumptions C13_fresh_file_project.
Print Assumptions C13_cross_file_visible.
Print Assumptions C13_order_independent_without_unique_names_refuted.
Print Assumptions C13_enumeration_dependent_refuted.
Print Assumptions C13_error_implies_nothing_written_refuted.
Print Assumptions C13_one_output_per_source_refuted.
Print Assumptions C13_hypotheses_satisfiable.
