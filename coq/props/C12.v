(** * C12 - determinism: verdict and emitted bytes depend on the input alone

    WHAT IS PROVED HERE.  [model/Order.v] models the places of the transpiler where a [HashSet]/[HashMap]
    iteration order can reach the verdict or the emitted bytes as functions of (input, enumeration order).  The
    theorems below remove the second argument: for ALL contents and ALL permutations of them the result is
    the same - under a stated side condition where the code needs one, and with a [_refuted] witness showing
    that the side condition is necessary (each witness is also a concrete program on which the real
    transpiler was observed to give different results in one process; see known_findings.json).
    Class bodies need no side condition any more (D15 was repaired in /repo commit 88d54a3).

    WHY [C12_partial] IS PARTIAL (and what covers the rest).
    (i)  Only the sites listed in [model/Order.v] are modelled.  The constraint generator's and the unifier's
         own iterations over sets and maps ([check/constrain/**]: [match_name]'s fold, [temp_map], [substitute],
         the order in which [Finished::push_ty] meets types, ...) are NOT modelled; neither is the text of
         diagnostics ([Display for Name] prints a union in hash order).
    (ii) A model is a mathematical function: it cannot exhibit a data race, a dependence on global state, on
         time, on another thread or on an earlier run.  "Different processes / threads / histories" is
         therefore not a theorem here at all.
    Both gaps are covered only by RUNTIME TESTING: the [repeat] endpoint of the harness runs the real
    [mamba_to_python] on the same input 16 times in one process (each hash table gets a fresh seed), on 8
    threads at once, after an unrelated warm-up workload, and in 3 separate processes, and
    [lib/vlib/c12.py] requires one verdict and byte-identical output; it also compares, for the modelled
    sites, the set of outputs the model predicts over all permutations with the set observed. *)
From Coq Require Import List String Permutation.
Import ListNotations.
Local Open Scope string_scope.
From MambaModel Require Import model.Order proofs.OrderProps.

(** (a) a type union is rendered the same whatever order its member set is iterated in (members are sorted) *)
Theorem C12_render_union_perm : forall fuel l l',
  NoDup (map canon l) -> Permutation l l' -> to_py_name fuel l = to_py_name fuel l'.
Proof. exact render_union_perm. Qed.

(** (b) the statements of a class body come out in the same order whatever the iteration orders of the
    HashMap before ([e1]) and after ([e2]) the constructor is inserted - for EVERY class body: since /repo commit
    88d54a3 the recorded position is a pair (slot, kind) and the pairs are pairwise distinct
    ([C12_positions_distinct]) *)
Theorem C12_class_body_perm : forall mk ms e1 e1' e2 e2',
  Permutation (entries ms) e1 -> Permutation (entries ms) e1' ->
  Permutation (add_init mk e1) e2 -> Permutation (add_init mk e1') e2' ->
  class_body e2 = class_body e2'.
Proof. exact class_body_deterministic. Qed.

Theorem C12_positions_distinct : forall mk ms, NoDup (map e_pk (add_init mk (entries ms))).
Proof. exact positions_distinct. Qed.

(** historical: the numbering before 88d54a3 (slot only, [class_body_old]) was order-dependent on the D15 witness,
    where the current one is not *)
Theorem C12_old_numbering_refuted :
  exists ms e e',
    Permutation (add_init false (entries ms)) e /\ Permutation (add_init false (entries ms)) e' /\
    class_body_old e <> class_body_old e' /\ class_body e = class_body e'.
Proof. exact d15_old_numbering_refuted. Qed.

(** (c) context lookups: deterministic when base names are unique, not otherwise *)
Theorem C12_class_lookup_perm : forall n l l',
  NoDup (map g_name l) -> Permutation l l' -> class_lookup n l = class_lookup n l'.
Proof. exact class_lookup_perm. Qed.

Theorem C12_class_lookup_refuted :
  exists defs n e e',
    Permutation (ctx_build defs) e /\ Permutation (ctx_build defs) e' /\
    class_lookup n e <> class_lookup n e'.
Proof. exact class_lookup_refuted. Qed.

Theorem C12_fun_lookup_perm : forall n g l l',
  NoDup (map g_name l) -> Permutation l l' -> fun_lookup n g l = fun_lookup n g l'.
Proof. exact fun_lookup_perm. Qed.

Theorem C12_fun_lookup_refuted :
  exists defs n e e',
    Permutation (ctx_build defs) e /\ Permutation (ctx_build defs) e' /\
    fun_lookup n [] e <> fun_lookup n [] e'.
Proof. exact fun_lookup_refuted. Qed.

Theorem C12_member_lookup_perm : forall n self ps ps',
  NoDup (map g_name (List.concat ps)) -> Permutation ps ps' ->
  member_lookup n self ps = member_lookup n self ps'.
Proof. exact member_lookup_perm. Qed.

Theorem C12_member_lookup_refuted :
  exists n self ps ps', Permutation ps ps' /\ member_lookup n self ps <> member_lookup n self ps'.
Proof. exact member_lookup_refuted. Qed.

(** (d) "first element" choices *)
Theorem C12_is_temporary_perm : forall l l',
  (forall x y, In x l -> In y l -> is_temp x = is_temp y) ->
  Permutation l l' -> is_temporary l = is_temporary l'.
Proof. exact is_temporary_perm. Qed.

Theorem C12_is_temporary_refuted :
  exists l l', Permutation l l' /\ is_temporary l <> is_temporary l'.
Proof. exact is_temporary_refuted. Qed.

Theorem C12_callable_args_perm : forall l l',
  (forall x y, In x l -> In y l -> tn_generics x = tn_generics y) ->
  Permutation l l' -> callable_args l = callable_args l'.
Proof. exact callable_args_perm. Qed.

(** (e) unions and [trim_super] produce the same SET whatever the orders *)
Theorem C12_name_union_perm : forall a a' b b',
  Permutation a a' -> Permutation b b' -> seteq (name_union a b) (name_union a' b').
Proof. exact name_union_perm. Qed.

Theorem C12_trim_super_perm : forall sup l l',
  Permutation l l' -> Permutation (trim_super sup l) (trim_super sup l').
Proof. exact trim_super_perm. Qed.

(** the executable enumeration of hash orders used by the correspondence check is the theorems' quantifier *)
Theorem C12_perms_spec : forall (l p : list entry), In p (perms l) <-> Permutation l p.
Proof. exact perms_spec. Qed.

(** The conjunction.  PARTIAL: see the header - unmodelled unifier iterations, and processes / threads /
    histories, are covered by runtime testing only. *)
Definition C12_partial_statement : Prop :=
  (forall fuel l l', NoDup (map canon l) -> Permutation l l' -> to_py_name fuel l = to_py_name fuel l') /\
  (forall mk ms e1 e1' e2 e2',
     Permutation (entries ms) e1 -> Permutation (entries ms) e1' ->
     Permutation (add_init mk e1) e2 -> Permutation (add_init mk e1') e2' ->
     class_body e2 = class_body e2') /\
  (forall n l l', NoDup (map g_name l) -> Permutation l l' -> class_lookup n l = class_lookup n l') /\
  (forall n g l l', NoDup (map g_name l) -> Permutation l l' -> fun_lookup n g l = fun_lookup n g l') /\
  (forall n self ps ps', NoDup (map g_name (List.concat ps)) -> Permutation ps ps' ->
     member_lookup n self ps = member_lookup n self ps') /\
  (forall l l', (forall x y, In x l -> In y l -> is_temp x = is_temp y) ->
     Permutation l l' -> is_temporary l = is_temporary l') /\
  (forall l l', (forall x y, In x l -> In y l -> tn_generics x = tn_generics y) ->
     Permutation l l' -> callable_args l = callable_args l') /\
  (forall a a' b b', Permutation a a' -> Permutation b b' -> seteq (name_union a b) (name_union a' b')) /\
  (forall sup l l', Permutation l l' -> Permutation (trim_super sup l) (trim_super sup l')).

Theorem C12_partial : C12_partial_statement.
Proof.
  repeat split.
  - exact render_union_perm.
  - exact class_body_deterministic.
  - exact class_lookup_perm.
  - exact fun_lookup_perm.
  - exact member_lookup_perm.
  - exact is_temporary_perm.
  - exact callable_args_perm.
  - exact name_union_perm.
  - exact trim_super_perm.
Qed.

(** Non-vacuity of the hypotheses. *)
Example C12_example_union :
  NoDup (map canon [tn "MyB"; tn "Float"; TN true true "List" [[tn "Str"; tn "Int"]]]) /\
  render 5 [tn "MyB"; tn "Float"; TN true true "List" [[tn "Str"; tn "Int"]]]
    = "Union[float, Optional[list[Union[int, str]]], MyB]".
Proof. split; [vm_compute; repeat constructor; cbn; intuition discriminate|reflexivity]. Qed.

Example C12_example_class_body :
  class_body_outcomes true [MOther; MVar "a" true; MVar "b" true; MFun "m1"; MFun "m2"]
    = [[LStmt 0; LStmt 1; LStmt 2; LInit; LStmt 3; LStmt 4]] /\
  (* the D15 witness and [field, method, field] with a generated constructor: one body each *)
  class_body_outcomes false d15_members = [[LStmt 1; LStmt 2; LStmt 0; LStmt 4; LStmt 3]] /\
  class_body_outcomes true [MVar "f1" true; MFun "m1"; MVar "f2" true] = [[LStmt 0; LStmt 2; LInit; LStmt 1]].
Proof. repeat split; vm_compute; reflexivity. Qed.

Example C12_example_lookup_hyp : NoDup (map g_name [foo_plain; helper_int; p1_f]).
Proof. vm_compute. repeat constructor; cbn; intuition discriminate. Qed.

(* statement pins *)
Check C12_render_union_perm : forall fuel l l',
  NoDup (map canon l) -> Permutation l l' -> to_py_name fuel l = to_py_name fuel l'.
Check C12_class_body_perm : forall mk ms e1 e1' e2 e2',
  Permutation (entries ms) e1 -> Permutation (entries ms) e1' ->
  Permutation (add_init mk e1) e2 -> Permutation (add_init mk e1') e2' ->
  class_body e2 = class_body e2'.
Check C12_positions_distinct : forall mk ms, NoDup (map e_pk (add_init mk (entries ms))).
Check C12_class_lookup_perm : forall n l l',
  NoDup (map g_name l) -> Permutation l l' -> class_lookup n l = class_lookup n l'.
Check C12_class_lookup_refuted : exists defs n e e',
  Permutation (ctx_build defs) e /\ Permutation (ctx_build defs) e' /\ class_lookup n e <> class_lookup n e'.
Check C12_fun_lookup_refuted : exists defs n e e',
  Permutation (ctx_build defs) e /\ Permutation (ctx_build defs) e' /\ fun_lookup n [] e <> fun_lookup n [] e'.
Check C12_member_lookup_perm : forall n self ps ps',
  NoDup (map g_name (List.concat ps)) -> Permutation ps ps' ->
  member_lookup n self ps = member_lookup n self ps'.
Check C12_member_lookup_refuted : exists n self ps ps',
  Permutation ps ps' /\ member_lookup n self ps <> member_lookup n self ps'.
Check C12_is_temporary_perm : forall l l',
  (forall x y, In x l -> In y l -> is_temp x = is_temp y) ->
  Permutation l l' -> is_temporary l = is_temporary l'.
Check C12_name_union_perm : forall a a' b b',
  Permutation a a' -> Permutation b b' -> seteq (name_union a b) (name_union a' b').
Check C12_trim_super_perm : forall sup l l',
  Permutation l l' -> Permutation (trim_super sup l) (trim_super sup l').
Check C12_partial : C12_partial_statement.

Print Assumptions C12_partial.
Print Assumptions C12_render_union_perm.
Print Assumptions C12_class_body_perm.
Print Assumptions C12_positions_distinct.
Print Assumptions C12_old_numbering_refuted.
Print Assumptions C12_class_lookup_refuted.
Print Assumptions C12_fun_lookup_refuted.
Print Assumptions C12_member_lookup_perm.
Print Assumptions C12_member_lookup_refuted.
Print Assumptions C12_is_temporary_refuted.
Print Assumptions C12_name_union_perm.
Print Assumptions C12_perms_spec.
