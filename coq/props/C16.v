(** * C16 - emitted modules are self-contained: generator-used names are imported once

    Over the model [Convert.conv] / [Convert.gen] of the desugaring and of [gen_arguments]
    (classes, interfaces and type aliases included), for EVERY typed AST, both values of the
    annotate flag:
    - [C16_monotone]       the import record only grows while a tree is converted;
    - [C16_covers]         everything the converted tree needs ([needs]: math for sqrt, the typing
                           spellings of rendered types, NewType for a type alias, ABC as the parent
                           of an interface, abstractmethod as a decorator) is provided by the
                           resulting record - provided the user's own type names avoid the spellings
                           rendered without import ([reserved_free]: no type named Optional or Union,
                           no called type / parent-with-arguments rendered ABC, [C16_reserved_spellings]);
                           the hypothesis is necessary ([C16_covers_refuted], [C16_covers_refuted_parent]);
    - [C16_imports_once]   no plain import, no from-module and no imported name is registered twice,
                           and the statements of the import list are pairwise different;
    - [C16_module_layout]  the emitted module is the import list followed by the converted body;
    - [C16_user_imports_verbatim]  a user import is converted to the [Import] of its identifiers,
                           each passed through the type-name table - unchanged exactly when it is not a
                           key of that table ([C16_user_imports_renamed_refuted]: `Enum` becomes `enum`);
    - [C16_self_contained] the combination for [gen]: every need of the body is bound by exactly
                           one statement of the import list that precedes the body.
    What the theorems do not say: that a user definition cannot rebind an imported support name
    (it can: [C16_d20_capture], finding D20) - free-name capture is judged by the direct oracle. *)
From Coq Require Import List String.
From MambaModel Require Import model.Core gen.Names model.Convert proofs.ConvertSim
  proofs.ImportsProps proofs.ImportsNeeds proofs.ImportsConv proofs.ImportsMain.
Import ListNotations.
Local Open Scope string_scope.
Local Open Scope list_scope.

Theorem C16_monotone :
  forall a st i c j n,
    typing_sep i -> provides i n -> conv a st i = Some (c, j) -> provides j n.
Proof. exact conv_monotone. Qed.

Theorem C16_monotone_refuted_without_sep :
  exists a st i c j n, provides i n /\ conv a st i = Some (c, j) /\ ~ provides j n.
Proof. exact conv_monotone_refuted_without_sep. Qed.

Theorem C16_covers :
  forall a st i c j,
    reserved_free a = true -> typing_sep i -> target_covered st i ->
    conv a st i = Some (c, j) -> forall n, In n (needs c) -> provides j n.
Proof. exact conv_covers. Qed.

Theorem C16_reserved_spellings :
  forall s, (type_name_ok s = true <-> s <> "Optional" /\ s <> "Union") /\ (abc_ok s = true <-> s <> "ABC").
Proof. exact reserved_spellings. Qed.

Theorem C16_covers_refuted :
  exists a st i c j n,
    typing_sep i /\ target_covered st i /\ conv a st i = Some (c, j) /\ In n (needs c) /\ ~ provides j n.
Proof. exact conv_covers_refuted. Qed.

Theorem C16_covers_refuted_parent :
  exists c j n,
    conv user_abc_parent (state0 true) imports0 = Some (c, j) /\ In n (needs c) /\ ~ provides j n.
Proof. exact conv_covers_refuted_parent. Qed.

Theorem C16_imports_once :
  forall a st i c j, wf i -> conv a st i = Some (c, j) -> once j.
Proof. exact imports_once_from. Qed.

Theorem C16_module_layout :
  forall ann a sts,
    gen ann a = Some (Block sts) ->
    exists c j, conv a (state0 ann) imports0 = Some (c, j) /\ sts = import_list j ++ stmts_of c.
Proof. exact module_layout. Qed.

Theorem C16_module_single :
  forall ann a c,
    gen ann a = Some c -> (forall sts, c <> Block sts) ->
    exists j, conv a (state0 ann) imports0 = Some (c, j) /\ import_list j = [].
Proof. exact module_single. Qed.

Theorem C16_user_imports_verbatim :
  forall ty f im al st i,
    assign_to st = None -> last_ret st = false ->
    conv (A ty (NImport (option_map idn f) (map idn im) (map idn al))) st i
    = Some (Import (option_map pid f) (map pid im) (map pid al), i).
Proof. exact user_imports_verbatim. Qed.

Theorem C16_user_imports_unchanged :
  forall x, lookup (snd x) py_names = None -> pid x = Id (snd x).
Proof. exact pid_verbatim. Qed.

Theorem C16_user_imports_renamed_refuted : exists x, pid x <> Id (snd x).
Proof. exact user_imports_renamed_refuted. Qed.

Theorem C16_self_contained :
  forall ann a sts,
    gen ann a = Some (Block sts) ->
    exists c j body,
      conv a (state0 ann) imports0 = Some (c, j) /\
      sts = import_list j ++ body /\ body = stmts_of c /\
      once j /\
      (reserved_free a = true ->
         forall n, In n (flat_map needs body) ->
           exists s, In s (import_list j) /\ stmt_binds s n /\
                     forall s', In s' (import_list j) -> stmt_binds s' n -> s' = s).
Proof. exact C16_self_contained_gen. Qed.

(** Non-vacuity: a program with a type alias, an interface and a function whose signature mentions a
    nullable, a tuple with a nullable member, a callable, Any and a union, and whose body takes a
    square root; it is reserved-free and converts under both settings, to modules that start with
    the imports shown and whose bodies need what is listed. *)
Example C16_sample_free : reserved_free sample16 = true.
Proof. exact sample16_reserved_free. Qed.
Example C16_sample_annotated :
  exists body,
    gen true sample16 =
    Some (Block ([Import None [Id "math"] [];
                  Import (Some (Id "abc")) [Id "ABC"; Id "abstractmethod"] [];
                  Import (Some (Id "typing"))
                    [Id "Any"; Id "Callable"; Id "NewType"; Id "Optional"; Id "Tuple"; Id "Union"] []] ++ body))
    /\ flat_map needs body =
       [FromImport "typing" "NewType"; FromImport "abc" "ABC"; FromImport "abc" "abstractmethod";
        FromImport "typing" "Optional"; FromImport "typing" "Tuple"; FromImport "typing" "Optional";
        FromImport "typing" "Callable"; FromImport "typing" "Tuple"; FromImport "typing" "Any";
        FromImport "typing" "Union"; PlainImport "math"].
Proof. exact sample16_gen_annotated. Qed.
Example C16_sample_plain :
  exists body,
    gen false sample16 =
    Some (Block ([Import None [Id "math"] [];
                  Import (Some (Id "abc")) [Id "ABC"; Id "abstractmethod"] [];
                  Import (Some (Id "typing")) [Id "NewType"] []] ++ body))
    /\ flat_map needs body =
       [FromImport "typing" "NewType"; FromImport "abc" "ABC"; FromImport "abc" "abstractmethod"; PlainImport "math"].
Proof. exact sample16_gen_plain. Qed.

(** D20: the theorems are about the import list; a user definition can still rebind an imported name *)
Example C16_d20_capture :
  gen false d20 = Some (Block [Import None [Id "math"] [];
                               VarDef (Id "math") None (Some (Int "3"));
                               Un CuSqrt (Int "4")])
  /\ reserved_free d20 = true.
Proof. exact d20_capture. Qed.

(* statement pins *)
Check C16_monotone :
  forall a st i c j n, typing_sep i -> provides i n -> conv a st i = Some (c, j) -> provides j n.
Check C16_covers :
  forall a st i c j,
    reserved_free a = true -> typing_sep i -> target_covered st i ->
    conv a st i = Some (c, j) -> forall n, In n (needs c) -> provides j n.
Check C16_imports_once : forall a st i c j, wf i -> conv a st i = Some (c, j) -> once j.
Check C16_module_layout :
  forall ann a sts,
    gen ann a = Some (Block sts) ->
    exists c j, conv a (state0 ann) imports0 = Some (c, j) /\ sts = import_list j ++ stmts_of c.
Check C16_self_contained :
  forall ann a sts,
    gen ann a = Some (Block sts) ->
    exists c j body,
      conv a (state0 ann) imports0 = Some (c, j) /\
      sts = import_list j ++ body /\ body = stmts_of c /\
      once j /\
      (reserved_free a = true ->
         forall n, In n (flat_map needs body) ->
           exists s, In s (import_list j) /\ stmt_binds s n /\
                     forall s', In s' (import_list j) -> stmt_binds s' n -> s' = s).
Print Assumptions C16_monotone.
Print Assumptions C16_covers.
Print Assumptions C16_imports_once.
Print Assumptions C16_module_layout.
Print Assumptions C16_user_imports_verbatim.
Print Assumptions C16_self_contained.
Print Assumptions C16_covers_refuted.
Print Assumptions C16_reserved_spellings.
