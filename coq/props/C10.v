(** * C10 - printed expressions keep their structure

    For every well-formed expression tree of the generator's [Core] language --
    any combination of parent operator, child operator and side, any depth --
    the tokens printed by [to_py] (template table regenerated from the Rust
    source) are parsed by the model of Python's expression grammar back to
    exactly the tree [as_py e] the expression denotes. *)
From Coq Require Import List String.
Import ListNotations.
Local Open Scope string_scope.
From MambaModel Require Import model.PyExpr model.CoreExpr gen.PrinterTable
  proofs.PrinterProps proofs.PrinterTableOk.

Theorem C10_roundtrip :
  forall e, wf e = true ->
  exists n, forall f, n <= f -> py_parse f (ptoks generated e) = Some (as_py e).
Proof. intros e Hw. exact (roundtrip generated e generated_ok Hw). Qed.

(** Desugared forms bind as one unit: they are ordinary sub-trees (an inclusive
    range is [FunctionCall range [from; Add to 1; step]], [isna] is
    [Not (IsA ..)], [?] is [Or], E-notation is [ENum]) and so are instances of
    the theorem; in operand position each is a primary or parenthesised. *)
Theorem C10_operand_is_unit :
  forall e rest, wf e = true ->
  exists n, forall f, n <= f -> forall min,
    PrinterProps.nontrail rest -> PrinterProps.lowp rest min ->
    pexp f min (operand canon e ++ rest) = Some (as_py e, rest).
Proof.
  intros e rest Hw. destruct PrinterProps.main as [Hm _]. destruct (Hm e) as [H _].
  destruct (H Hw) as [HT _]. destruct (PrinterProps.O_of_T e HT) as [n Hn].
  exists n. intros f Hf min Hr Hl. apply Hn; assumption.
Qed.

(** Non-vacuity: a concrete tree mixing precedences, unary minus, comparison,
    boolean, ternary, lambda, call, index and attribute is well formed. *)
Example C10_example_wf :
  wf (CTernary (CBin BLe (CBin BMul (CBin BAdd (CInt "2") (CInt "3")) (CUn USubU (CId "x"))) (CENum "1" "3"))
        (CCall (CLambda ["a"] (CBin BPow (CId "a") (CBin BPow (CInt "2") (CInt "3")))) (CCons (CIndex (CId "l") (CInt "0")) CNil))
        (CProp (CId "o") (CCall (CId "m") (CCons (CUn UNot (CId "b")) CNil)))) = true.
Proof. reflexivity. Qed.

(* statement pins *)
Check C10_roundtrip :
  forall e, wf e = true ->
  exists n, forall f, n <= f -> py_parse f (ptoks generated e) = Some (as_py e).
Print Assumptions C10_roundtrip.
Print Assumptions C10_operand_is_unit.
