(** * C20 - assignability is a sound order (and the rule-level half of C06, null safety)

    Statements are about [super cx A B] of model/Types.v: "a value of type B is accepted where A is expected"
    ([Name::is_superset_of]), and [union_members] ([Name::union]).  The model is tied to the Rust code by the
    class table regenerated from the stub files (gen/Stubs.v, side condition [stubs_wf]) and by the `super` /
    `union` correspondence over the finite universe of model/TypesUniv.v.

    Unbounded part.  [cx] is ANY class table with [ctx_ok cx = true] (class names unique; non-generic classes
    inherit only from non-generic classes of the table; Any and None have no parents and nothing inherits from
    None) that is [acyclic]; the generated table extended by any user table of non-generic classes is an
    instance.  Types are names all of whose members are [plain]: a non-generic class of the table, optionally
    nullable.  On these:
      [C20_total] [C20_super_refl] [C20_super_trans] [C20_any_top] [C20_ancestor] [C20_unrelated]
      [C06_nullable_rule] [C20_union_upper] [C20_union_member_fwd] [C20_union_comm] [C20_order_irrelevant]
    hold at full strength;
      [C20_union_member_bwd_outside_known] [C20_union_idem_outside_known] [C20_union_assoc_outside_known]
    hold outside the decidable class "the union rewrites members" ([mixes]: a None member next to another
    member), with [_refuted] witnesses inside the class (D17, D23).

    Bounded part.  For generic instantiations the relation is decided for all pairs / triples of the stated
    finite universe (143 types) by evaluation: [C20_universe].  There reflexivity fails exactly on
    instantiations with a nullable argument (D22), transitivity fails where tuples of different length meet
    (D30), and the union does not accept its own member where a Collection[..] meets a tuple (D31).
    Not proved: the laws for generic types outside that universe ([super_trans_generic] was not attempted). *)
From Coq Require Import List String Bool Permutation.
From MambaModel Require Import gen.TypesConf model.Types gen.Stubs model.TypesUniv proofs.TypesProps proofs.TypesUnivOk.
Import ListNotations.
Local Open Scope string_scope.
Local Open Scope list_scope.

Section Unbounded.
  Variable cx : ctx.
  Hypothesis Hok : ctx_ok cx = true.
  Hypothesis Hacyc : acyclic cx.

  (** on plain names the relation always answers: no error, no divergence *)
  Theorem C20_total : forall A B, plainN cx A = true -> plainN cx B = true ->
    super cx A B = Ok true \/ super cx A B = Ok false.
  Proof. exact (super_total cx Hok Hacyc). Qed.

  Theorem C20_super_refl : forall A, plainN cx A = true -> super cx A A = Ok true.
  Proof. exact (super_refl cx Hok Hacyc). Qed.

  Theorem C20_super_trans : forall A B C,
    plainN cx A = true -> plainN cx B = true -> plainN cx C = true ->
    super cx A B = Ok true -> super cx B C = Ok true -> super cx A C = Ok true.
  Proof. exact (super_trans cx Hok Hacyc). Qed.

  (** every non-nullable type is assignable to Any *)
  Theorem C20_any_top : forall A,
    plainN cx A = true -> A <> [] -> forallb (fun t => negb (tnull t)) A = true ->
    super cx [cls_ty ANY] A = Ok true.
  Proof. exact (any_top cx Hok Hacyc). Qed.

  (** a class is assignable to each of its ancestors ... *)
  Theorem C20_ancestor : forall a c,
    is_plain_class cx a = true -> is_plain_class cx c = true ->
    anc cx a c -> super cx [cls_ty a] [cls_ty c] = Ok true.
  Proof. exact (ancestor cx Hok Hacyc). Qed.

  (** ... and not to unrelated classes *)
  Theorem C20_unrelated : forall a c,
    is_plain_class cx a = true -> is_plain_class cx c = true ->
    ~ anc cx a c -> a <> ANY -> super cx [cls_ty a] [cls_ty c] = Ok false.
  Proof. exact (unrelated cx Hok Hacyc). Qed.

  (** T and None are assignable to T?, T? is not assignable to T (nor to any other non-nullable class),
      None is not assignable to T (T other than Any: see [C06_any_accepts_none]) *)
  Theorem C06_nullable_rule : forall t,
    is_plain_class cx t = true -> t <> NONE ->
    super cx [TN true t []] [cls_ty NONE] = Ok true /\
    super cx [TN true t []] [cls_ty t] = Ok true /\
    (forall u, is_plain_class cx u = true -> super cx [cls_ty u] [TN true t []] = Ok false) /\
    (t <> ANY -> super cx [cls_ty t] [cls_ty NONE] = Ok false).
  Proof.
    intros t P Hn. split; [exact (nullable_accepts_none cx Hok Hacyc t P Hn)|].
    split; [exact (nullable_accepts_base cx Hok Hacyc t P Hn)|].
    split; [intros u Pu; exact (base_rejects_nullable cx Hok Hacyc u t Pu P Hn)|].
    intros Ha. exact (base_rejects_none cx Hok Hacyc t P Hn Ha).
  Qed.

  (** the union of two types accepts both *)
  Theorem C20_union_upper : forall A B,
    plainN cx A = true -> plainN cx B = true -> A <> [] -> B <> [] ->
    super cx (union_members A B) A = Ok true /\ super cx (union_members A B) B = Ok true.
  Proof. exact (union_upper cx Hok Hacyc). Qed.

  (** a union is assignable to U only if each member is *)
  Theorem C20_union_member_fwd : forall U A B,
    plainN cx U = true -> plainN cx A = true -> plainN cx B = true -> A <> [] -> B <> [] ->
    super cx U (union_members A B) = Ok true -> super cx U A = Ok true /\ super cx U B = Ok true.
  Proof. exact (union_member_fwd cx Hok Hacyc). Qed.

  (** ... and if each member is, outside the known class (or when every member of U is nullable) *)
  Theorem C20_union_member_bwd_outside_known : forall U A B,
    plainN cx U = true -> plainN cx A = true -> plainN cx B = true ->
    mixes A B = false \/ forallb tnull U = true ->
    super cx U A = Ok true -> super cx U B = Ok true -> super cx U (union_members A B) = Ok true.
  Proof. exact (union_member_bwd_outside_known cx Hok Hacyc). Qed.

  Theorem C20_union_comm : forall A B, plainN cx A = true -> plainN cx B = true ->
    same_set (union_members A B) (union_members B A).
  Proof. exact (union_comm cx). Qed.

  Theorem C20_union_idem_outside_known : forall A, plainN cx A = true -> mixes A A = false ->
    same_set (union_members A A) A.
  Proof. exact (union_idem_outside_known cx). Qed.

  Theorem C20_union_assoc_outside_known : forall A B C,
    plainN cx A = true -> plainN cx B = true -> plainN cx C = true ->
    existsb is_null (A ++ B ++ C) = false ->
    same_set (union_members (union_members A B) C) (union_members A (union_members B C)).
  Proof. exact (union_assoc_outside_known cx). Qed.

  (** the answer does not depend on the order (or multiplicity) in which members are stored *)
  Theorem C20_order_irrelevant : forall A A' B B',
    plainN cx A = true -> plainN cx B = true -> Permutation A A' -> Permutation B B' ->
    super cx A B = super cx A' B'.
  Proof. exact (order_irrelevant cx Hok Hacyc). Qed.

  Theorem C20_same_members_same_answer : forall A A' B B',
    plainN cx A = true -> plainN cx B = true -> same_set A A' -> same_set B B' ->
    super cx A B = super cx A' B'.
  Proof. exact (super_same_set cx Hok Hacyc). Qed.
End Unbounded.

(** the decidable check implies acyclicity, so the hypotheses can be discharged by evaluation *)
Theorem C20_hypotheses_decidable : forall cx, stubs_wf cx = true -> ctx_ok cx = true /\ acyclic cx.
Proof. exact wf_ok. Qed.

(** ** The regenerated built-in table satisfies the side conditions; so does it extended by the user hierarchy
       (non-vacuity of the hypotheses, and of [plainN]) *)
Theorem C20_stubs_wf : stubs_wf generated = true.
Proof. exact generated_wf. Qed.

Example C20_demo_wf : stubs_wf demo = true.
Proof. exact demo_wf. Qed.
Example C20_demo_plain :
  plainN demo [cls_ty "D"; TN true "Int" []; cls_ty "None"; cls_ty "Any"; cls_ty "str_iterator"] = true.
Proof. vm_compute. reflexivity. Qed.
Example C20_demo_anc : anc demo "A" "E" /\ ~ anc demo "U" "E".
Proof.
  split.
  - eapply anc_step with (p := cls_ty "D"); [vm_compute; reflexivity | left; reflexivity |].
    eapply anc_step with (p := cls_ty "B"); [vm_compute; reflexivity | left; reflexivity |].
    eapply anc_step with (p := cls_ty "A"); [vm_compute; reflexivity | left; reflexivity |]. constructor.
  - intros H. pose proof (unrelated demo (proj1 demo_ok) (proj2 demo_ok) "U" "E") as Hu.
    assert (E : super demo [cls_ty "U"] [cls_ty "E"] = Ok false) by (vm_compute; reflexivity).
    pose proof (ancestor demo (proj1 demo_ok) (proj2 demo_ok) "U" "E" eq_refl eq_refl H) as Ht.
    rewrite E in Ht. discriminate.
Qed.

(** ** The finite universe (generic instantiations of depth <= 2 included): all pairs and triples decided *)
Theorem C20_universe :
  (List.length univ, List.length univ_rel, List.length univ_small) = (143, 139, 29) /\
  no_divergence demo univ = true /\
  refl_check demo univ = true /\ refl_exact demo univ = true /\
  trans_outside demo univ_rel = true /\
  any_top_check demo univ_rel = true /\
  union_upper_check demo univ_rel = true /\
  union_comm_check univ = true /\ union_idem_check univ = true /\
  union_assoc_check univ_small = true /\ union_member_check demo univ_small = true.
Proof.
  exact (conj univ_size (conj univ_no_divergence (conj univ_refl (conj univ_refl_exact (conj univ_trans
        (conj univ_any_top (conj univ_union_upper (conj univ_union_comm (conj univ_union_idem
        (conj univ_union_assoc univ_union_member)))))))))).
Qed.

(** ** Refutations of the full-strength statements (known findings) *)
Theorem C20_union_assoc_refuted :
  exists A B C, plainN generated A = true /\ plainN generated B = true /\ plainN generated C = true /\
    union_members (union_members A B) C = [q tInt; tStr] /\
    union_members A (union_members B C) = [tInt; q tStr] /\
    super generated (union_members (union_members A B) C) (union_members A (union_members B C)) = Ok false /\
    super generated (union_members A (union_members B C)) (union_members (union_members A B) C) = Ok false.
Proof. exact union_assoc_refuted. Qed.

Theorem C20_super_refl_refuted : exists A, super generated A A = Ok false.
Proof. exact super_refl_refuted. Qed.

Theorem C20_union_member_refuted :
  exists U A B, plainN generated U = true /\ plainN generated A = true /\ plainN generated B = true /\
    super generated U A = Ok true /\ super generated U B = Ok true /\
    super generated U (union_members A B) = Ok false.
Proof. exact union_member_refuted. Qed.

Theorem C20_union_idem_refuted :
  exists A, plainN generated A = true /\ union_members A A = [q tInt] /\
            super generated A (union_members A A) = Ok false.
Proof. exact union_idem_refuted. Qed.

(** D30; [tuple_zip_truncates] is read from has_parent on every run (gen/TypesConf.v) *)
Theorem C20_super_trans_refuted :
  tuple_zip_truncates = true ->
  exists A B C, super generated A B = Ok true /\ super generated B C = Ok true /\ super generated A C = Ok false.
Proof. exact super_trans_refuted. Qed.

Theorem C20_universe_trans_when_fixed :
  tuple_zip_truncates = false -> trans_table (matrix demo univ_rel) = true.
Proof. exact univ_trans_full. Qed.

Theorem C20_union_upper_refuted :
  exists A B, super generated (union_members A B) B = Err /\ super generated B B = Ok true.
Proof. exact union_upper_refuted. Qed.

Theorem C06_any_accepts_none : super generated [tAny] [tNone] = Ok true.
Proof. exact any_accepts_none. Qed.

(** a class that inherits from itself: class lookup diverges for every fuel (the Rust code overflows its stack) *)
Theorem C20_cyclic_diverges : forall f, lookup f cyclic_table ("A", []) = Div.
Proof. exact cyclic_diverges. Qed.

(* statement pins *)
Check C20_super_refl : forall cx, ctx_ok cx = true -> acyclic cx ->
  forall A, plainN cx A = true -> super cx A A = Ok true.
Check C20_super_trans : forall cx, ctx_ok cx = true -> acyclic cx -> forall A B C,
  plainN cx A = true -> plainN cx B = true -> plainN cx C = true ->
  super cx A B = Ok true -> super cx B C = Ok true -> super cx A C = Ok true.
Check C20_any_top : forall cx, ctx_ok cx = true -> acyclic cx -> forall A,
  plainN cx A = true -> A <> [] -> forallb (fun t => negb (tnull t)) A = true -> super cx [cls_ty ANY] A = Ok true.
Check C20_ancestor : forall cx, ctx_ok cx = true -> acyclic cx -> forall a c,
  is_plain_class cx a = true -> is_plain_class cx c = true -> anc cx a c -> super cx [cls_ty a] [cls_ty c] = Ok true.
Check C20_unrelated : forall cx, ctx_ok cx = true -> acyclic cx -> forall a c,
  is_plain_class cx a = true -> is_plain_class cx c = true -> ~ anc cx a c -> a <> ANY ->
  super cx [cls_ty a] [cls_ty c] = Ok false.
Check C06_nullable_rule : forall cx, ctx_ok cx = true -> acyclic cx -> forall t,
  is_plain_class cx t = true -> t <> NONE ->
  super cx [TN true t []] [cls_ty NONE] = Ok true /\ super cx [TN true t []] [cls_ty t] = Ok true /\
  (forall u, is_plain_class cx u = true -> super cx [cls_ty u] [TN true t []] = Ok false) /\
  (t <> ANY -> super cx [cls_ty t] [cls_ty NONE] = Ok false).
Check C20_union_upper : forall cx, ctx_ok cx = true -> acyclic cx -> forall A B,
  plainN cx A = true -> plainN cx B = true -> A <> [] -> B <> [] ->
  super cx (union_members A B) A = Ok true /\ super cx (union_members A B) B = Ok true.
Check C20_union_member_fwd : forall cx, ctx_ok cx = true -> acyclic cx -> forall U A B,
  plainN cx U = true -> plainN cx A = true -> plainN cx B = true -> A <> [] -> B <> [] ->
  super cx U (union_members A B) = Ok true -> super cx U A = Ok true /\ super cx U B = Ok true.
Check C20_union_member_bwd_outside_known : forall cx, ctx_ok cx = true -> acyclic cx -> forall U A B,
  plainN cx U = true -> plainN cx A = true -> plainN cx B = true ->
  mixes A B = false \/ forallb tnull U = true ->
  super cx U A = Ok true -> super cx U B = Ok true -> super cx U (union_members A B) = Ok true.
Check C20_union_comm : forall cx A B, plainN cx A = true -> plainN cx B = true ->
  same_set (union_members A B) (union_members B A).
Check C20_union_idem_outside_known : forall cx A, plainN cx A = true -> mixes A A = false ->
  same_set (union_members A A) A.
Check C20_union_assoc_outside_known : forall cx A B C,
  plainN cx A = true -> plainN cx B = true -> plainN cx C = true -> existsb is_null (A ++ B ++ C) = false ->
  same_set (union_members (union_members A B) C) (union_members A (union_members B C)).
Check C20_order_irrelevant : forall cx, ctx_ok cx = true -> acyclic cx -> forall A A' B B',
  plainN cx A = true -> plainN cx B = true -> Permutation A A' -> Permutation B B' -> super cx A B = super cx A' B'.
Check C20_stubs_wf : stubs_wf generated = true.
Print Assumptions C20_total.
Print Assumptions C20_super_refl.
Print Assumptions C20_super_trans.
Print Assumptions C20_any_top.
Print Assumptions C20_ancestor.
Print Assumptions C20_unrelated.
Print Assumptions C06_nullable_rule.
Print Assumptions C20_union_upper.
Print Assumptions C20_union_member_fwd.
Print Assumptions C20_union_member_bwd_outside_known.
Print Assumptions C20_union_comm.
Print Assumptions C20_union_idem_outside_known.
Print Assumptions C20_union_assoc_outside_known.
Print Assumptions C20_order_irrelevant.
Print Assumptions C20_stubs_wf.
Print Assumptions C20_universe.
