(** * C03 - totality: any input yields output or diagnostics, never a crash or hang

    The property quantifies over the whole pipeline.  What is PROVED here concerns two modelled
    stages only, and is therefore named [C03_partial]:

    Lexer (model [model/Lex.v], tied to [src/parse/lex] by the generated keyword/spelling tables
    and the byte-for-byte `lex` correspondence run by C18 and, on the C03 campaign inputs, by
    lib/vlib/c03.py):
    - [C03_lex_total]        [tokenize s] is never [OutOfFuel]: the loop of [tokenize] and the
                             recursion of [tokenize_direct] on interpolated expressions terminate
                             for every input, at every nesting of strings inside braces;
    - [C03_lex_steps]        the number of [into_tokens] calls, nested re-lexing included, is at
                             most [length s * (1 + depth s)], and [2 * depth s <= length s]
                             (so at most quadratic; linear when strings do not nest), where the
                             counted loop is proved to compute exactly [tokenize]'s loop;
    - [C03_lex_no_panic]     the partial Rust operations the scanner performs are applied inside
                             their domain: the slice [cur_expr[0..len-1]] only to a non-empty text
                             ending in the one-byte [}]; the [as usize] casts that size
                             [vec![..; amount]] only to non-negative numbers; [CaretPos::offset]
                             ([a + b - 1] in [usize]) only with [b >= 1].
    Class table (model [model/Total.v] of [Context::class] and [has_parent] in
    [src/check/context/clss/mod.rs], plain names only):
    - [C03_lookup_terminates], [C03_has_parent_terminates]  on an acyclic table the walk through
                             the parents ends within [length ctx] nested calls;
    - [C03_lookup_refuted]   on [class A: A] it does not end for any fuel (finding D8: the real
                             binary overflows its stack; confirmed by the campaign).

    NOT covered by any theorem (exercised only by the robustness campaign of lib/vlib/c03.py,
    which is testing): the statement/expression parser ([src/parse/*.rs] outside [lex]), the
    constraint generator and the unifier ([src/check/constrain]), [Context] construction from
    the AST and the built-in stubs, generic arguments in class lookup, [convert]/the Python
    printer, the diagnostic renderer, the driver in [lib.rs]/[main.rs]; the real stack depth
    (a terminating recursion may still exhaust the 8 MiB stack: the model's bound is a number
    of nested calls, not bytes); wall-clock time (the step bound counts scanner calls, and
    each call may copy its token: see the campaign's time-vs-size measurements); [i32]/[usize]
    overflow of line, column, indentation and brace counters (needs inputs of 2^31 characters;
    positions are [Z] in the model); inputs with non-ASCII characters (the model reads bytes,
    the Rust scanner reads [char]s). *)
From Coq Require Import List Ascii ZArith String Lia.
From MambaModel Require Import model.LexTok gen.LexTables model.Lex proofs.LexProps
  model.Total proofs.TotalProps.
Import ListNotations.

(** ** Lexer *)

Theorem C03_lex_total : forall s, tokenize s <> OutOfFuel.
Proof. exact lex_total. Qed.

Theorem C03_lex_steps :
  forall s,
    fst (tok_loop_n (S (S (List.length s))) s state0 []) = tok_loop (S (S (List.length s))) s state0 []
    /\ lex_steps s <= List.length s * (1 + lex_depth s)
    /\ 2 * lex_depth s <= List.length s
    /\ 2 * lex_steps s <= List.length s * (2 + List.length s).
Proof. exact lex_steps_all. Qed.

Theorem C03_lex_no_panic :
  (* string scanner: shape of the state it runs in, from the opening quote on *)
  (forall s st rest, scan_string sstate0 s = (st, rest) -> SInv st)
  (* the slice [cur_expr[0..cur_expr.len() - 1]] *)
  /\ (forall st c cur, SInv st -> slice_site st c = Some cur ->
        c = c_rcb /\ cur = s_cur st ++ [c_rcb] /\ (0 < s_depth st)%Z)
  (* interpolated expressions are strictly shorter than what follows the opening quote *)
  /\ (forall c r content exprs rest, scan c r = SString content exprs rest ->
        List.length content + List.length rest <= List.length r
        /\ Forall (fun oe => List.length (snd oe) + 2 <= List.length content) exprs
        /\ exprs_len exprs <= List.length content)
  (* [as usize] casts that size [vec![..; amount]] *)
  /\ (forall st, if (cur_indent st <=? line_indent st)%Z
                 then (0 <= Z.quot (line_indent st - cur_indent st) 4)%Z
                 else (0 <= Z.quot (cur_indent st - line_indent st) 4)%Z)
  /\ (forall fuel s st acc, tok_loop fuel s state0 [] = inl (inl (st, acc)) ->
        (0 <= Z.quot (cur_indent st) 4)%Z)
  (* [CaretPos::offset] *)
  /\ (forall fuel s, offset_sites fuel s state0 = true).
Proof. exact lex_no_panic_all. Qed.

(** ** Class lookup *)

Theorem C03_lookup_terminates :
  forall ctx, acyclic ctx -> forall n, lookup (List.length ctx) ctx n <> Diverges.
Proof. exact lookup_terminates. Qed.

Theorem C03_has_parent_terminates :
  forall ctx, acyclic ctx -> forall n other, has_parent (List.length ctx) ctx n other <> HDiverges.
Proof. exact has_parent_terminates. Qed.

Theorem C03_lookup_refuted :
  exists ctx n, ~ acyclic ctx /\ lookup (List.length ctx) ctx n = Diverges.
Proof. exact lookup_refuted. Qed.

(** the witness is [class A: A], and no amount of fuel helps *)
Theorem C03_self_parent_diverges : forall fuel, lookup fuel selfish nameA = Diverges.
Proof. exact selfish_diverges. Qed.

(** ** The conjunction (partial: see the header for what is not covered) *)

Theorem C03_partial :
  (forall s, tokenize s <> OutOfFuel)
  /\ (forall s, lex_steps s <= List.length s * (1 + lex_depth s) /\ 2 * lex_depth s <= List.length s)
  /\ (forall st c cur, SInv st -> slice_site st c = Some cur -> cur = s_cur st ++ [c_rcb])
  /\ (forall fuel s, offset_sites fuel s state0 = true)
  /\ (forall ctx, acyclic ctx ->
        forall n other, lookup (List.length ctx) ctx n <> Diverges
                        /\ has_parent (List.length ctx) ctx n other <> HDiverges)
  /\ (exists ctx n, ~ acyclic ctx /\ lookup (List.length ctx) ctx n = Diverges).
Proof. exact total_partial. Qed.

(** ** Non-vacuity *)

(** a string nested inside an interpolated expression nested inside a string: accepted,
    depth 2, 16 scanner calls for 28 characters *)
Definition nested_sample : str := s "def a := ""x{f(""y{b}"")}z"" + 1".
Example nested_sample_ok :
  (exists ts, tokenize nested_sample = LexOk ts /\ List.length ts = 12)
  /\ lex_depth nested_sample = 2 /\ lex_steps nested_sample = 16 /\ List.length nested_sample = 28.
Proof. split; [eexists; split; vm_compute; reflexivity | vm_compute; repeat split]. Qed.

(** the slice site is reached: closing the brace of ["{b}"] *)
Example slice_site_reached :
  exists st, SInv st /\ slice_site st c_rcb = Some (s "b}").
Proof.
  exists (sstep (sstep sstate0 c_lcb) (ch 98)).
  split; [apply SInv_step, SInv_step, SInv0 | reflexivity].
Qed.

(** an acyclic table with a diamond and an undefined parent; lookups end in [Found]/[Undefined] *)
Definition nm (x : string) : str := s x.
Definition diamond : list cls :=
  [ {| c_name := nm "D"; c_parents := [nm "B"; nm "C"]; c_members := [nm "d"] |};
    {| c_name := nm "B"; c_parents := [nm "A"]; c_members := [nm "b"; nm "m"] |};
    {| c_name := nm "C"; c_parents := [nm "A"]; c_members := [nm "c"; nm "m"] |};
    {| c_name := nm "A"; c_parents := []; c_members := [nm "a"] |};
    {| c_name := nm "E"; c_parents := [nm "Zz"]; c_members := [] |} ].

Definition diamond_rank (n : str) : nat :=
  if str_eqb n (nm "D") then 3 else if str_eqb n (nm "B") then 2 else if str_eqb n (nm "C") then 2
  else if str_eqb n (nm "E") then 1 else 0.

Example diamond_acyclic : acyclic diamond.
Proof.
  apply (ranked_acyclic diamond diamond_rank).
  intros n p (c & Hf & Hin). apply find_class_some in Hf as [Hc <-].
  repeat (destruct Hc as [<- | Hc]; [cbn in Hin; repeat (destruct Hin as [<- | Hin]; [vm_compute; lia|]); destruct Hin|]).
  destruct Hc.
Qed.

Example diamond_lookup :
  lookup (List.length diamond) diamond (nm "D") = Found [nm "d"; nm "b"; nm "m"; nm "a"; nm "c"]
  /\ lookup (List.length diamond) diamond (nm "E") = Undefined (nm "Zz")
  /\ has_parent (List.length diamond) diamond (nm "D") (nm "A") = HBool true
  /\ has_parent (List.length diamond) diamond (nm "A") (nm "D") = HBool false.
Proof. vm_compute. repeat split. Qed.

(* statement pins *)
Check C03_lex_total : forall s, tokenize s <> OutOfFuel.
Check C03_lex_steps : forall s,
    fst (tok_loop_n (S (S (List.length s))) s state0 []) = tok_loop (S (S (List.length s))) s state0 []
    /\ lex_steps s <= List.length s * (1 + lex_depth s)
    /\ 2 * lex_depth s <= List.length s
    /\ 2 * lex_steps s <= List.length s * (2 + List.length s).
Check C03_lookup_terminates :
  forall ctx, acyclic ctx -> forall n, lookup (List.length ctx) ctx n <> Diverges.
Check C03_has_parent_terminates :
  forall ctx, acyclic ctx -> forall n other, has_parent (List.length ctx) ctx n other <> HDiverges.
Check C03_lookup_refuted : exists ctx n, ~ acyclic ctx /\ lookup (List.length ctx) ctx n = Diverges.
Check C03_self_parent_diverges : forall fuel, lookup fuel selfish nameA = Diverges.
Check C03_partial :
  (forall s, tokenize s <> OutOfFuel)
  /\ (forall s, lex_steps s <= List.length s * (1 + lex_depth s) /\ 2 * lex_depth s <= List.length s)
  /\ (forall st c cur, SInv st -> slice_site st c = Some cur -> cur = s_cur st ++ [c_rcb])
  /\ (forall fuel s, offset_sites fuel s state0 = true)
  /\ (forall ctx, acyclic ctx ->
        forall n other, lookup (List.length ctx) ctx n <> Diverges
                        /\ has_parent (List.length ctx) ctx n other <> HDiverges)
  /\ (exists ctx n, ~ acyclic ctx /\ lookup (List.length ctx) ctx n = Diverges).
Print Assumptions C03_lex_total.
Print Assumptions C03_lex_steps.
Print Assumptions C03_lex_no_panic.
Print Assumptions C03_lookup_terminates.
Print Assumptions C03_has_parent_terminates.
Print Assumptions C03_lookup_refuted.
Print Assumptions C03_self_parent_diverges.
Print Assumptions C03_partial.
