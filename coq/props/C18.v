(** * C18 - token positions are exact and indentation tokens are balanced

    Statements are about [tokenize] of model/Lex.v (tied to the Rust lexer by the
    generated keyword/spelling tables and the byte-for-byte `lex` correspondence).
    [run_tls s] is the token list of [tokenize s] before the tokens of interpolated
    expressions are flattened in ([tokenize_run]).

    Full property, as far as it is true of the code:
    - [C18_scan_exact]       every token consumes exactly the characters of its spelling;
    - [C18_positions_track]  on every accepted input outside the known string classes
                             ([clean]: literals terminated, single-line) every source token's
                             recorded span is the span of its spelling in the input;
    - [C18_balanced]         with indentation in multiples of four ([aligned]) Indent and
                             Dedent tokens balance;
    - [C18_single_eof]       exactly one Eof token, on every accepted input.
    Refuted parts (known findings, witnesses evaluated below): D18, D27, D28, D24.
    Not proved here: that the Eof token is the LAST token; spans of tokens of interpolated
    expressions; `relex` (spelling a token sequence and lexing it back) - correspondence only. *)
From Coq Require Import List Ascii ZArith String.
From MambaModel Require Import model.LexTok gen.LexTables model.Lex proofs.LexProps.
Import ListNotations.
Local Open Scope Z_scope.

Theorem C18_scan_exact :
  forall c r t rest, scan c r = STok t rest -> t <> MNL -> spell t ++ rest = c :: r.
Proof. exact scan_exact. Qed.

Theorem C18_positions_track :
  forall s tls,
    clean (run_fuel s) s = true -> run_tls s = Some tls ->
    Forall (fun l => synthetic (ltok l) = true \/ is_docstr (ltok l) = true \/ tok_ok s l)
           (map top tls).
Proof. exact positions_exact. Qed.

Theorem C18_balanced :
  forall s tls,
    aligned (run_fuel s) s state0 = true -> run_tls s = Some tls ->
    cnt is_indent (map top tls) = cnt is_dedent (map top tls).
Proof. exact balanced. Qed.

Theorem C18_single_eof :
  forall s tls, run_tls s = Some tls -> cnt is_eof (map top tls) = 1.
Proof. exact single_eof. Qed.

Theorem C18_tokenize_is_run :
  forall s ts, tokenize s = LexOk ts <-> exists tls, run_tls s = Some tls /\ ts = flatten tls.
Proof. exact tokenize_run. Qed.

(** ** Non-vacuity: a nested program is accepted, clean and aligned *)
Definition sample : str :=
  s "def f(x: Int) -> Int =>
    if x >= 10 then
        return ""a{x + 1}b"" # c
    x << 2

print(f(1.5), 2E3, 1..3)
".
Example sample_clean : clean (run_fuel sample) sample = true.
Proof. vm_compute. reflexivity. Qed.
Example sample_aligned : aligned (run_fuel sample) sample state0 = true.
Proof. vm_compute. reflexivity. Qed.
Example sample_accepted : exists tls, run_tls sample = Some tls /\ (List.length tls > 40)%nat.
Proof. eexists. split; [vm_compute; reflexivity | vm_compute; repeat constructor]. Qed.

(** ** Refutations of the full statement (known findings) *)

Definition tops_of (s : str) : list lex :=
  match run_tls s with Some tls => map top tls | None => [] end.

(** D18: indentation that is not a multiple of four unbalances the stream. *)
Theorem C18_balanced_refuted :
  exists s, cnt is_indent (tops_of s) <> cnt is_dedent (tops_of s).
Proof. exists (s "a
    b
  c
"). vm_compute. discriminate. Qed.

(** D27: a string containing a line break gets an end column that is not a column of
    its last line (here column 15 of a line of 2 characters). *)
Theorem C18_multiline_refuted :
  exists src l, In l (tops_of src) /\ ltok l = MStr (s "x
y") /\ col (lend l) = 15.
Proof.
  exists (s "def a := ""x
y""
"). eexists. split; [|split].
  - vm_compute. do 3 right. left. reflexivity.
  - reflexivity.
  - reflexivity.
Qed.

(** D28: a doc-string's recorded width is that of [##doc], not of its source text. *)
Theorem C18_docstring_refuted :
  exists src l, In l (tops_of src) /\ ltok l = MDocStr (s "doc")
                /\ col (lend l) - col (lstart l) = 5.
Proof.
  exists (s """""""doc"""""""). eexists. split; [|split].
  - vm_compute. left. reflexivity.
  - reflexivity.
  - reflexivity.
Qed.

(** D24: Indent tokens are stamped with the position of the first token of their line. *)
Theorem C18_indent_stamped_refuted :
  exists src l1 l2, In l1 (tops_of src) /\ In l2 (tops_of src) /\ ltok l1 = MIndent
                    /\ ltok l2 = MId (s "x") /\ lstart l1 = lstart l2.
Proof.
  exists (s "if c then
    x
"). eexists. eexists. split; [|split; [|split; [|split]]].
  - vm_compute. do 4 right. left. reflexivity.
  - vm_compute. do 5 right. left. reflexivity.
  - reflexivity.
  - reflexivity.
  - reflexivity.
Qed.

(* statement pins *)
Check C18_scan_exact :
  forall c r t rest, scan c r = STok t rest -> t <> MNL -> spell t ++ rest = c :: r.
Check C18_positions_track :
  forall s tls, clean (run_fuel s) s = true -> run_tls s = Some tls ->
    Forall (fun l => synthetic (ltok l) = true \/ is_docstr (ltok l) = true \/ tok_ok s l) (map top tls).
Check C18_balanced :
  forall s tls, aligned (run_fuel s) s state0 = true -> run_tls s = Some tls ->
    cnt is_indent (map top tls) = cnt is_dedent (map top tls).
Check C18_single_eof : forall s tls, run_tls s = Some tls -> cnt is_eof (map top tls) = 1.
Print Assumptions C18_scan_exact.
Print Assumptions C18_positions_track.
Print Assumptions C18_balanced.
Print Assumptions C18_single_eof.
