(** * C08 - explicit error handling

    Model: model/Scope.v.  A Raise event carries the classes that guard it lexically: the arms of the
    enclosing handles (for the guarded statement only) and the `raise [..]` of the enclosing
    function.  [raise_ok]: inside a function body one of them is an ancestor of the raised class. *)
From Coq Require Import List Bool Arith.
Import ListNotations.
From MambaModel Require Import model.Scope proofs.ScopeProps proofs.ScopeWitness.

(** The full statement is false of the code, in four ways. *)
Theorem C08_sound_refuted : exists T p, unguarded T p.
Proof. exact ScopeWitness.C08_sound_refuted. Qed.

(** D19: the declared raises of a method call are never checked *)
Theorem C08_method_raises_unchecked : unguarded (tabs_of ct1 [(2, [1])] [] p_method) p_method.
Proof. exact ScopeWitness.C08_method_raises_unchecked. Qed.
(** D50: after a handle its classes stay caught for the rest of the block *)
Theorem C08_leak_after_handle : unguarded (tabs_of ct1 [] [] p_leak_after) p_leak_after.
Proof. exact ScopeWitness.C08_leak_after_handle. Qed.
(** D51: the arms of a handle are protected by that same handle *)
Theorem C08_arm_protected_by_own_handle : unguarded (tabs_of ct1 [] [] p_leak_arm) p_leak_arm.
Proof. exact ScopeWitness.C08_arm_protected_by_own_handle. Qed.
(** D52: a function body inherits the caught set of its definition point *)
Theorem C08_top_level_handle_leaks_into_functions : unguarded (tabs_of ct1 [] [] p_leak_fun) p_leak_fun.
Proof. exact ScopeWitness.C08_top_level_handle_leaks_into_functions. Qed.

(** [handle_restores]: false of the code, true of the repaired threading. *)
Theorem C08_handle_restores_refuted :
  exists T e g x hs e' g',
    check_stmt T as_is e g (SHandle x hs) = Ok (e', g') /\ e_caught e' <> e_caught e.
Proof. exact ScopeWitness.handle_restores_refuted. Qed.

Theorem C08_handle_restores_strict :
  forall T md e g x hs e' g',
    m_restore md = true ->
    check_stmt T md e g (SHandle x hs) = Ok (e', g') ->
    e_caught e' = e_caught e /\ e_in_fun e' = e_in_fun e.
Proof. exact ScopeWitness.handle_restores_strict. Qed.

(** The repaired threading ([check_program T repaired]: restore after handle, own declared raises per
    function, method raises checked) satisfies the full statement for every program ... *)
Theorem C08_sound_strict :
  forall T p e g t o,
    check_program T repaired p = Ok (e, g) -> ssruns T false [] p t o ->
    all_events (raise_ok (t_cls T)) [[]] [] t.
Proof. exact ScopeProps.C08_sound_strict. Qed.

(** ... so the code satisfies it outside the known class = the programs on which the two differ. *)
Theorem C08_sound_outside_known :
  forall T p e g e2 g2 t o,
    check_program T repaired p = Ok (e2, g2) ->
    check_program T as_is p = Ok (e, g) -> ssruns T false [] p t o ->
    all_events (raise_ok (t_cls T)) [[]] [] t.
Proof. exact ScopeWitness.C08_sound_outside_known. Qed.

(** Only descendants of Exception can be declared, at every nesting depth (code as it is). *)
Theorem C08_only_exceptions_declared :
  forall T,
  (forall s strict e g e' g', check_stmt T strict e g s = Ok (e', g') ->
     Forall (fun c => ancestor (t_cls T) EXC c) (declared_stmt s)) /\
  (forall ss strict e g e' g', check_stmts T strict e g ss = Ok (e', g') ->
     Forall (fun c => ancestor (t_cls T) EXC c) (declared_stmts ss)).
Proof. exact ScopeWitness.only_exceptions_declared. Qed.

(** [has_parent] with fuel = size of the class table only answers "yes" for real ancestors *)
Theorem C08_has_parent_sound :
  forall ct o fuel c, has_parent fuel ct c o = HpT -> ancestor ct o c.
Proof. exact ScopeProps.has_parent_sound. Qed.

Example C08_example :
  verdict_program ct1 [] [] p_example = VAccept /\ verdict_strict ct1 [] [] p_example = VAccept.
Proof. split; vm_compute; reflexivity. Qed.
Example C08_known_class_contains_witnesses :
  verdict_strict ct1 [] [] p_leak_after = VReject KUnhandled /\
  verdict_strict ct1 [] [] p_leak_arm = VReject KUnhandled /\
  verdict_strict ct1 [] [] p_leak_fun = VReject KUnhandled /\
  verdict_strict ct1 [(2, [1])] [] p_method = VReject KUnhandled.
Proof. exact ScopeWitness.known_class_contains_witnesses. Qed.

Check C08_sound_refuted : exists T p, unguarded T p.
Check C08_sound_strict :
  forall T p e g t o,
    check_program T repaired p = Ok (e, g) -> ssruns T false [] p t o ->
    all_events (raise_ok (t_cls T)) [[]] [] t.
Check C08_sound_outside_known :
  forall T p e g e2 g2 t o,
    check_program T repaired p = Ok (e2, g2) ->
    check_program T as_is p = Ok (e, g) -> ssruns T false [] p t o ->
    all_events (raise_ok (t_cls T)) [[]] [] t.
Check C08_handle_restores_refuted :
  exists T e g x hs e' g',
    check_stmt T as_is e g (SHandle x hs) = Ok (e', g') /\ e_caught e' <> e_caught e.
Print Assumptions C08_sound_refuted.
Print Assumptions C08_method_raises_unchecked.
Print Assumptions C08_leak_after_handle.
Print Assumptions C08_arm_protected_by_own_handle.
Print Assumptions C08_top_level_handle_leaks_into_functions.
Print Assumptions C08_handle_restores_refuted.
Print Assumptions C08_handle_restores_strict.
Print Assumptions C08_sound_strict.
Print Assumptions C08_sound_outside_known.
Print Assumptions C08_only_exceptions_declared.
Print Assumptions C08_has_parent_sound.
