(** * C08 - explicit error handling

    Model: model/Scope.v.  [check_program T restored] is the code as it is (since the repair
    c08_handle_restores: the caught set is put back after a handle and for its arms, a function body
    starts from its own declared raises); [repaired] additionally checks the declared raises of method
    calls - what the property demands; [as_is] is the rule set BEFORE the repair.
    A Raise event carries the classes that guard it lexically: the arms of the enclosing handles (for
    the guarded statement only) and the `raise [..]` of the enclosing function.  [raise_ok]: inside a
    function body one of them is an ancestor of the raised class. *)
From Coq Require Import List Bool Arith.
Import ListNotations.
From MambaModel Require Import model.Scope proofs.ScopeProps proofs.ScopeWitness proofs.ScopeModes.

(** The full statement is still false of the code: the declared raises of a METHOD call are never
    checked [D19]. *)
Theorem C08_sound_refuted : exists T p, unguarded_in restored T p.
Proof. exact ScopeWitness.C08_sound_refuted_restored. Qed.

Theorem C08_method_raises_unchecked :
  unguarded_in restored (tabs_of ct1 [(2, [1])] [] p_method) p_method.
Proof. exact (ScopeWitness.C08_method_raises_unchecked_in restored eq_refl). Qed.

(** Outside that class (no called method declares a raise) the code satisfies the full statement,
    for every program: every raise inside a function body is guarded by an ancestor class. *)
Theorem C08_sound_outside_known :
  forall T p e g t o,
    nm_stmts (t_meth T) p = true ->
    check_program T restored p = Ok (e, g) -> ssruns T false [] p t o ->
    all_events (raise_ok (t_cls T)) [[]] [] t.
Proof. exact ScopeModes.C08_sound_restored. Qed.

(** ... because there the code and the demanded rule set are the same function *)
Theorem C08_restored_is_repaired_outside_known :
  forall T ss e g, nm_stmts (t_meth T) ss = true ->
    check_stmts T restored e g ss = check_stmts T repaired e g ss.
Proof. intros T. exact (proj1 (proj2 (ScopeModes.stmt_modes T))). Qed.

(** The demanded rule set satisfies the full statement for every program. *)
Theorem C08_sound_strict :
  forall T p e g t o,
    check_program T repaired p = Ok (e, g) -> ssruns T false [] p t o ->
    all_events (raise_ok (t_cls T)) [[]] [] t.
Proof. exact ScopeProps.C08_sound_strict. Qed.

(** [handle_restores]: after a handle the caught set (and the in-function flag) is the one from before
    it; together with [check_harms] being run on that restored environment this says that the arms are
    not protected by their own handle.  Holds of the code (any mode with m_restore = true). *)
Theorem C08_handle_restores :
  forall T e g x hs e' g',
    check_stmt T restored e g (SHandle x hs) = Ok (e', g') ->
    e_caught e' = e_caught e /\ e_in_fun e' = e_in_fun e.
Proof. intros T e g x hs e' g'. exact (ScopeWitness.handle_restores_strict T restored e g x hs e' g' eq_refl). Qed.

Theorem C08_handle_restores_any_restoring_mode :
  forall T md e g x hs e' g',
    m_restore md = true ->
    check_stmt T md e g (SHandle x hs) = Ok (e', g') ->
    e_caught e' = e_caught e /\ e_in_fun e' = e_in_fun e.
Proof. exact ScopeWitness.handle_restores_strict. Qed.

(** Only descendants of Exception can be declared, at every nesting depth. *)
Theorem C08_only_exceptions_declared :
  forall T,
  (forall s strict e g e' g', check_stmt T strict e g s = Ok (e', g') ->
     Forall (fun c => ancestor (t_cls T) EXC c) (declared_stmt s)) /\
  (forall ss strict e g e' g', check_stmts T strict e g ss = Ok (e', g') ->
     Forall (fun c => ancestor (t_cls T) EXC c) (declared_stmts ss)).
Proof. exact ScopeWitness.only_exceptions_declared. Qed.

(** [has_parent] with fuel = size of the class table only answers "yes" for real ancestors *)
Theorem C08_has_parent_sound :
  forall ct o fuel c, has_parent fuel ct c o = HpT -> ancestor ct o c.
Proof. exact ScopeProps.has_parent_sound. Qed.

(** ** The rule set before the repair (kept: the check recognises a return to it)
    D50 statements after a handle stayed protected, D51 arms were protected by their own handle,
    D52 function bodies inherited the caught set of their definition point. *)
Theorem C08_old_leak_after_handle : unguarded_in as_is (tabs_of ct1 [] [] p_leak_after) p_leak_after.
Proof. exact ScopeWitness.C08_leak_after_handle. Qed.
Theorem C08_old_arm_protected_by_own_handle : unguarded_in as_is (tabs_of ct1 [] [] p_leak_arm) p_leak_arm.
Proof. exact ScopeWitness.C08_arm_protected_by_own_handle. Qed.
Theorem C08_old_top_level_handle_leaks_into_functions :
  unguarded_in as_is (tabs_of ct1 [] [] p_leak_fun) p_leak_fun.
Proof. exact ScopeWitness.C08_top_level_handle_leaks_into_functions. Qed.
Theorem C08_old_handle_restores_refuted :
  exists T e g x hs e' g',
    check_stmt T as_is e g (SHandle x hs) = Ok (e', g') /\ e_caught e' <> e_caught e.
Proof. exact ScopeWitness.handle_restores_refuted. Qed.

(** the code as it is rejects the three old witnesses, and still accepts the method call *)
Example C08_old_witnesses_now_rejected :
  verdict_restored ct1 [] [] p_leak_after = VReject KUnhandled /\
  verdict_restored ct1 [] [] p_leak_arm = VReject KUnhandled /\
  verdict_restored ct1 [] [] p_leak_fun = VReject KUnhandled /\
  verdict_restored ct1 [(2, [1])] [] p_method = VAccept.
Proof. exact ScopeWitness.leaks_rejected_restored. Qed.

Example C08_example :
  verdict_restored ct1 [] [] p_example = VAccept /\ verdict_strict ct1 [] [] p_example = VAccept /\
  nm_stmts [] p_example = true.
Proof. repeat split; vm_compute; reflexivity. Qed.

Check C08_sound_refuted : exists T p, unguarded_in restored T p.
Check C08_sound_outside_known :
  forall T p e g t o,
    nm_stmts (t_meth T) p = true ->
    check_program T restored p = Ok (e, g) -> ssruns T false [] p t o ->
    all_events (raise_ok (t_cls T)) [[]] [] t.
Check C08_sound_strict :
  forall T p e g t o,
    check_program T repaired p = Ok (e, g) -> ssruns T false [] p t o ->
    all_events (raise_ok (t_cls T)) [[]] [] t.
Check C08_handle_restores :
  forall T e g x hs e' g',
    check_stmt T restored e g (SHandle x hs) = Ok (e', g') ->
    e_caught e' = e_caught e /\ e_in_fun e' = e_in_fun e.
Print Assumptions C08_sound_refuted.
Print Assumptions C08_method_raises_unchecked.
Print Assumptions C08_sound_outside_known.
Print Assumptions C08_restored_is_repaired_outside_known.
Print Assumptions C08_sound_strict.
Print Assumptions C08_handle_restores.
Print Assumptions C08_handle_restores_any_restoring_mode.
Print Assumptions C08_only_exceptions_declared.
Print Assumptions C08_has_parent_sound.
Print Assumptions C08_old_leak_after_handle.
Print Assumptions C08_old_arm_protected_by_own_handle.
Print Assumptions C08_old_top_level_handle_leaks_into_functions.
Print Assumptions C08_old_handle_restores_refuted.
