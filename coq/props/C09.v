(** * C09 - definite assignment

    Model: model/Scope.v, the environment threading of the constraint generator ([check_program T
    restored] is the code as it is).  [ssruns T false [] p t o]: t is the event trace of one execution
    path of the skeleton program p.  The scope stack replayed over a trace ([all_events]) gives the
    lexically visible definition of a name at every event. *)
From Coq Require Import List Bool Arith.
Import ListNotations.
From MambaModel Require Import model.Scope proofs.ScopeProps proofs.ScopeWitness proofs.ScopeLex.

(** Soundness for variables, every program: on every path every read of a variable sees a visible
    definition, hence is preceded on that path by a Define of that name. *)
Theorem C09_sound_vars :
  forall T strict p e g t o,
    check_program T strict p = Ok (e, g) -> ssruns T false [] p t o ->
    all_events read_ok [[]] [] t /\ preceded [] t.
Proof. exact ScopeProps.C09_sound_vars. Qed.

(** The full statement (function names included) is false of the code: a top-level call placed
    before the `def` of its function is accepted [D12]. *)
Theorem C09_sound_refuted :
  exists T p e g t o,
    check_program T restored p = Ok (e, g) /\ ssruns T false [] p t o /\
    ~ all_events fread_ok [[]] [] t.
Proof. exact ScopeWitness.C09_sound_refuted. Qed.

(** Outside that class (every top-level call comes after the definition of its function in the
    same or an enclosing block) the full statement holds. *)
Theorem C09_sound_outside_known :
  forall T strict p e g t o,
    ord_stmts [] p = true ->
    check_program T strict p = Ok (e, g) -> ssruns T false [] p t o ->
    all_events read_ok [[]] [] t /\ preceded [] t /\ all_events fread_ok [[]] [] t.
Proof. exact ScopeWitness.C09_sound_outside_known. Qed.

(** Completeness, lexical form: a defined name can be read; a definition makes exactly its names
    visible with its own mutability (shadowing gives the newest definition); a visible name stays
    visible across every later statement of the block, whatever that statement contains. *)
Theorem C09_read_defined_ok :
  forall T strict e g x, WF e -> lookup e x <> None -> check_expr T strict e g (ERead x) = None.
Proof. exact ScopeWitness.read_defined_ok. Qed.

Theorem C09_definition_visible :
  forall T strict e g m p init e1 g1 x,
    check_simple T strict e g (XDef m p init) = Ok (e1, g1) ->
    lookup e1 x = if mem x p then Some m else lookup e x.
Proof. exact ScopeWitness.definition_visible. Qed.

Theorem C09_visible_preserved :
  forall T,
  (forall s strict e g e' g' x, check_stmt T strict e g s = Ok (e', g') ->
     lookup e x <> None -> lookup e' x <> None) /\
  (forall ss strict e g e' g' x, check_stmts T strict e g ss = Ok (e', g') ->
     lookup e x <> None -> lookup e' x <> None).
Proof. exact ScopeWitness.visible_preserved. Qed.

(** Completeness, lexical form, for whole programs.  [lx_stmts] (proofs/ScopeLex.v) is plain lexical
    scoping on a stack of frames: a use is fine iff a definition of the name comes earlier in the same
    or an enclosing block (newest first; function bodies see the definition point and the parameters;
    binders and loop variables live in their construct).  Every accepted program is lexically fine, and
    a program is rejected as "undefined" ONLY IF the reference finds an undefined use: a read or write
    preceded by a definition in the same or an enclosing block is never the reason of a rejection. *)
Theorem C09_complete_lexical :
  forall T md p,
    match check_program T md p with
    | Ok _ => isok (lx_stmts [[]] p) = true
    | Rej KUndef => lx_stmts [[]] p = None
    | Rej _ => True
    end.
Proof. exact ScopeLex.lexical_agreement. Qed.

(** Completeness, path form ("defined on all paths"): false of the code.  Both branches of an if
    define the name, every path defines it before the read, the program is rejected [D13]. *)
Theorem C09_complete_paths_refuted :
  exists T p,
    (forall t o, ssruns T false [] p t o -> preceded [] t) /\
    check_program T restored p = Rej KUndef.
Proof. exact ScopeWitness.C09_complete_paths_refuted. Qed.

(** the environment lookup used above is what the code's [get_var] computes *)
Theorem C09_lookup_is_get_var :
  forall e g x, WF e -> get_var e g x = lookup e x.
Proof. exact ScopeProps.get_var_lookup. Qed.

(** non-vacuity *)
Example C09_example :
  verdict_program ct1 [] [] p_example = VAccept /\ ord_stmts [] p_example = true.
Proof. split; vm_compute; reflexivity. Qed.

Check C09_sound_vars :
  forall T strict p e g t o,
    check_program T strict p = Ok (e, g) -> ssruns T false [] p t o ->
    all_events read_ok [[]] [] t /\ preceded [] t.
Check C09_sound_refuted :
  exists T p e g t o,
    check_program T restored p = Ok (e, g) /\ ssruns T false [] p t o /\ ~ all_events fread_ok [[]] [] t.
Check C09_sound_outside_known :
  forall T strict p e g t o,
    ord_stmts [] p = true ->
    check_program T strict p = Ok (e, g) -> ssruns T false [] p t o ->
    all_events read_ok [[]] [] t /\ preceded [] t /\ all_events fread_ok [[]] [] t.
Check C09_complete_lexical :
  forall T md p,
    match check_program T md p with
    | Ok _ => isok (lx_stmts [[]] p) = true
    | Rej KUndef => lx_stmts [[]] p = None
    | Rej _ => True
    end.
Check C09_complete_paths_refuted :
  exists T p,
    (forall t o, ssruns T false [] p t o -> preceded [] t) /\ check_program T restored p = Rej KUndef.
Print Assumptions C09_sound_vars.
Print Assumptions C09_sound_refuted.
Print Assumptions C09_sound_outside_known.
Print Assumptions C09_read_defined_ok.
Print Assumptions C09_definition_visible.
Print Assumptions C09_visible_preserved.
Print Assumptions C09_complete_paths_refuted.
Print Assumptions C09_complete_lexical.
Print Assumptions C09_lookup_is_get_var.
