(** * C06 - null safety: None and T? never flow into non-nullable positions

    Rule level ([T? >= T], [T? >= None], not [T >= T?], not [T >= None]): [C06_nullable_rule] of props/C20.v, over
    model/Types.v, for every acyclic class table and every non-generic class T.  Re-exported here as [C06_rule].

    Position level (this file), over the mini-language of model/Typing.v (see props/C05.v):
      [C06_null_flow]       in a conforming program (equivalently: accepted by the repaired checker) every obligation
                            the traversal emits at a consuming position - argument of a function, constructor or
                            method, operand and receiver of an operator or method, initialiser, new value of a
                            variable or field, returned value, default value, value of a handle arm - whose required
                            type has only non-nullable, non-Any members is met by a type that is neither nullable
                            nor None; the receiver of every field access / assignment is non-nullable; range bounds
                            are non-nullable
      [C06_null_flow_impl_outside_known]   the same for programs the implementation's rules accept, outside the
                            known classes
      [C06_nullable_accepts] [C06_quest_is_nonnull]    the positive half: T and None are accepted where T? is
                            expected, and [x ? d] with [x : T?], [d : T] is accepted as T
      [C06_null_flow_refuted]   with the implementation's rules a T? reaches a T position: field access on a T?
                            receiver, [x ? None] as an Int, a T? range bound (witness programs, each confirmed on
                            the real code by lib/vlib/c06.py)
      [C06_rejects_none_for_nullable_formal]   and None is refused for a T? formal of a function *)
From Coq Require Import List String Bool.
From MambaModel Require Import model.Types model.TypingSig gen.Stubs gen.StubSigs model.Typing
  proofs.TypesProps proofs.TypingProps proofs.TypingWitness props.C20.
Import ListNotations.
Local Open Scope string_scope.

Definition impl : quirks := impl_quirks call_params_strip_nullable.

Definition C06_rule := C06_nullable_rule.

Theorem C06_nonnull_accepted : forall cx, ctx_ok cx = true -> acyclic cx -> forall T t,
  plainN cx T = true -> plain cx t = true -> requires_nonnull T = true -> sub cx T t -> nonnull t = true.
Proof. exact nonnull_accepted. Qed.

Theorem C06_null_flow : forall cx, ctx_ok cx = true -> acyclic cx -> forall sigs funs fields p l,
  conforms_with cx sigs funs fields p -> gen_prog cx sigs funs fields p = Some l ->
  (forall k T t lo, In (OSub k T t lo) l -> plainN cx T = true -> plain cx t = true ->
                    requires_nonnull T = true -> nonnull t = true) /\
  (forall t lo, In (OFieldRecv t lo) l -> nonnull t = true) /\
  (forall pth t lo, In (ORange pth t lo) l -> plainN cx [tInt] = true -> plain cx t = true -> nonnull t = true).
Proof. exact null_flow. Qed.

(** for the programs the implementation's rules accept, outside the known classes *)
Theorem C06_null_flow_impl_outside_known : forall p l,
  ctx_ok (cx_of generated p) = true -> acyclic (cx_of generated p) ->
  known_free generated stub_sigs call_params_strip_nullable p = true ->
  check generated stub_sigs impl p = true -> obligations generated stub_sigs p = Some l ->
  (forall k T t lo, In (OSub k T t lo) l -> plainN (cx_of generated p) T = true -> plain (cx_of generated p) t = true ->
                    requires_nonnull T = true -> nonnull t = true) /\
  (forall t lo, In (OFieldRecv t lo) l -> nonnull t = true).
Proof. exact (null_flow_impl_outside_known generated stub_sigs call_params_strip_nullable). Qed.

Theorem C06_nullable_accepts : forall cx, ctx_ok cx = true -> acyclic cx -> forall c,
  is_plain_class cx c = true -> c <> NONE ->
  sub cx [TN true c []] (tcls c) /\ sub cx [TN true c []] tNone /\ sub cx [tcls c] (tcls c).
Proof. exact nullable_accepts. Qed.

Theorem C06_quest_is_nonnull : forall cx, ctx_ok cx = true -> acyclic cx -> forall sigs funs fields env x d c,
  is_plain_class cx c = true -> c <> NONE ->
  has_type cx sigs funs fields env x (TN true c []) -> has_type cx sigs funs fields env d (tcls c) ->
  has_type cx sigs funs fields env (EQuest x d) (tcls c).
Proof. exact quest_is_nonnull. Qed.

(** the hypotheses are satisfiable: the regenerated table with the classes of the demo program *)
Example C06_demo_table : stubs_wf (cx_of generated demo) = true /\ plain (cx_of generated demo) (tcls "P") = true.
Proof. split; vm_compute; reflexivity. Qed.

Theorem C06_null_flow_refuted :
  Forall (fun p => check generated stub_sigs impl p = true /\ ~ conforms generated stub_sigs p) [w_field; w_quest; w_range] /\
  (exists l, obligations generated stub_sigs w_field = Some l /\ In (OFieldRecv (TN true "C" []) false) l) /\
  (exists l, obligations generated stub_sigs w_quest = Some l /\ In (OSub KInit [tInt] (TN true "Int" []) true) l) /\
  (exists l, obligations generated stub_sigs w_range = Some l /\ In (ORange true (TN true "Int" []) false) l).
Proof. exact null_flow_refuted. Qed.

Theorem C06_rejects_none_for_nullable_formal :
  call_params_strip_nullable = true ->
  check generated stub_sigs impl w_param = false /\ conforms generated stub_sigs w_param.
Proof. exact rejects_conforming_param. Qed.

(* statement pins *)
Check C06_null_flow : forall cx, ctx_ok cx = true -> acyclic cx -> forall sigs funs fields p l,
  conforms_with cx sigs funs fields p -> gen_prog cx sigs funs fields p = Some l ->
  (forall k T t lo, In (OSub k T t lo) l -> plainN cx T = true -> plain cx t = true ->
                    requires_nonnull T = true -> nonnull t = true) /\
  (forall t lo, In (OFieldRecv t lo) l -> nonnull t = true) /\
  (forall pth t lo, In (ORange pth t lo) l -> plainN cx [tInt] = true -> plain cx t = true -> nonnull t = true).
Check C06_quest_is_nonnull : forall cx, ctx_ok cx = true -> acyclic cx -> forall sigs funs fields env x d c,
  is_plain_class cx c = true -> c <> NONE ->
  has_type cx sigs funs fields env x (TN true c []) -> has_type cx sigs funs fields env d (tcls c) ->
  has_type cx sigs funs fields env (EQuest x d) (tcls c).
Print Assumptions C06_rule.
Print Assumptions C06_nonnull_accepted.
Print Assumptions C06_null_flow.
Print Assumptions C06_null_flow_impl_outside_known.
Print Assumptions C06_nullable_accepts.
Print Assumptions C06_quest_is_nonnull.
Print Assumptions C06_null_flow_refuted.
Print Assumptions C06_rejects_none_for_nullable_formal.
