(** * C15 - renaming user identifiers commutes with transpilation

    Over the model [Convert.conv]/[Convert.gen] of the generation stage (all node kinds, classes
    included), for EVERY typed AST, state and registered imports, and for every renaming [rho] of
    identifiers that is injective and fixes the names of [Rename.reserved]:
    - [C15_conv_equivariant]: converting the renamed tree gives the renamed result
      ([ren_ast] renames identifiers, called names, class/type names and every recorded type;
      [ren_core] renames [Id], [Type_], function names, imported names, and the alias string of
      a [NewType] call; [rfs] is the same renaming inside interpolated-string text);
    - [C15_gen_equivariant]: the emitted module of the renamed program is the renamed module;
    - [C15_verdict]: generation fails for the renamed tree iff it fails for the original.
    [reserved] is what the proof forces: the Mamba->Python name table (both columns), the operator
    method names, [range slice Tuple Callable Union Any Optional self __init__ size __size__ NewType
    ABC abstractmethod math] and the non-identifier [@]; [typing], [abc], [init], [super], [None],
    [Exception] are NOT in it.  [C15_reserved_needed]: no member can be dropped.
    Outside [reserved] the statement is false: [C15_size_refuted] (D14), [C15_builtin_spelling_refuted],
    [C15_import_capture_refuted] (D20), and - for the order in which the checker hands over union
    members - [C15_union_order_refuted].
    NOT covered by a theorem: that the checker produces [ren_ast rho a] for the renamed source (the
    checker is not modelled); lib/vlib/c15.py compares the typed ASTs and the emitted Python. *)
From Coq Require Import List String.
From MambaModel Require Import model.Core gen.Names model.Convert model.Rename
  proofs.RenameConv proofs.RenameWitness.
Import ListNotations.
Local Open Scope string_scope.

Theorem C15_conv_equivariant :
  forall rho rfs, injective rho -> fixes rho reserved ->
  forall a st i, imports_fixed rho rfs i ->
    conv (ren_ast rho rfs a) (ren_state rho rfs st) (ren_imports rho rfs i)
    = option_map (ren_result rho rfs) (conv a st i).
Proof. exact conv_equivariant. Qed.

(** without any hypothesis on the imports: same registered imports, renamed value *)
Theorem C15_conv_equivariant_value :
  forall rho rfs, injective rho -> fixes rho reserved ->
  forall a st i,
    conv (ren_ast rho rfs a) (ren_state rho rfs st) i
    = option_map (fun r => (ren_core rho rfs (fst r), snd r)) (conv a st i).
Proof. exact conv_equivariant_value. Qed.

Theorem C15_imports_stay_fixed :
  forall rho rfs, injective rho -> fixes rho reserved ->
  forall a st i c j, imports_fixed rho rfs i -> conv a st i = Some (c, j) -> imports_fixed rho rfs j.
Proof. exact conv_keeps_imports_fixed. Qed.

Theorem C15_gen_equivariant :
  forall rho rfs, injective rho -> fixes rho reserved ->
  forall ann a, gen ann (ren_ast rho rfs a) = option_map (ren_core rho rfs) (gen ann a).
Proof. exact gen_equivariant. Qed.

Theorem C15_verdict :
  forall rho rfs, injective rho -> fixes rho reserved ->
  forall ann a, gen ann (ren_ast rho rfs a) = None <-> gen ann a = None.
Proof. exact gen_verdict. Qed.

(** the hypotheses hold of [imports0] and of a renaming that moves a user name *)
Example C15_imports0_fixed : forall rho rfs, imports_fixed rho rfs imports0.
Proof. exact imports0_fixed. Qed.
Example C15_hypotheses_satisfiable : injective rho_ok /\ fixes rho_ok reserved.
Proof. exact rho_ok_good. Qed.
Example C15_nontrivial :
  exists g, gen true sample = Some g /\ gen true (ren_ast rho_ok idf sample) = Some (ren_core rho_ok idf g)
            /\ ren_core rho_ok idf g <> g.
Proof. exact sample_renamed_differs. Qed.

(** ** outside the reserved set *)
Theorem C15_size_refuted :
  exists rho a,
    injective rho /\ (forall s, In s reserved -> s <> "size" -> rho s = s) /\
    gen false (ren_ast rho idf a) <> option_map (ren_core rho idf) (gen false a).
Proof. exact size_refuted. Qed.

Theorem C15_builtin_spelling_refuted :
  exists rho a,
    injective rho /\ (forall s, In s reserved -> s <> "List" -> rho s = s) /\
    gen false (ren_ast rho idf a) <> option_map (ren_core rho idf) (gen false a).
Proof. exact builtin_spelling_refuted. Qed.

Theorem C15_import_capture_refuted :
  exists rho a,
    injective rho /\ (forall s, In s reserved -> s <> "math" -> rho s = s) /\
    gen false (ren_ast rho idf a) <> option_map (ren_core rho idf) (gen false a).
Proof. exact import_capture_refuted. Qed.

Theorem C15_no_capture_refuted :
  exists rest, gen false (ren_ast (swap "math" "m") idf math_prog)
               = Some (Block (Import None [Id "math"] [] :: VarDef (Id "math") None (Some (Int "3")) :: rest)).
Proof. exact no_capture_refuted. Qed.

Theorem C15_union_order_refuted :
  exists rho n,
    injective rho /\ fixes rho reserved /\ (match n with NM ms => sort_tns ms = ms end) /\
    fst (nm_to_py (ren_nm_sorted rho n) imports0) <> ren_core rho idf (fst (nm_to_py n imports0)).
Proof. exact union_order_refuted. Qed.

(** [reserved] is exact: for EVERY member, exchanging it with a fresh name (a renaming that is injective
    and fixes all the other members) breaks the equation on one fixed program that converts *)
Theorem C15_reserved_needed :
  forall r, In r reserved ->
    injective (swap r fresh) /\ (forall s, In s reserved -> s <> r -> swap r fresh s = s) /\
    gen true (ren_ast (swap r fresh) idf univ) <> option_map (ren_core (swap r fresh) idf) (gen true univ).
Proof. exact reserved_needed. Qed.

Check C15_conv_equivariant :
  forall rho rfs, injective rho -> fixes rho reserved ->
  forall a st i, imports_fixed rho rfs i ->
    conv (ren_ast rho rfs a) (ren_state rho rfs st) (ren_imports rho rfs i)
    = option_map (ren_result rho rfs) (conv a st i).
Check C15_gen_equivariant :
  forall rho rfs, injective rho -> fixes rho reserved ->
  forall ann a, gen ann (ren_ast rho rfs a) = option_map (ren_core rho rfs) (gen ann a).
Check C15_verdict :
  forall rho rfs, injective rho -> fixes rho reserved ->
  forall ann a, gen ann (ren_ast rho rfs a) = None <-> gen ann a = None.
Check C15_size_refuted :
  exists rho a,
    injective rho /\ (forall s, In s reserved -> s <> "size" -> rho s = s) /\
    gen false (ren_ast rho idf a) <> option_map (ren_core rho idf) (gen false a).
Print Assumptions C15_conv_equivariant.
Print Assumptions C15_conv_equivariant_value.
Print Assumptions C15_imports_stay_fixed.
Print Assumptions C15_gen_equivariant.
Print Assumptions C15_verdict.
Print Assumptions C15_size_refuted.
Print Assumptions C15_builtin_spelling_refuted.
Print Assumptions C15_import_capture_refuted.
Print Assumptions C15_union_order_refuted.
Print Assumptions C15_reserved_needed.
