(** * C05 - declared signatures are enforced, both directions

    [p] ranges over ALL programs of the mini-language of model/Typing.v: classes (optionally with a parent) with typed
    fields and methods, functions with annotated parameters / defaults / return types, nullable types, operators
    through the dunder signatures of the regenerated stub table, calls, method calls, constructor calls, field access
    and assignment, [x ? d], if-expressions, f-strings, definitions (annotated or inferred), reassignment, print,
    if / while / for / match / handle, return, raise.

    [conforms] is the declarative relation (one rule per construct; subtyping is [Types.super], the relation proved
    a sound order in props/C20.v); [check q] is the model of the checker: a traversal that emits one obligation
    [expected >= actual] per typed use, discharged under the quirks [q].
      [C05_check_iff]            the repaired checker ([noq]) accepts exactly the conforming programs
      [C05_outside_known]        so does the implementation's rule set, on every program none of whose obligations falls
                                 into a known class; [C05_known_*] say what the classes are
      [C05_accepts_nonconforming_refuted] / [C05_rejects_conforming_refuted]   it does not on the witnesses (findings)
      [C05_conforms_local] [C05_nonconforming_anywhere] [C05_local_expr]   context cannot mask a violation
      [C05_args]                 what "right number of arguments (allowing defaults), each a subtype" means

    The model is tied to the code by the verdict correspondence of lib/vlib/c05.py (implementation vs
    [check impl_quirks] on generated programs and all their single-point mutants) and by the regenerated tables. *)
From Coq Require Import List String Bool.
From MambaModel Require Import model.Types model.TypingSig gen.Stubs gen.StubSigs model.Typing
  proofs.TypingProps proofs.TypingWitness.
Import ListNotations.
Local Open Scope string_scope.

Definition impl : quirks := impl_quirks call_params_strip_nullable.

Theorem C05_check_iff : forall p, check generated stub_sigs noq p = true <-> conforms generated stub_sigs p.
Proof. exact (check_noq_iff generated stub_sigs). Qed.

(** the same for any built-in class table and signature table (the proof does not look at the rows) *)
Theorem C05_check_iff_any_tables :
  forall builtins stubs p, check builtins stubs noq p = true <-> conforms builtins stubs p.
Proof. exact check_noq_iff. Qed.

Theorem C05_outside_known : forall p,
  known_free generated stub_sigs call_params_strip_nullable p = true ->
  (check generated stub_sigs impl p = true <-> conforms generated stub_sigs p).
Proof. exact (outside_known generated stub_sigs call_params_strip_nullable). Qed.

(** the known classes: an obligation is in one iff ... *)
Theorem C05_known_classes : forall cx strip,
  (forall t, in_known cx strip (OFieldRecv t false) = negb (nonnull t)) /\                 (* field of a T? / None receiver *)
  (forall T t, in_known cx strip (OSub KHandleArm T t false) = negb (sup cx T t)) /\      (* handle arm value of another type *)
  (forall T t, in_known cx strip (OSub KParentArg T t false) = negb (sup cx T t)) /\      (* parent constructor argument *)
  (forall r, in_known cx strip (OFallOff r) = negb r) /\                                   (* body can fall off its end *)
  (forall ok, in_known cx strip (OJoin ok) = negb ok) /\                                   (* x ? d with unrelated alternatives *)
  (forall t, in_known cx strip (ORange false t false) = false) /\
  (forall t, in_known cx strip (ORange true t false) = negb (Bool.eqb (sup cx [t] tInt) (sup cx [tInt] t))) /\
  (forall T t, strip = false \/ forallb (fun t => negb (tnull t)) T = true ->
               in_known cx strip (OSub KFunArg T t false) = false) /\                      (* only T? formals of functions *)
  (forall k T t, match k with KFunArg | KHandleArm | KParentArg => False | _ => True end ->
                 in_known cx strip (OSub k T t false) = false) /\
  (forall k T t, in_known cx strip (OSub k T t true) =                                     (* a value that came out of x ? d *)
                 match k with KRecv => sup cx T t | _ => negb (sup cx T t) end).
Proof. exact known_classes. Qed.

Theorem C05_accepts_nonconforming_refuted :
  exists p, check generated stub_sigs impl p = true /\ ~ conforms generated stub_sigs p.
Proof. exact accepts_nonconforming_ex. Qed.

Theorem C05_witnesses :
  Forall (fun p => check generated stub_sigs impl p = true /\ ~ conforms generated stub_sigs p)
         [w_field; w_quest; w_range; w_falloff; w_handle; w_parent].
Proof. exact accepts_nonconforming. Qed.

Theorem C05_rejects_conforming_refuted :
  exists p, check generated stub_sigs impl p = false /\ conforms generated stub_sigs p.
Proof. exists w_loose. exact rejects_conforming_loose. Qed.

Theorem C05_rejects_nullable_formal :
  call_params_strip_nullable = true ->
  check generated stub_sigs impl w_param = false /\ conforms generated stub_sigs w_param.
Proof. exact rejects_conforming_param. Qed.

(** locality *)
Theorem C05_conforms_local : forall p s,
  conforms generated stub_sigs p -> stmt_in_program s p ->
  exists R d1 d2, stmt_ok (cx_of generated p) (sigs_of stub_sigs p) (funs_of stub_sigs p) (fields_of p) R d1 s d2.
Proof. intros p s. apply conforms_local. Qed.

Theorem C05_nonconforming_anywhere : forall p s,
  stmt_in_program s p ->
  (forall R d1 d2, ~ stmt_ok (cx_of generated p) (sigs_of stub_sigs p) (funs_of stub_sigs p) (fields_of p) R d1 s d2) ->
  ~ conforms generated stub_sigs p.
Proof. intros p s. apply nonconforming_anywhere. Qed.

Theorem C05_local_expr : forall cx sigs funs fields d e e' t,
  subexpr e e' -> has_type cx sigs funs fields d e' t -> exists t', has_type cx sigs funs fields d e t'.
Proof. intros cx sigs funs fields d e e' t HS HT. exact (local_expr cx sigs funs fields d e e' HS t HT). Qed.

Theorem C05_stmt_exprs : forall cx sigs funs fields R d s d' e,
  stmt_ok cx sigs funs fields R d s d' -> In e (stmt_exprs s) -> exists d1 t, has_type cx sigs funs fields d1 e t.
Proof. intros cx sigs funs fields R d s d' e H HI. exact (local_stmt_exprs cx sigs funs fields R d s d' e H HI). Qed.

Theorem C05_args : forall cx ps ts,
  args_ok cx ps ts <->
  List.length ts <= List.length ps /\
  (forall i p t, nth_error ps i = Some p -> nth_error ts i = Some t -> exists T, sp_ty p = Some T /\ sub cx T t) /\
  (forall i p, nth_error ps i = Some p -> List.length ts <= i -> sp_default p = true).
Proof. exact args_ok_spec. Qed.

(** non-vacuity: a conforming program outside the known classes that uses most constructs *)
Example C05_demo :
  conforms generated stub_sigs demo /\ check generated stub_sigs impl demo = true /\
  known_free generated stub_sigs call_params_strip_nullable demo = true.
Proof. exact demo_conforms. Qed.

(* statement pins *)
Check C05_check_iff : forall p, check generated stub_sigs noq p = true <-> conforms generated stub_sigs p.
Check C05_outside_known : forall p,
  known_free generated stub_sigs call_params_strip_nullable p = true ->
  (check generated stub_sigs (impl_quirks call_params_strip_nullable) p = true <-> conforms generated stub_sigs p).
Check C05_accepts_nonconforming_refuted :
  exists p, check generated stub_sigs (impl_quirks call_params_strip_nullable) p = true /\ ~ conforms generated stub_sigs p.
Check C05_rejects_conforming_refuted :
  exists p, check generated stub_sigs (impl_quirks call_params_strip_nullable) p = false /\ conforms generated stub_sigs p.
Check C05_nonconforming_anywhere : forall p s,
  stmt_in_program s p ->
  (forall R d1 d2, ~ stmt_ok (cx_of generated p) (sigs_of stub_sigs p) (funs_of stub_sigs p) (fields_of p) R d1 s d2) ->
  ~ conforms generated stub_sigs p.
Print Assumptions C05_check_iff.
Print Assumptions C05_outside_known.
Print Assumptions C05_known_classes.
Print Assumptions C05_witnesses.
Print Assumptions C05_rejects_conforming_refuted.
Print Assumptions C05_conforms_local.
Print Assumptions C05_local_expr.
Print Assumptions C05_args.
