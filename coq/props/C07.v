(** * C07 - immutability

    Model: model/Scope.v.  A Write event is judged against the scope stack replayed over the trace:
    the visible definition of the name must exist and be mutable. *)
From Coq Require Import List Bool Arith.
Import ListNotations.
From MambaModel Require Import model.Scope proofs.ScopeProps proofs.ScopeWitness.

(** Soundness for variables and receivers, every program: no write (plain, tuple, compound) to a
    name whose visible definition is fin, none to an undefined name, and a field is only assigned
    through a visible mutable receiver. *)
Theorem C07_sound_vars :
  forall T strict p e g t o,
    check_program T strict p = Ok (e, g) -> ssruns T false [] p t o ->
    all_events write_ok [[]] [] t /\ all_events recv_ok [[]] [] t.
Proof. exact ScopeProps.C07_sound_vars. Qed.

(** The full statement (fin fields included) is false of the code: the mutability of a field is
    recorded in the Context and never consulted [D11]. *)
Theorem C07_sound_refuted :
  exists T p e g t o,
    check_program T restored p = Ok (e, g) /\ ssruns T false [] p t o /\
    ~ all_events (fldwrite_ok (t_fld T)) [[]] [] t.
Proof. exact ScopeWitness.C07_sound_refuted. Qed.

(** Outside that class (no assignment to a field declared fin) the full statement holds. *)
Theorem C07_sound_outside_known :
  forall T strict p e g t o,
    nf_stmts (t_fld T) p = true ->
    check_program T strict p = Ok (e, g) -> ssruns T false [] p t o ->
    all_events write_ok [[]] [] t /\ all_events (fldwrite_ok (t_fld T)) [[]] [] t.
Proof. exact ScopeWitness.C07_sound_outside_known. Qed.

(** [shadowing_sound]: the `name@offset` map implements lexical shadowing.  After inserting x the
    lookup of x gives the new mutability whatever the builder's global mapping is, every other name
    is untouched; this holds in any environment, in particular in the branch-local copies. *)
Theorem C07_shadowing_sound :
  forall e g m x,
    WF e ->
    let e' := fst (define m (e, g) x) in
    WF e' /\
    get_var e' (snd (define m (e, g) x)) x = Some m /\
    (forall g', get_var e' g' x = Some m) /\
    (forall y g', y <> x -> get_var e' g' y = lookup e y).
Proof. exact ScopeProps.shadowing_sound. Qed.

(** Positive half: reassigning a visible mutable definition is accepted, with := and compound. *)
Theorem C07_mutable_reassign_ok :
  forall T strict e g x rhs,
    WF e -> lookup e x = Some true -> check_expr T strict e g rhs = None ->
    check_simple T strict e g (XAssign [x] rhs) = Ok (e, g) /\
    check_simple T strict e g (XAug x rhs) = Ok (e, g).
Proof. exact ScopeWitness.mutable_reassign_ok. Qed.

(** and the negative half at the level of one statement *)
Theorem C07_fin_or_undefined_reassign_rejected :
  forall T strict e g x rhs,
    WF e -> e_in_class e = false ->
    (lookup e x = Some false -> check_simple T strict e g (XAssign [x] rhs) = Rej KImmut /\
                                check_simple T strict e g (XAug x rhs) = Rej KImmut) /\
    (lookup e x = None -> check_simple T strict e g (XAssign [x] rhs) = Rej KUndef /\
                          check_simple T strict e g (XAug x rhs) = Rej KUndef).
Proof. exact ScopeWitness.fin_or_undefined_reassign_rejected. Qed.

Example C07_example :
  verdict_program ct1 [] [] p_example = VAccept /\ nf_stmts [] p_example = true.
Proof. split; vm_compute; reflexivity. Qed.

Check C07_sound_vars :
  forall T strict p e g t o,
    check_program T strict p = Ok (e, g) -> ssruns T false [] p t o ->
    all_events write_ok [[]] [] t /\ all_events recv_ok [[]] [] t.
Check C07_sound_refuted :
  exists T p e g t o,
    check_program T restored p = Ok (e, g) /\ ssruns T false [] p t o /\
    ~ all_events (fldwrite_ok (t_fld T)) [[]] [] t.
Check C07_sound_outside_known :
  forall T strict p e g t o,
    nf_stmts (t_fld T) p = true ->
    check_program T strict p = Ok (e, g) -> ssruns T false [] p t o ->
    all_events write_ok [[]] [] t /\ all_events (fldwrite_ok (t_fld T)) [[]] [] t.
Print Assumptions C07_sound_vars.
Print Assumptions C07_sound_refuted.
Print Assumptions C07_sound_outside_known.
Print Assumptions C07_shadowing_sound.
Print Assumptions C07_mutable_reassign_ok.
Print Assumptions C07_fin_or_undefined_reassign_rejected.
