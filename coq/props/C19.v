(** * C19 - diagnostics are well-formed and point into the offending file and line

    The theorems are about [model/Diag.v], the executable model of [format_err], [format_location],
    [Position::get_width] and the [Display] impls of [TypeErr], [ParseErr], [UnimplementedErr] and
    [LexErr], with the [usize]/[i32] arithmetic of a debug build written out ([Pan] = the Rust code
    panics).  They quantify over every message, path, source text, cause list and position.

    What the property says of one diagnostic and where it is settled:
    - rendering never fails ............ [C19_render_total] on well-positioned diagnostics; FALSE in general:
                                         [C19_render_total_refuted], [C19_union_invisible_panics]
    - names its file and position ...... [C19_header_names_path_and_position], [C19_decimal_roundtrip]
    - quoted line is verbatim .......... [C19_quoted_line_verbatim]; FALSE beyond line 2^31:
                                         [C19_quoted_line_wraps_refuted]; an empty line is shown as
                                         "<unknown>": [C19_empty_line_quoted_unknown]
    - caret under the column ........... [C19_caret_under_column]; FALSE from line 10000 on:
                                         [C19_caret_misaligned_refuted]
    Not provable here (no model of parser and checker): that every rejection carries a diagnostic, that
    positions produced by the pipeline are inside the file, and fault localisation.  Those clauses are
    judged on the real pipeline by the end-to-end oracle of lib/vlib/c19.py. *)
From Coq Require Import String Ascii List ZArith.
Import ListNotations.
Local Open Scope string_scope.
Local Open Scope Z_scope.
From MambaModel Require Import gen.DiagConsts model.Diag proofs.DiagProps.

(** The renderer equals its closed-form specification [spec_err] (header, excerpt rows quoted through
    [nth_line], caret row, cause lines) on every well-positioned diagnostic. *)
Theorem C19_render_spec :
  forall msg path pos source cs,
    well_positioned pos source cs ->
    format_err msg path pos source cs = Val (spec_err msg path pos source cs).
Proof. exact format_err_spec. Qed.

(** Rendering never fails -- for TypeErr, ParseErr and UnimplementedErr -- when the error's position and
    the position of its first cause are invisible or in range (column >= 1 at indentation 0, all numbers
    below 2^31 - 2, row no longer than the model's allocation cap) and the source is a Rust string. *)
Theorem C19_render_total :
  (forall e, well_positioned (te_pos e) (te_source e) (te_causes e) ->
             exists text, render_type e = Rendered text)
  /\ (forall e, Z.of_nat (List.length (pe_causes e)) < two31 ->
                well_positioned (Some (pe_pos e)) (pe_source e) (spec_parse_causes (pe_causes e)) ->
                exists text, render_parse e = Rendered text)
  /\ (forall e, well_positioned (Some (ge_pos e)) (ge_source e) [] ->
                exists text, render_gen e = Rendered text).
Proof. exact render_total. Qed.

(** ... and it does fail outside that class: a TypeErr whose position is the union of the invisible
    position with (1,1)-(1,5) panics although every field is a usize and the source is attached. *)
Theorem C19_render_total_refuted :
  exists e, (forall p, te_pos e = Some p ->
               is_usize (line (start p)) /\ is_usize (col (start p)) /\
               is_usize (line (end_ p)) /\ is_usize (col (end_ p)))
            /\ source_ok (te_source e) /\ render_type e = Panic.
Proof. exact render_total_refuted. Qed.

(** Every position obtained as [Position::union] of the invisible position with a visible one makes
    [format_location] panic at indentation 0, whatever the message and source. *)
Theorem C19_union_invisible_panics :
  forall q msg source,
    0 <= line (start q) -> 0 <= col (start q) -> 0 <= line (end_ q) -> 0 <= col (end_ q) ->
    pos_eqb q invisible = false -> pos_eqb (union invisible q) invisible = false ->
    source_ok source ->
    format_location 0 msg (union invisible q) source = Pan.
Proof. exact union_invisible_panics. Qed.

(** The text starts with the message, the arrow, the path ("<unknown>" when absent, one trailing '/'
    removed) and the decimal line and column of the position's start. *)
Theorem C19_header_names_path_and_position :
  forall msg path p source cs s,
    format_err msg path (Some p) source cs = Val s ->
    exists rest,
      s = msg ++ NL ++ " " ++ RIGHT_ARROW ++ " " ++ path_text path ++ ":"
          ++ dec (line (start p)) ++ ":" ++ dec (col (start p)) ++ NL ++ rest.
Proof. exact header_names_path_and_position. Qed.

Theorem C19_decimal_roundtrip : forall n, is_usize n -> undec (dec n) = n.
Proof. exact dec_roundtrip. Qed.

(** When the line numbered [line (start p)] exists in the source ([nth_line], 1-based over [lines]) and is
    not empty, the excerpt shows exactly: number, " | ", that line, newline, then the caret row; the only
    other excerpt row is the previous line, quoted the same way. *)
Theorem C19_quoted_line_verbatim :
  forall offset msg p src l,
    (offset = 0 \/ offset = 1) -> pos_eqb p invisible = false -> in_range offset p -> src_len_ok src ->
    nth_line src (line (start p)) = Some l -> l <> EmptyString ->
    exists before,
      format_location offset msg p (Some src)
      = Val (hook_line (rep " " (Z.to_nat (OFFSET_WIDTH * offset))) msg ++ before
             ++ (rep " " (Z.to_nat (OFFSET_WIDTH * offset)) ++ pad_left 4 (dec (line (start p))) ++ SEP ++ l ++ NL)
             ++ spec_caret_row offset p ++ NL)
      /\ (before = EmptyString \/
          exists l0, nth_line src (line (start p) - 1) = Some l0 /\ l0 <> EmptyString /\
                     before = rep " " (Z.to_nat (OFFSET_WIDTH * offset))
                              ++ pad_left 4 (dec (line (start p) - 1)) ++ SEP ++ l0 ++ NL).
Proof. exact quoted_line_verbatim. Qed.

Theorem C19_quoted_line_wraps_refuted :
  exists p src s l1,
    is_usize (line (start p)) /\ nth_line src (line (start p)) = None /\ nth_line src 1 = Some l1 /\
    format_location 0 None p (Some src) = Val s /\
    s = pad_left 4 (dec (line (start p))) ++ SEP ++ l1 ++ NL ++ spec_caret_row 0 p ++ NL.
Proof. exact quoted_line_wraps_refuted. Qed.

Theorem C19_empty_line_quoted_unknown :
  exists p src,
    in_range 0 p /\ pos_eqb p invisible = false /\ nth_line src (line (start p)) = Some EmptyString /\
    format_location 0 None p (Some src)
    = Val (quote_row EmptyString 1 "a" ++ UNKNOWN ++ NL ++ spec_caret_row 0 p ++ NL).
Proof. exact empty_line_quoted_unknown. Qed.

(** Below line 10000 the first caret stands under byte [c] of the quoted line: the row prefix (indentation,
    number padded to four, " | ") plus [c - 1] is as long as the caret row's blank prefix. *)
Theorem C19_caret_under_column :
  forall ind n c, 0 <= n < 10000 -> 1 <= c ->
    (String.length (row_prefix ind n) + Z.to_nat (c - 1) = String.length (caret_prefix ind c))%nat.
Proof. exact caret_under_column. Qed.

Theorem C19_caret_misaligned_refuted :
  exists n c, 1 <= c /\
    (String.length (row_prefix 0 n) + Z.to_nat (c - 1))%nat <> String.length (caret_prefix 0 c).
Proof. exact caret_misaligned_refuted. Qed.

(** A ParseErr prints no cause unless it has at least two, and then only the first. *)
Theorem C19_parse_shows_at_most_one_cause :
  forall cs, Z.of_nat (List.length cs) < two31 ->
    exists shown, parse_shown_causes cs = Val shown /\
                  (shown = [] \/ exists c r, cs = c :: r /\ shown = [c] /\ r <> []).
Proof. exact parse_shows_at_most_one_cause. Qed.

(** LexErr's own Display (dead code in the pipeline) never panics on a line-0 position and quotes the line
    with the error's number. *)
Theorem C19_lex_render_spec :
  forall e,
    0 <= line (le_pos e) -> 0 <= col (le_pos e) <= alloc_cap ->
    match le_width e with Some w => 0 <= w <= alloc_cap | None => True end ->
    render_lex e = Rendered (spec_lex e).
Proof. exact lex_render_spec. Qed.

(** What "the line with that number" means: [lines] is [str::lines]. *)
Theorem C19_lines_characterisation :
  lines EmptyString = []
  /\ (forall l, no_nl l = true -> l <> EmptyString -> lines l = [l])
  /\ (forall l rest, no_nl l = true -> lines (l ++ String nl rest) = strip_cr l :: lines rest).
Proof. exact lines_characterisation. Qed.

(** Non-vacuity: an ordinary diagnostic with a cause satisfies the hypotheses, and its rendering is the
    text a user sees. *)
Example C19_example_well_positioned :
  well_positioned (te_pos example_err) (te_source example_err) (te_causes example_err).
Proof. exact example_well_positioned. Qed.

Example C19_example_in_range :
  in_range 0 (Position (Caret 2 7) (Caret 2 9))
  /\ nth_line ("def a := 1" ++ NL ++ "print(zz)" ++ NL) 2 = Some "print(zz)".
Proof. exact example_in_range. Qed.

(* statement pins *)
Check C19_render_spec :
  forall msg path pos source cs,
    well_positioned pos source cs ->
    format_err msg path pos source cs = Val (spec_err msg path pos source cs).
Check C19_render_total :
  (forall e, well_positioned (te_pos e) (te_source e) (te_causes e) ->
             exists text, render_type e = Rendered text)
  /\ (forall e, Z.of_nat (List.length (pe_causes e)) < two31 ->
                well_positioned (Some (pe_pos e)) (pe_source e) (spec_parse_causes (pe_causes e)) ->
                exists text, render_parse e = Rendered text)
  /\ (forall e, well_positioned (Some (ge_pos e)) (ge_source e) [] ->
                exists text, render_gen e = Rendered text).
Check C19_quoted_line_verbatim :
  forall offset msg p src l,
    (offset = 0 \/ offset = 1) -> pos_eqb p invisible = false -> in_range offset p -> src_len_ok src ->
    nth_line src (line (start p)) = Some l -> l <> EmptyString ->
    exists before,
      format_location offset msg p (Some src)
      = Val (hook_line (rep " " (Z.to_nat (OFFSET_WIDTH * offset))) msg ++ before
             ++ (rep " " (Z.to_nat (OFFSET_WIDTH * offset)) ++ pad_left 4 (dec (line (start p))) ++ SEP ++ l ++ NL)
             ++ spec_caret_row offset p ++ NL)
      /\ (before = EmptyString \/
          exists l0, nth_line src (line (start p) - 1) = Some l0 /\ l0 <> EmptyString /\
                     before = rep " " (Z.to_nat (OFFSET_WIDTH * offset))
                              ++ pad_left 4 (dec (line (start p) - 1)) ++ SEP ++ l0 ++ NL).
Check C19_header_names_path_and_position :
  forall msg path p source cs s,
    format_err msg path (Some p) source cs = Val s ->
    exists rest,
      s = msg ++ NL ++ " " ++ RIGHT_ARROW ++ " " ++ path_text path ++ ":"
          ++ dec (line (start p)) ++ ":" ++ dec (col (start p)) ++ NL ++ rest.
Check C19_caret_under_column :
  forall ind n c, 0 <= n < 10000 -> 1 <= c ->
    (String.length (row_prefix ind n) + Z.to_nat (c - 1) = String.length (caret_prefix ind c))%nat.
Check C19_union_invisible_panics :
  forall q msg source,
    0 <= line (start q) -> 0 <= col (start q) -> 0 <= line (end_ q) -> 0 <= col (end_ q) ->
    pos_eqb q invisible = false -> pos_eqb (union invisible q) invisible = false ->
    source_ok source ->
    format_location 0 msg (union invisible q) source = Pan.

Print Assumptions C19_render_spec.
Print Assumptions C19_render_total.
Print Assumptions C19_render_total_refuted.
Print Assumptions C19_union_invisible_panics.
Print Assumptions C19_header_names_path_and_position.
Print Assumptions C19_decimal_roundtrip.
Print Assumptions C19_quoted_line_verbatim.
Print Assumptions C19_quoted_line_wraps_refuted.
Print Assumptions C19_empty_line_quoted_unknown.
Print Assumptions C19_caret_under_column.
Print Assumptions C19_caret_misaligned_refuted.
Print Assumptions C19_parse_shows_at_most_one_cause.
Print Assumptions C19_lex_render_spec.
Print Assumptions C19_lines_characterisation.
