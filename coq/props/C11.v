(** * C11 - the annotate option is semantically inert

    Over the model [Convert.conv] of the desugaring (all constructs of the executable core
    language except class definitions), for EVERY typed AST:
    - [C11_verdict]: conversion with annotation succeeds iff conversion without it does;
    - [C11_erase]:   the two results are equal once annotations are erased, the plain
                     imports are identical and so are the from-imports outside [typing];
    - [C11_module]:  the statement lists of the two emitted modules are equal after erasing
                     annotations and dropping the [from typing import ..] lines.
    [gen] (the model of [gen_arguments]) wraps exactly these statement lists ([C11_gen_is_module]).
    The tie to the Rust code is the `gen` correspondence (typed AST in, Core out, both flags). *)
From Coq Require Import List String.
From MambaModel Require Import model.Core gen.Names model.Convert proofs.ConvertProps proofs.ConvertSim.
Import ListNotations.
Local Open Scope string_scope.

Theorem C11_verdict :
  forall a, conv a (state0 true) imports0 = None <-> conv a (state0 false) imports0 = None.
Proof.
  intros a. pose proof (conv_inert a) as H.
  destruct (conv a (state0 true) imports0) as [[c1 j1]|], (conv a (state0 false) imports0) as [[c0 j0]|];
    try contradiction; split; intros E; try discriminate E; reflexivity.
Qed.

Theorem C11_erase :
  forall a c1 j1 c0 j0,
    conv a (state0 true) imports0 = Some (c1, j1) -> conv a (state0 false) imports0 = Some (c0, j0) ->
    erase c1 = erase c0 /\ imps j1 = imps j0 /\ nontyping (from_imps j1) = nontyping (from_imps j0).
Proof. intros a c1 j1 c0 j0 H1 H0. pose proof (conv_inert a) as H. rewrite H1, H0 in H. exact H. Qed.

Theorem C11_module :
  forall a c1 j1 c0 j0,
    conv a (state0 true) imports0 = Some (c1, j1) -> conv a (state0 false) imports0 = Some (c0, j0) ->
    strip_stmts (module_stmts c1 j1) = strip_stmts (module_stmts c0 j0).
Proof. intros a c1 j1 c0 j0 H1 H0. pose proof (annotate_inert a) as H. rewrite H1, H0 in H. exact H. Qed.

Theorem C11_gen_is_module :
  forall ann a,
    gen ann a =
    match conv a (state0 ann) imports0 with
    | Some (c, j) =>
        match c with
        | Block _ => Some (Block (module_stmts c j))
        | _ => if imports_empty j then Some c else Some (Block (module_stmts c j))
        end
    | None => None
    end.
Proof. exact gen_is_module. Qed.

(** Non-vacuity: [def f(x: Int?) -> Int => x ? 1] followed by [def a: Int := f(None)] converts under both
    settings, to different trees that agree after erasure. *)
Definition int_ty : nm := NM [TN false "Int" []].
Definition opt_int : nm := NM [TN true "Int" []].
Definition sample : ast :=
  A None (NBlock [
    A None (NFunDef (A None (NId "f"))
              [A None (NFunArg false (A (Some opt_int) (NId "x")) (Some opt_int) None)]
              (Some int_ty)
              (Some (A (Some int_ty) (NBin SQuestion (A (Some opt_int) (NId "x")) (A (Some int_ty) (NInt "1"))))));
    A None (NVarDef (A (Some int_ty) (NId "a")) (Some int_ty)
              (Some (A (Some int_ty) (NCall "f" [] [A None NUndefined]))))]).
Example sample_differs :
  exists g1 g0, gen true sample = Some g1 /\ gen false sample = Some g0 /\ g1 <> g0 /\ strip g1 = strip g0.
Proof. eexists. eexists. split; [vm_compute; reflexivity|]. split; [vm_compute; reflexivity|].
  split; [discriminate | vm_compute; reflexivity]. Qed.

Check C11_verdict : forall a, conv a (state0 true) imports0 = None <-> conv a (state0 false) imports0 = None.
Check C11_module : forall a c1 j1 c0 j0,
    conv a (state0 true) imports0 = Some (c1, j1) -> conv a (state0 false) imports0 = Some (c0, j0) ->
    strip_stmts (module_stmts c1 j1) = strip_stmts (module_stmts c0 j0).
Print Assumptions C11_verdict.
Print Assumptions C11_erase.
Print Assumptions C11_module.
