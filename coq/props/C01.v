(** * C01 - accepted programs keep their meaning when run as the emitted Python

    Full statement (NOT proved as a whole; kept visible):

      [C01_statement]: for every typed AST [a] of the executable core language and both
      settings of annotate, if [gen ann a = Some c] then, for sufficient fuel,
      [run_py fuel c = run_mamba fuel a] (printed lines and class of the uncaught
      exception), whenever the reference semantics is defined on [a].

    It is FALSE of the faithful model: [C01_question_refuted] and
    [C01_inclusive_negative_step_refuted] are closed witnesses (known findings).
    What is proved for all inputs (partial results, each over the whole domain it names):
    - [C01_implicit_return_partial]: for every statement tree whose tail positions hold
      expressions / return / raise, and every expression semantics, executing
      [append_ret body] returns exactly the value the body has as an expression;
    - [C01_assign_in_branches_partial]: likewise [append_assign target body] binds exactly
      that value to the target (used for [def x := if/match/handle ...]);
    - [C01_operator_table]: every strict operator, [and]/[or], the unary operators and the
      augmented assignments are mapped to the Python operator with the same meaning;
    - [C01_range_positive_step]: the emitted range holds exactly the documented elements
      when the step is positive (exclusive: any step);
    - [C01_pure_expressions_partial]: the whole pipeline [conv] + evaluation for every pure
      expression tree (a full simulation on that fragment).
    Missing for the full statement: the simulation between [MEval.mev] and [PyEval.cexpr]
    through [Convert.conv] for whole programs (function calls, environments, fuel); the
    direct oracle (reference semantics vs python3 on the emitted text) explores it.
    Classes (objects, constructors with parent calls, fields, methods, user exception classes)
    are interpreted by both evaluators; no theorem about the class desugaring is proved, the
    [Example]s at the end run a class program through both. *)
From Coq Require Import List String Bool ZArith.
From MambaModel Require Import model.Core model.SemDom model.Convert model.PySem model.PyEval model.MEval.
From MambaModel Require Import proofs.PySemProps proofs.MEvalProps proofs.ExprSim proofs.StmtSim.
Import ListNotations.

Definition C01_statement : Prop :=
  forall ann a c fuel out st,
    gen ann a = Some c -> run_mamba fuel a = (out, st) -> st <> Unsupported -> st <> Fuel ->
    exists fuel', run_py fuel' c = (out, st).

Theorem C01_implicit_return_partial :
  forall (value env exn : Type) eeval assign augment truthy vnone as_exn iter pmatch catches bind_exn define,
    (forall e, eeval None_ e = (inl vnone, e)) ->
    forall f c e,
      ret_ok c = true ->
      fres_o value env exn vnone
        (exec value env exn eeval assign augment truthy vnone as_exn iter pmatch catches bind_exn define f (append_ret c) e)
      = fres_v value env exn vnone
          (vexec value env exn eeval assign augment truthy vnone as_exn iter pmatch catches bind_exn define f c e).
Proof. exact ret_correct. Qed.

Theorem C01_assign_in_branches_partial :
  forall (value env exn : Type) eeval assign augment truthy vnone as_exn iter pmatch catches bind_exn define,
    forall f t n c i e r,
      assign_ok c = true ->
      vexec value env exn eeval assign augment truthy vnone as_exn iter pmatch catches bind_exn define f c e = r ->
      r <> VFuel value env exn ->
      exec value env exn eeval assign augment truthy vnone as_exn iter pmatch catches bind_exn define f
        (fst (append_assign t n c i)) e
      = assign_of value env exn assign t r.
Proof. exact assign_correct. Qed.

Theorem C01_operator_table :
  (forall o so, nbin_sop o = Some so ->
     exists c, (forall l r, bin_core o l r = Bin c l r) /\ cbin_sop c = Some so)
  /\ ((forall l r, bin_core SAnd l r = Bin CbAnd l r) /\ (forall l r, bin_core SOr l r = Bin CbOr l r))
  /\ (forall o so, nodeop_sop o = Some so -> exists c, core_op o = Some c /\ coreop_sop c = Some so).
Proof. exact (conj strict_operator_table (conj logic_operator_table augmented_assignment_table)). Qed.

Theorem C01_range_positive_step :
  forall a b s x, (0 < s)%Z ->
    (In x (range_list a (range_end b s true) s) <-> exists i, (0 <= i /\ x = a + i * s /\ x <= b)%Z)
    /\ (In x (range_list a (range_end b s false) s) <-> exists i, (0 <= i /\ x = a + i * s /\ x < b)%Z).
Proof.
  intros a b s x H. split; [apply inclusive_range_positive_step; exact H|].
  rewrite exclusive_end. apply range_positive_step_elements; exact H.
Qed.

(** the statement is false of the code: closed witnesses *)
Theorem C01_question_refuted :
  exists a c, gen false a = Some c /\ run_mamba 50 a <> run_py 50 c.
Proof. exists question_program. exact question_refuted. Qed.

Theorem C01_inclusive_negative_step_refuted :
  exists a b s, (s < 0)%Z /\ range_list a (b + 1) s <> range_list a (range_end b s true) s.
Proof. exact inclusive_end_negative_step_refuted. Qed.

(** Non-vacuity: a function body with nested branches meets [ret_ok] and [assign_ok], and a
    whole program runs identically through both semantics. *)
Definition sample_body : core :=
  Block [VarDef (Id "y") None (Some (Int "1"));
         IfElse (Bin CbGe (Id "x") (Int "1"))
                (Block [FunctionCall (Id "print") [Id "x"]; Bin CbMul (Id "x") (Int "2")])
                (Match (Id "x") [Case (Int "0") (Int "10"); Case UnderScore (Un CuRaise (Id "e"))])].
Example sample_body_ok : ret_ok sample_body = true /\ assign_ok sample_body = true.
Proof. split; reflexivity. Qed.

Definition int_ty : nm := NM [TN false "Int" []].
Definition sample_program : ast :=
  A None (NBlock [
    A None (NFunDef (A None (NId "f")) [A None (NFunArg false (A (Some int_ty) (NId "x")) (Some int_ty) None)]
              (Some int_ty)
              (Some (A None (NBlock [
                 A None (NIfElse (A None (NBin SGe (A None (NId "x")) (A None (NInt "1"))))
                           (A None (NBlock [A None (NBin SMul (A None (NId "x")) (A None (NInt "2")))]))
                           (Some (A None (NBlock [A None (NInt "7")]))))]))));
    A None (NFor (A None (NId "i")) (A None (NRange (A None (NInt "0")) (A None (NInt "4")) true (Some (A None (NInt "2")))))
              (A None (NCall "print" [] [A None (NCall "f" [] [A None (NId "i")])])))]).
Example sample_program_agrees :
  exists c, gen false sample_program = Some c
            /\ run_mamba 60 sample_program = (["7"; "4"; "8"]%string, Done)
            /\ run_py 60 c = (["7"; "4"; "8"]%string, Done).
Proof. eexists. split; [vm_compute; reflexivity|]. split; vm_compute; reflexivity. Qed.

(** a class with a body field and a method, a child passing an argument on to its parent, a field
    update, and a user exception class raised and handled through [Exception]: the reference
    semantics (constructor arguments not passed on become fields) and the model of Python on the
    desugared constructor agree *)
Local Open Scope string_scope.
Definition str_ty : nm := NM [TN false "Str" []].
Definition sample_class_program : ast :=
  let id x := A None (NId x) in
  let prop o p := A None (NProp o p) in
  A None (NBlock [
    A None (NClass "P" [] [A None (NVarDef (id "x") (Some int_ty) None)] []
      (Some (A None (NBlock [
         A None (NVarDef (id "z") (Some int_ty) (Some (A None (NInt "5"))));
         A None (NFunDef (id "get") [A None (NFunArg false (id "self") None None)] (Some int_ty)
                   (Some (A None (NBin SAdd (prop (id "self") (id "x")) (prop (id "self") (id "z"))))))]))));
    A None (NClass "Q" [] [A None (NVarDef (id "a") (Some int_ty) None); A None (NVarDef (id "b") (Some int_ty) None)]
      [A None (NParent "P" [] [id "a"])] None);
    A None (NClass "E" [] [A None (NVarDef (id "m") (Some str_ty) None)]
      [A None (NParent "Exception" [] [id "m"])] None);
    A None (NVarDef (id "o") None (Some (A None (NCall "Q" [] [A None (NInt "3"); A None (NInt "4")]))));
    A None (NCall "print" [] [prop (id "o") (A None (NCall "get" [] []))]);
    A None (NReassign (prop (id "o") (id "x")) (A None (NInt "7")) NAssign);
    A None (NCall "print" [] [prop (id "o") (id "x"); prop (id "o") (id "b")]);
    A None (NHandle (A None (NRaise (A None (NCall "E" [] [A None (NStr "boom" false)]))))
      [A None (NCase (A None (NExprType (id "err") (Some (NM [TN false "Exception" []]))))
                (A None (NCall "print" [] [id "err"])))])]).
Example sample_class_program_agrees :
  exists c, gen false sample_class_program = Some c
            /\ run_mamba 60 sample_class_program = (["8"; "7 4"; "boom"]%string, Done)
            /\ run_py 60 c = (["8"; "7 4"; "boom"]%string, Done).
Proof. eexists. split; [vm_compute; reflexivity|]. split; vm_compute; reflexivity. Qed.

(** an argument passed on to the parent is not a field under its own name: reading [o.a] has no
    meaning in the reference semantics, and the emitted Python raises AttributeError *)
Definition passed_on_program : ast :=
  let id x := A None (NId x) in
  A None (NBlock [
    A None (NClass "P" [] [A None (NVarDef (id "x") (Some int_ty) None)] [] None);
    A None (NClass "Q" [] [A None (NVarDef (id "a") (Some int_ty) None)] [A None (NParent "P" [] [id "a"])] None);
    A None (NVarDef (id "o") None (Some (A None (NCall "Q" [] [A None (NInt "3")]))));
    A None (NCall "print" [] [A None (NProp (id "o") (id "a"))])]).
Example passed_on_argument_is_outside :
  exists c, gen false passed_on_program = Some c
            /\ run_mamba 60 passed_on_program = ([], Unsupported)
            /\ run_py 60 c = ([], Uncaught "AttributeError").
Proof. eexists. split; [vm_compute; reflexivity|]. split; vm_compute; reflexivity. Qed.

(** Pure expressions (literals, identifiers, tuples, lists, indexing, all strict operators, and/or, unary
    operators, exclusive ranges with any step, inclusive ranges without a step or with a positive literal step;
    no calls, no [?], no sqrt): for EVERY such expression tree, every state without pending
    return/assignment flags and every imports record, the desugaring succeeds, registers no import, and the
    emitted expression evaluates in the model of Python to exactly the value - or raises exactly the exception -
    that the reference semantics gives, in every pair of environments with the same variables and for every
    fuel at least twice as large; neither side changes its environment.  ([Rel] claims nothing when the reference
    semantics itself is undefined: unsupported value shapes, out of fuel.) *)
Theorem C01_pure_expressions_partial :
  forall a st i c i',
    pure a = true -> plain st -> conv a st i = Some (c, i') ->
    i' = i /\ forall f g em ep, 2 * f <= g -> env_rel em ep -> Rel em ep (mev f a em) (cexpr g c ep).
Proof. exact pure_expr_correct. Qed.

Theorem C01_pure_expressions_convert :
  forall a st i, pure a = true -> plain st -> exists c, conv a st i = Some (c, i).
Proof. exact pure_expr_converts. Qed.

(** Simple statements (definitions [def x := e], assignments [x := e], compound assignments [x op= e] for every
    operator of the table, [pass], blocks, [if] / [if-else] in statement position, nested to any depth; targets
    are identifiers that need no renaming, right-hand sides and conditions are pure expressions):
    for EVERY such statement tree and every conversion state without pending return/assignment flags outside
    a parameter list, whatever [conv] emits runs in the model of Python's statement semantics to a normal end
    exactly when the reference semantics ends normally, raises exactly the exception the reference semantics
    raises, and in both cases the final environments agree again on every variable, on the printed output and
    on the [bad] flag - from every pair of environments that agree in this way, for every statement fuel at
    least as large and every expression fuel at least twice as large.  ([SRel] claims nothing when the
    reference semantics is itself undefined: unsupported value shapes, out of fuel.)  Loops, calls, returns,
    tuple targets, fields and definitions are outside this theorem; they are covered by the parametric
    theorems above and by the three-way oracle. *)
Theorem C01_simple_statements_partial :
  forall a st i c i',
    simple a = true -> plain_stmt st -> conv a st i = Some (c, i') ->
    forall f fs fe em ep, f <= fs -> 2 * f <= fe -> srel em ep ->
      SRel (mev f a em) (pexec (cexpr fe) fs c ep).
Proof. exact simple_stmt_correct. Qed.
Check C01_simple_statements_partial :
  forall a st i c i',
    simple a = true -> plain_stmt st -> conv a st i = Some (c, i') ->
    forall f fs fe em ep, f <= fs -> 2 * f <= fe -> srel em ep ->
      SRel (mev f a em) (pexec (cexpr fe) fs c ep).

Print Assumptions C01_simple_statements_partial.
Print Assumptions C01_pure_expressions_partial.
Print Assumptions C01_pure_expressions_convert.
Print Assumptions C01_implicit_return_partial.
Print Assumptions C01_assign_in_branches_partial.
Print Assumptions C01_operator_table.
Print Assumptions C01_range_positive_step.
Print Assumptions C01_question_refuted.
Print Assumptions C01_inclusive_negative_step_refuted.
