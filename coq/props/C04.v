(** * C04 - accepted programs do not go wrong (first stage: the signature table; see [C04_partial] for what is missing)

    [stubs_sound tbl]: for every row of a core class (Int, Float, Complex, Str, Bool, None) whose method the model
    of Python's operators (model/PyOps.v, validated against python3 on every run) covers, and for every receiver /
    argument run-time tags the declared parameter types admit, Python performs the operation (no TypeError, no
    AttributeError) and every tag the result can carry is admitted by the declared return type.  The table is the one
    regenerated from src/check/resource/**/*.py by translate/stub_sigs.py, so the statement is re-proved (by
    evaluation) whenever a stub changes.
      [C04_stubs_sound_outside_known]   holds for all rows but five
      [C04_stubs_sound_refuted]         while one of the five is present the table is not sound; tag-level witnesses:
                                        ["a" + 1] is a TypeError (D9), [2 ^ -1] is a float declared Int,
                                        [(-8.0) ^ 0.5] is a complex declared Float, [-c] of a Complex is declared
                                        Float, python's str has no [is_digit]
    Full soundness (no accepted program raises TypeError / AttributeError / NameError / UnboundLocalError) is FALSE of
    the faithful model beyond the table as well: props/C05.v [C05_witnesses] are accepted programs that go wrong
    (field of None, [x ? None], T? range bound, missing return, handle arm of another type, unchecked parent
    constructor argument); lib/vlib/c04.py runs the emitted Python of every accepted program and mutant. *)
From Coq Require Import List String Bool ZArith.
From MambaModel Require Import model.Types model.TypingSig gen.Stubs gen.StubSigs model.PyOps model.Typing model.TagSem
  proofs.StubsSound proofs.TagSound.
Import ListNotations.
Local Open Scope string_scope.

Theorem C04_stubs_sound_outside_known : stubs_sound (filter (fun r => negb (known_row r)) stub_sigs) = true.
Proof. exact sound_outside_known. Qed.

Theorem C04_stubs_sound_refuted : forall tbl, known_unsound_present tbl = true -> stubs_sound tbl = false.
Proof. exact refuted_when_present. Qed.

Theorem C04_unsound_row_refutes : forall tbl r,
  In r tbl -> core_row r = true -> row_sound r = false -> stubs_sound tbl = false.
Proof. exact unsound_row_refutes. Qed.

Theorem C04_tag_witnesses :
  py_call "Str" "__add__" GStr [GInt] = None /\
  py_call "Int" "__pow__" GInt [GInt] = Some [GInt; GFloat] /\
  py_call "Float" "__pow__" GFloat [GFloat] = Some [GFloat; GComplex] /\
  py_call "Complex" "__neg__" GComplex [] = Some [GComplex] /\
  py_call "Str" "is_digit" GStr [] = None.
Proof. repeat split. Qed.

(** ** C04_partial: progress and preservation, on tags, for the core expressions

    For the regenerated class table and the regenerated signature table without the five known rows: a typable core
    expression ([core_e]: literals, variables, binary operators, not / and / or, [x ? d], if-expressions, f-strings, at any
    nesting) evaluated by model/TagSem.v in an environment whose variables carry tags admitted by their (core) types has
    no outcome that goes wrong, and every outcome carries a tag the synthesised type admits.
    MISSING for the full property: function / method / constructor calls and field accesses (no objects, no bodies:
    the semantics has no statements, no store, no fuel), user classes, definite assignment (NameError through a
    variable that is not yet assigned on some path, UnboundLocalError), the statement level of model/Typing.v.  With
    the table as it is the statement is false ([C04_partial_refuted]). *)
Theorem C04_partial : forall funs fields e d rho t,
  core_e e = true -> core_denv d -> env_tags rho d ->
  has_type generated sound_rows funs fields d e t ->
  In t core_tys /\ (forall o, In o (aeval rho e) -> exists g, o = Some g /\ In g (tags_of_ty t)).
Proof. intros funs fields. exact (tag_sound generated sound_rows funs fields tables_ok_outside_known). Qed.

Theorem C04_partial_any_tables : forall cx sigs funs fields, tables_ok cx sigs = true -> forall e d rho t,
  core_e e = true -> core_denv d -> env_tags rho d -> has_type cx sigs funs fields d e t ->
  ~ In None (aeval rho e).
Proof. intros cx sigs funs fields H e d rho t. exact (no_wrong cx sigs funs fields H e d rho t). Qed.

Theorem C04_partial_refuted :
  d9_typable = true ->
  exists t, has_type generated stub_sigs [] [] [] d9_expr t /\ core_e d9_expr = true /\ In None (aeval [] d9_expr).
Proof. exact typable_goes_wrong. Qed.

(** the hypotheses of [C04_partial] are satisfiable by a non-trivial case *)
Example C04_partial_example :
  let d := [("x", {| d_ty := opt tInt; d_mut := false |}); ("y", {| d_ty := tFloat; d_mut := false |})] in
  let e := EIf (EOp "__lt__" (EVar "y") (EInt 2%Z)) (EOp "__mul__" (EQuest (EVar "x") (EInt 3%Z)) (EInt 2%Z)) (EInt 0%Z) in
  core_e e = true /\ core_denv d /\ env_tags [("x", GNone); ("y", GInt)] d /\
  (exists t, has_type generated sound_rows [] [] d e t) /\ aeval [("x", GNone); ("y", GInt)] e = [Some GInt; Some GInt].
Proof. exact partial_example. Qed.

(* statement pins *)
Check C04_partial : forall funs fields e d rho t,
  core_e e = true -> core_denv d -> env_tags rho d ->
  has_type generated sound_rows funs fields d e t ->
  In t core_tys /\ (forall o, In o (aeval rho e) -> exists g, o = Some g /\ In g (tags_of_ty t)).
Check C04_stubs_sound_outside_known : stubs_sound (filter (fun r => negb (known_row r)) stub_sigs) = true.
Check C04_stubs_sound_refuted : forall tbl, known_unsound_present tbl = true -> stubs_sound tbl = false.
Print Assumptions C04_stubs_sound_outside_known.
Print Assumptions C04_stubs_sound_refuted.
Print Assumptions C04_tag_witnesses.
Print Assumptions C04_partial.
Print Assumptions C04_partial_any_tables.
Print Assumptions C04_partial_refuted.
